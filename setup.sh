#!/bin/bash
# builds the whole harness offline from files on disk (path dependencies on /repo's working tree)
set -e
cd "$(dirname "$0")"
export CARGO_NET_OFFLINE=true
mkdir -p work evidence
cd harness
cargo build --profile vf --workspace 2>&1 | tail -5
# C14 needs the same crate built with the repository's `concurrent` feature as well
VERIF_ROOT="$(cd .. && pwd)" ./vf-conc/run.sh --build-only
# coverage-guided fuzz target for C06 (libFuzzer + ASan, nightly toolchain)
cargo +nightly fuzz build --fuzz-dir ../fuzz proof_bytes 2>&1 | tail -2
cargo +nightly fuzz build --fuzz-dir ../fuzz read_adapter 2>&1 | tail -2
