#!/bin/bash
# tools/confirm_mutant.sh <Cxx> <A|B>
# Confirms a seeded change in the scratch worktree /tmp/mut/<Cxx>: (1) with the change the workspace
# builds and the whole existing test suite passes, (2) the demonstration fails with the change,
# (3) passes without it. Writes /tmp/mut/<Cxx>-out/<X>.confirm (one line per step).
set -u
P="$1"; X="$2"
WT="/tmp/mut/$P"; OUT="/tmp/mut/$P-out"
export CARGO_TARGET_DIR="${MUT_TARGET:-/tmp/mut/target}" CARGO_NET_OFFLINE=true   # MUT_TARGET=<dir>: another build slot
cd "$WT" || exit 2
git checkout -q -- . && git clean -qfd
R="$OUT/$X.confirm"; : > "$R"
# where does the demo go? first line of the md that mentions tests/ path, else winterfell/tests
DEMO_DST=$(grep -oE '[a-z/_]+/tests/[A-Za-z0-9_]+\.rs' "$OUT/$X.md" | head -1)
[ -z "$DEMO_DST" ] && DEMO_DST="winterfell/tests/${P,,}_mutant_${X,,}.rs"
CRATE_DIR=$(echo "$DEMO_DST" | sed -E 's#/tests/.*##')
PKG=$(grep -m1 '^name' "$CRATE_DIR/Cargo.toml" | sed -E 's/name *= *"(.*)"/\1/')
TEST=$(basename "$DEMO_DST" .rs)
REL=""; grep -q -- "--release" "$OUT/$X.md" && REL="--release"
grep -q -- "--features concurrent" "$OUT/$X.md" && REL="$REL --features concurrent"
git apply "$OUT/$X.patch" || { echo "patch does not apply" >> "$R"; exit 1; }
if cargo test --workspace --offline --no-fail-fast >"$OUT/$X.confirm-suite.log" 2>&1; then echo "suite-with-change: PASS" >> "$R"; else echo "suite-with-change: FAIL" >> "$R"; fi
mkdir -p "$(dirname "$DEMO_DST")"; cp "$OUT/$X-demo.rs" "$DEMO_DST"
if cargo test $REL -p "$PKG" --offline --test "$TEST" >"$OUT/$X.confirm-demo-with.log" 2>&1; then echo "demo-with-change: PASS (unexpected)" >> "$R"; else echo "demo-with-change: FAIL (expected)" >> "$R"; fi
git apply -R "$OUT/$X.patch"
if cargo test $REL -p "$PKG" --offline --test "$TEST" >"$OUT/$X.confirm-demo-without.log" 2>&1; then echo "demo-without-change: PASS (expected)" >> "$R"; else echo "demo-without-change: FAIL (unexpected)" >> "$R"; fi
git checkout -q -- . && git clean -qfd
echo "demo: cargo test $REL -p $PKG --offline --test $TEST  (file $DEMO_DST)" >> "$R"
cat "$R"
