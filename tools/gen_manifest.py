#!/usr/bin/env python3
"""Regenerates /verif/MANIFEST.json from the table below (single source of truth)."""
import json, os

ROOT = os.path.dirname(os.path.dirname(os.path.abspath(__file__)))

# id -> (level category, engine, technique, level text, level note, design ref)
CHECKS = {
    "C07": ("exploration", "vf-math",
            "property-based testing (proptest): generated operand tuples and operation histories vs an integer reference model",
            "Generated-input search: every base-field operation, conversion and observable is compared with plain integer arithmetic mod p on operands drawn 1:1:1 from boundary residues, structured/edge internal images (incl. operands solved to hit lazy-reduction windows) and uniform values; operation histories over 4 registers check the representation invariant after every step; all published constants are checked exhaustively against their defining equations. Not a proof: absence of a counter-example in the explored sample.",
            "Trusts the harness' u128 reference arithmetic (self-checked against num-bigint at start-up) and the hard-coded factorisations of p-1 (re-verified by division and trial primality).",
            "DESIGN.md 3/C07"),
}

NOT_YET = {
}

def main():
    props = [json.loads(l) for l in open(os.path.join(ROOT, "properties.jsonl"))]
    checks = []
    for p in props:
        pid = p["id"]
        if pid not in CHECKS:
            continue
        cat, engine, technique, text, note, ref = CHECKS[pid]
        checks.append({
            "property_id": pid,
            "quick_cmd": f"./check {pid} quick",
            "thorough_cmd": f"./check {pid} thorough",
            "evidence_file": f"/verif/evidence/{pid}.json",
            "replay_cmd_template": "./check --replay {path}",
            "engine": engine,
            "level_claimed": {"category": cat, "text": text, "design_ref": ref},
            "level_note": note,
            "technique": technique,
        })
    na = []
    for p in props:
        pid = p["id"]
        if pid not in CHECKS:
            na.append({"property_id": pid, "reason": NOT_YET.get(pid, "check not built yet in this round (planned, see DESIGN.md section 3); property-based testing applies")})
    man = {
        "version": 1,
        "setup_cmd": "./setup.sh",
        "hooks": {
            "guard": "winterfell_verif",
            "enable": "none needed: every check drives /repo through its public API (path dependencies on /repo's working tree); the cfg name winterfell_verif is reserved (RUSTFLAGS=--cfg winterfell_verif) and unused",
            "baseline_off_cmd": "cd /repo && cargo test --workspace --no-fail-fast --offline",
            "source_commits": [],
            "add_only": True,
        },
        "engines": [
            {"name": "vf-core", "path": "harness/vf-core", "serves_properties": [c["property_id"] for c in checks],
             "kind_free_text": "seeded proptest runner (16 deterministic shards), case classification/distinct counting, shrinking with stable failure keys, replay files, known-findings matcher, watchdog with isolated re-run, evidence writer"},
            {"name": "vf-ref", "path": "harness/vf-ref", "serves_properties": [c["property_id"] for c in checks],
             "kind_free_text": "reference models independent of /repo: integer prime fields, extension fields modulo the documented irreducibles, schoolbook polynomials"},
        ],
        "checks": checks,
        "notes": "All checks: ./check <Cxx> <quick|thorough>; VERIF_SEED selects the PRNG stream (default 0). Exit 2 = inconclusive (never a violation). Known findings: /verif/known_findings.json.",
        "not_applicable": na,
    }
    json.dump(man, open(os.path.join(ROOT, "MANIFEST.json"), "w"), indent=1)
    print("wrote MANIFEST.json with", len(checks), "checks,", len(na), "not claimed")

if __name__ == "__main__":
    main()
