#!/usr/bin/env python3
"""Regenerates /verif/MANIFEST.json from the table below (single source of truth)."""
import json, os

ROOT = os.path.dirname(os.path.dirname(os.path.abspath(__file__)))

# id -> (level category, engine, technique, level text, level note, design ref)
CHECKS = {
    "C07": ("exploration", "vf-math",
            "property-based testing (proptest): generated operand tuples and operation histories vs an integer reference model",
            "Generated-input search: every base-field operation, conversion and observable is compared with plain integer arithmetic mod p on operands drawn 1:1:1 from boundary residues, structured/edge internal images (incl. operands solved to hit lazy-reduction windows) and uniform values; operation histories over 4 registers check the representation invariant after every step; all published constants are checked exhaustively against their defining equations. Not a proof: absence of a counter-example in the explored sample.",
            "Trusts the harness' u128 reference arithmetic (self-checked against num-bigint at start-up) and the hard-coded factorisations of p-1 (re-verified by division and trial primality).",
            "DESIGN.md 3/C07"),
    "C08": ("exploration", "vf-math",
            "property-based testing (proptest): generated coefficient tuples vs polynomial arithmetic modulo the documented irreducible",
            "Generated-input search over the five extension types: all arithmetic, squaring fast paths, mul_base, inversion (every non-zero element), conjugation (compared with x -> x^p by definition; automorphism laws; fixed field = base field; norm in base field), embedding homomorphism, slice/byte reinterpretation round trips, serialization and Display are compared with a schoolbook reference. Coefficients come from the C07 operand generator in every position, plus coefficients solved so that a chosen partial product has a boundary internal image.",
            "Trusts the reference extension arithmetic (irreducibility of the documented polynomials re-verified at start-up through Frobenius) and assumes the documented irreducibles are the intended ones.",
            "DESIGN.md 3/C08"),
    "C09": ("exploration", "vf-math",
            "property-based testing (proptest): generated polynomials/matrices, differential against direct Horner evaluation",
            "Generated-input search: every FFT entry point (evaluate, evaluate with offset/blowup, interpolate, serial_fft, twiddles, degree inference, permute_index) and the column-batched segmented LDE builders (ColMatrix, RowMatrix::<N> for N in 1,2,4,8,16 with 1..255 columns, StarkDomain) are compared with direct evaluation at offset*w^i over integer residues: all points for domains <= 256, generated sample positions above; sizes 2^1..2^12 (quick) / 2^15 (thorough), all three fields and five extension types.",
            "Serial build only (concurrent paths are C14). Domains above 256 points are compared at sampled positions (plus interpolate(evaluate(p)) == p on all coefficients). Uses the published root of unity, whose defining equations C07 checks.",
            "DESIGN.md 3/C09"),
    "C20": ("exploration", "vf-math",
            "property-based testing (proptest): generated polynomials, point sets and vectors vs schoolbook reference identities",
            "Generated-input search over base and extension fields of the three primes: add/sub/mul/scalar/eval/degree/remove_leading_zeros, long division (q*b+r=a, deg r<deg b), synthetic division by x^a-b (incl. b=1, a>=2, repeated) and by root lists, Lagrange interpolation (single and batched N=2,4,8,16), poly_from_roots, batch inversion with zeros at generated positions, power series, add_in_place, mul_acc at lengths on both sides of the 1024-element threshold. Documented panics are required to happen; every other panic is a violation.",
            "Trusts the schoolbook reference (vf-ref). Power series of length 0 and empty dividend slices are not generated (undefined by the docs, no caller uses them).",
            "DESIGN.md 3/C20"),
}

NOT_YET = {
}

def main():
    props = [json.loads(l) for l in open(os.path.join(ROOT, "properties.jsonl"))]
    checks = []
    for p in props:
        pid = p["id"]
        if pid not in CHECKS:
            continue
        cat, engine, technique, text, note, ref = CHECKS[pid]
        checks.append({
            "property_id": pid,
            "quick_cmd": f"./check {pid} quick",
            "thorough_cmd": f"./check {pid} thorough",
            "evidence_file": f"/verif/evidence/{pid}.json",
            "replay_cmd_template": "./check --replay {path}",
            "engine": engine,
            "level_claimed": {"category": cat, "text": text, "design_ref": ref},
            "level_note": note,
            "technique": technique,
        })
    na = []
    for p in props:
        pid = p["id"]
        if pid not in CHECKS:
            na.append({"property_id": pid, "reason": NOT_YET.get(pid, "check not built yet in this round (planned, see DESIGN.md section 3); property-based testing applies")})
    man = {
        "version": 1,
        "setup_cmd": "./setup.sh",
        "hooks": {
            "guard": "winterfell_verif",
            "enable": "none needed: every check drives /repo through its public API (path dependencies on /repo's working tree); the cfg name winterfell_verif is reserved (RUSTFLAGS=--cfg winterfell_verif) and unused",
            "baseline_off_cmd": "cd /repo && cargo test --workspace --no-fail-fast --offline",
            "source_commits": [],
            "add_only": True,
        },
        "engines": [
            {"name": "vf-core", "path": "harness/vf-core", "serves_properties": [c["property_id"] for c in checks],
             "kind_free_text": "seeded proptest runner (16 deterministic shards), case classification/distinct counting, shrinking with stable failure keys, replay files, known-findings matcher, watchdog with isolated re-run, evidence writer"},
            {"name": "vf-ref", "path": "harness/vf-ref", "serves_properties": [c["property_id"] for c in checks],
             "kind_free_text": "reference models independent of /repo: integer prime fields, extension fields modulo the documented irreducibles, schoolbook polynomials"},
        ],
        "checks": checks,
        "notes": "All checks: ./check <Cxx> <quick|thorough>; VERIF_SEED selects the PRNG stream (default 0). Exit 2 = inconclusive (never a violation). Known findings: /verif/known_findings.json.",
        "not_applicable": na,
    }
    json.dump(man, open(os.path.join(ROOT, "MANIFEST.json"), "w"), indent=1)
    print("wrote MANIFEST.json with", len(checks), "checks,", len(na), "not claimed")

if __name__ == "__main__":
    main()
