#!/usr/bin/env python3
"""Regenerates /verif/MANIFEST.json from the table below (single source of truth)."""
import json, os

ROOT = os.path.dirname(os.path.dirname(os.path.abspath(__file__)))

# id -> (level category, engine, technique, level text, level note, design ref)
CHECKS = {
    "C07": ("exploration", "vf-math",
            "property-based testing (proptest): generated operand tuples and operation histories vs an integer reference model",
            "Generated-input search: every base-field operation, conversion and observable is compared with plain integer arithmetic mod p on operands drawn 1:1:1 from boundary residues, structured/edge internal images (incl. operands solved to hit lazy-reduction windows) and uniform values; exponents that are multiples of the group order (zero base included), TryFrom<usize> and the conversions out of f64 are covered; operation histories over 4 registers check the representation invariant after every step; all published constants are checked exhaustively against their defining equations. Not a proof: absence of a counter-example in the explored sample.",
            "Trusts the harness' u128 reference arithmetic (self-checked against num-bigint at start-up) and the hard-coded factorisations of p-1 (re-verified by division and trial primality).",
            "DESIGN.md 3/C07"),
    "C08": ("exploration", "vf-math",
            "property-based testing (proptest): generated coefficient tuples vs polynomial arithmetic modulo the documented irreducible",
            "Generated-input search over the five extension types: all arithmetic, squaring fast paths, mul_base, inversion (every non-zero element), conjugation (compared with x -> x^p by definition; automorphism laws; fixed field = base field; norm in base field), embedding homomorphism, slice/byte reinterpretation round trips, serialization and Display are compared with a schoolbook reference. Coefficients come from the C07 operand generator in every position, plus coefficients solved so that a chosen partial product has a boundary internal image.",
            "Trusts the reference extension arithmetic (irreducibility of the documented polynomials re-verified at start-up through Frobenius) and assumes the documented irreducibles are the intended ones.",
            "DESIGN.md 3/C08"),
    "C09": ("exploration", "vf-math",
            "property-based testing (proptest): generated polynomials/matrices, differential against direct Horner evaluation",
            "Generated-input search: every FFT entry point (evaluate, evaluate with offset/blowup, interpolate, serial_fft, twiddles, degree inference, permute_index) and the column-batched segmented LDE builders (ColMatrix, RowMatrix::<N> for N in 1,2,4,8,16 with 1..255 columns, StarkDomain, single segments built by Segment::new at arbitrary base-column offsets) are compared with direct evaluation at offset*w^i over integer residues: all points for domains <= 256, generated sample positions above; sizes 2^1..2^12 (quick) / 2^15 (thorough), all three fields and five extension types.",
            "Serial build only (concurrent paths are C14). Domains above 256 points are compared at sampled positions (plus interpolate(evaluate(p)) == p on all coefficients). Uses the published root of unity, whose defining equations C07 checks.",
            "DESIGN.md 3/C09"),
    "C20": ("exploration", "vf-math",
            "property-based testing (proptest): generated polynomials, point sets and vectors vs schoolbook reference identities",
            "Generated-input search over base and extension fields of the three primes: add/sub/mul/scalar/eval/degree/remove_leading_zeros, long division (q*b+r=a, deg r<deg b), synthetic division by x^a-b (incl. b=1, a>=2, repeated) and by root lists, Lagrange interpolation (single and batched N=2,4,8,16), poly_from_roots, batch inversion with zeros at generated positions, power series, add_in_place, mul_acc at lengths on both sides of the 1024-element threshold; eval / eval_many / degree_of on polynomials of up to 4097 coefficients (odd lengths above 2048 included). Documented panics are required to happen; every other panic is a violation.",
            "Trusts the schoolbook reference (vf-ref). Power series of length 0 and empty dividend slices are not generated (undefined by the docs, no caller uses them).",
            "DESIGN.md 3/C20"),
    "C01": ("exploration", "vf-stark",
            "property-based testing (proptest): generated computation descriptions (GenAir family) with by-construction valid traces; oracle = prove, verify, serialize, parse, verify",
            "Generated-input search over a run-time described family of computations: 1..255 columns, rules of degree 1..blowup+1 with and without periodic columns, geometric (constant / x^k / periodic) columns, 1..n/2+1 exemptions, single/periodic/sequence assertions drawn from the trace (zero and non-zero first step, up to n/2 values), optional randomized auxiliary segment (0..255 random elements, Lagrange kernel column), all-degenerate traces, every option set with a well-formed FRI schedule, 3 fields x 3 extension degrees x 6 hashers (12 admissible field/hasher pairs). A valid trace (by construction and by the harness' reference validity predicate, cross-checked with Trace::validate) must prove, verify, survive Proof::to_bytes/from_bytes unchanged and verify again.",
            "Sizes are bounded for cost (n <= 2^8 quick / 2^12 thorough, grinding <= 8 / 16, LDE cells <= 2^19 / 2^22 per case). Coin exhaustion (1000 rejected draws, cubic f62) is outside the claim and counted. Debug-assertion-only checks of the prover are not exercised (profile without debug assertions).",
            "DESIGN.md 3/C01"),
    "C02": ("fault_enumeration", "vf-stark",
            "property-based testing / fault injection (proptest): corrupted cells, perturbed public inputs and proof contexts; oracle = reference validity predicate",
            "Fault enumeration over the C01 family: one cell of a valid trace (main or auxiliary segment) is corrupted at steps drawn from the boundary classes the property names (0, 1, last enforced step, n-k, n-k+1, n-1, every asserted step) and at random positions, exhaustively over every cell of a few small traces; the harness' reference validity predicate decides whether the result is still valid (then it must still prove and verify) or invalid (then no accepted proof may exist; the prover is built without debug assertions so it does not self-check). Accepted proofs are also verified against every kind of perturbed public input and against changed trace shapes / parameters in the proof context and must be rejected.",
            "Acceptance by luck has probability < 2^-40 per case (random OOD point hitting a root); proofs over all-constant traces that are bound to their seed by fewer than 40 bits (few queries, small domain) are left out of the other-statement oracle and counted. Correlated faults (several asserted cells of an exempted row whose errors cancel) and faults in the Lagrange kernel column are injected as well. Panics of prover or verifier count as 'not accepted' here and are C06's subject. Perturbations that leave the statement unchanged are excluded and counted.",
            "DESIGN.md 3/C02"),
    "C04": ("exploration", "vf-stark",
            "property-based testing (proptest) with a recording public coin; oracle = transcript derived from the proof object and replayed on a fresh coin",
            "Generated-input search: prover and verifier are run with a RecordingCoin (substituted through their public type parameters). The harness derives the protocol's transcript from the proof object alone (context and public inputs as seed; roots parsed from the commitments; OOD hashes recomputed from the proof's bytes; draw counts from the AIR; nonce and query parameters), replays it on a fresh DefaultRandomCoin and requires both recorded transcripts to equal it operation by operation (the verifier's unused extra folding challenge is the only tolerated difference), so a message that is not absorbed, absorbed late, or absorbed with a recomputed instead of the transmitted value is detected even if prover and verifier agree with each other. The context part of the seed is compared with the documented element layout computed from the harness' own inputs. Metamorphic part: disturbing any absorbed message (and perturbing the nonce by 1, p, 2p, the top bit) changes every later challenge / the query positions.",
            "Assumes hash functions behave as random oracles for 'changes later challenges'. Sizes as in C01 (smaller). The order of absorption is taken from the protocol description in the prover/verifier documentation.",
            "DESIGN.md 3/C04"),
    "C17": ("exploration", "vf-stark",
            "property-based testing (proptest): differential against an executable definition of the composition polynomial at generated points",
            "Generated-input search: for GenAir instances (periodic columns of several cycle lengths, sequence assertions on both sides of the representation switch, non-zero first steps, exemptions > 1, aux segment with and without a Lagrange kernel column, extensions, ce-blowup < lde-blowup) the value sum x^(i n) H_i(x) of the polynomial the prover would commit to (DefaultTraceLde -> DefaultConstraintEvaluator -> CompositionPoly, public API) is compared at 4 generated extension-field points with the definition computed over integer residues (trace polynomials by naive inverse DFT, rules on (T(x), T(gx)), periodic polynomials by Lagrange interpolation at x^(n/cycle), quotients by model zero sets, assertion polynomials by Lagrange interpolation); the verifier-side evaluation assembled from the air crate's public building blocks on the reference frame must give the same value.",
            "The Lagrange kernel column's constraints are part of the definition; the proof of each compared instance must also be accepted by verify(), which brings the verifier's crate-private evaluator under the check. Agreement at 4 random points of a field of >= 2^62 elements is taken as polynomial identity (error < 2^-40). Composition coefficients are chosen by the harness (boundary coefficients all equal, or distinct with the assignment read through public accessors).",
            "DESIGN.md 3/C17"),
    "C16": ("exploration", "vf-air",
            "exhaustive enumeration (run.enumerate) + property-based testing (proptest) against an independent step-set model",
            "Exhaustive enumeration against a step-set model: every (n in {8..256}, k = 1..n/2+1) transition divisor and every valid assertion (kind x column in {0,1} x first step x stride x #values; sequence value lists unrelated, all equal, equal in pairs, alternating, all but the last equal) on all three base fields is evaluated on every trace-domain point (plus n+2 off-domain points for the transition divisor); overlaps_with is compared with step-set intersection for all ordered pairs at every n; BoundaryConstraints::new is driven with all ordered pairs for n <= 128 (quick) / n <= 256 (thorough) plus generated pairs; hand-enumerated ill-formed assertions must be refused; in two-segment contexts of differing widths an assertion is accepted exactly when its column exists in its own segment. exhaustive:true is reported per sub-space actually completed; pairs/sampled is a sample.",
            "Domain points come from the harness' integer field using the integer value of the published TWO_ADIC_ROOT_OF_UNITY (order established by C07). Non-vanishing of the transition divisor on exempt points is concluded from identity with the model product at n+2 points with non-zero denominator. Width fixed at 2 columns except in the segment-widths sub-check; base fields only.",
            "DESIGN.md 3/C16"),
    "C18": ("exploration", "vf-air",
            "exhaustive enumeration of the parameter lattice + property-based testing (proptest) of monotonicity and of the verifier's acceptance policy on generated honest and forged proofs",
            "Conjectured estimate compared with the formula transcribed from the documentation on the complete lattice queries 1..255 x blowup 2..128 x grinding 0..32 x extension 1..3 x trace 2^3..2^(31-log2 blowup) x {62,64,128}-bit fields x collision resistance 96..128 (FRI options rotated in quick, full product in thorough). Both estimates checked for monotonicity along the whole queries / grinding / extension / collision-resistance axes from generated base points (proven estimate: sampled). Acceptance policy checked on real proofs of a small AIR over the three fields: Insufficient* iff level < minimum, UnacceptableProofOptions iff not in the set, forged field moduli never accepted, neither on the honest proof nor on a proof that a dishonest prover computed under the forged context's seed (coin with swapped context elements).",
            "No independent oracle for the proven estimate (monotonicity, cap, no panic, the repository's 5 pinned values only). Collision resistances other than 96/124/128 via a user-defined Hasher. Real proofs limited to traces <= 2^6 and grinding <= 10. Lengths Context::new refuses are outside the claim. Panics on forged contexts are counted as 'not accepted' (C06's subject).",
            "DESIGN.md 3/C18"),
    "C03": ("fault_enumeration", "vf-stark",
            "property-based testing / fault injection (proptest + exhaustive enumeration): byte-level and adaptive mutations of accepted proofs; oracle = parse, compare decoded content, verify",
            "Fault enumeration on accepted proofs of generated GenAir instances: every single-bit flip of a basket of small proofs (exhaustive), structure-aware mutations of every field of the layout (boundary values for every length/count/scalar, zero/fill/flip/rotate/swap of data blocks i.e. reordered openings, truncation and extension of every length-prefixed component with and without prefix fix-up, cuts, trailing bytes), and consistency-preserving substitutions computed from the verifier's query positions (FRI remainder + c*V(queried points), an unused GKR proof, trailing bytes in the Lagrange OOD block, other nonces incl. nonce + p / + 2p / top bit, a surplus node vector in a batch opening, trace metadata extended by zero bytes). A mutant must fail to parse, decode to the same proof (excluded), fall under the listed exclusions, or be rejected.",
            "Exclusions: FRI partition count edits (listed by the property); a nonce edit that satisfies the proof-of-work condition and yields the same query positions by the transcript replayed with the harness' own reference hashers and coin (vf-ref; honest proofs are cross-checked against it). Baselines over all-constant traces bound to their seed by fewer than 40 bits are not used. Panics count as 'not accepted' here (C06's subject). Collision resistance of the hashers assumed.",
            "DESIGN.md 3/C03"),
    "C06": ("fault_enumeration", "vf-stark",
            "property-based testing / fuzzing-style mutation (proptest + exhaustive enumeration) with panic capture, measuring allocator, fatal-signal containment and watchdog",
            "Fault enumeration over hostile inputs: for a basket of small honest proofs truncation at every offset, every byte replaced by 0x00/0x01/0x7f/0x80/0xff, every length/count/size/scalar field set to 0/1/max-1/max/+-1/*2 (exhaustive; thorough adds every bit flip); chains of 1..3 structure-aware mutations of generated proofs over all 12 field/hasher pairs; proofs spliced from the components of two different proofs; raw byte strings with and without a valid context prefix. Parse (Proof::from_bytes and Proof::read_from over the streaming ReadAdapter) and verify (against the proof's own and against another statement, under every kind of acceptance policy: minimal conjectured / proven security, an option set, the empty set) must return Ok/Err: any panic (overflow checks on), any single allocation above max(16 MiB, 4096 x input), any fatal signal, absurd allocation request or non-termination is a violation with the input as replay file.",
            "The harness' own Air is total (falls back to a fixed AIR when the proof's trace shape does not match the statement), so panics are the library's. One open known finding: the blowup assertion of AirContext reached through the infallible Air::new with untrusted options (API-level, see known_findings.json). Out-of-bounds reads inside unsafe code that do not crash are observable in the libFuzzer stage only (ASan).",
            "DESIGN.md 3/C06"),
    "C05": ("fault_enumeration", "vf-fri",
            "property-based adversarial testing (proptest) with adaptive provers (AdvFri) and an exact legitimacy oracle",
            "Fault enumeration: 13 adversary strategies in 6 families (honest folding of random / too-high-degree (also with every coefficient below the bound zero) / partially corrupted functions, over-long remainder, switching to another function at some layer, values opened from another chain or solved after the queries so that only one Merkle check can notice, folding with a wrong challenge incl. crafted instances only that one consistency check can notice, omitted / duplicated / swapped layers, remainder interpolated after the queries with and without sending its commitment, rows solved after the queries under a partition count above the number of rows) played by an independent FRI prover that writes FriProof wire bytes itself against the real FriVerifier/DefaultVerifierChannel, over folding 2/4/8/16, all remainder sizes, blowups, 1..255 queries, base and extension fields, six hashers. Acceptance is allowed only when an exact ground-truth verdict computed from the actual query positions shows that nothing visible was wrong.",
            "Panics on omitted/duplicated layers are labelled, not judged (C06's subject). Claimed degree bounds that are not of the form 2^k-1 are explored by the sub-check reduced-bound only (polynomials of degree between the claimed bound and the schedule's 2^k-1 proven honestly must be refused); more than one partition only in the hostile form named above. Collision resistance assumed.",
            "DESIGN.md 3/C05"),
    "C15": ("exploration", "vf-fri",
            "property-based testing (proptest) with an independent coefficient-domain reference model (vf-ref) and a differential byte-level prover (AdvFri honest)",
            "Generated-input search: honest FriProver/FriVerifier over 33 element-type x hasher combinations and schedules well-formed by construction (one prover instance reused for 2-3 proofs, direct and after FriProof bytes round trip, duplicate and post-folding-colliding positions drawn and forced, exactly 255 distinct openings of the first layer forced, up to 255 queries, domains up to 2^12 quick / 2^14 thorough); the folding identity apply_drp::<2|4|8|16> against reference interpolation and interleaved coefficient slices over integer residues (n <= 256); fold_positions / map_positions_to_indexes against their models; FriOptions::num_fri_layers exhaustively against a closed formula; AdvFri(honest) byte-identical to FriProver.",
            "exhaustive:true only for num-layers; folding identity bounded to n <= 256; degree bound 1 exercised by a dedicated sub-check.",
            "DESIGN.md 3/C15"),
    "C12": ("exploration", "vf-serde",
            "property-based testing (proptest) with constructor-accepted boundary members weighted, plus exhaustive enumeration of the ProofOptions space",
            "Generated-input search: round trip (value equal, no byte left, exactly the appended foreign bytes left) of 50 primitive/container types, 8 field element types, 5 digest types, FieldExtension, ProofOptions (whole constructor space enumerated), TraceInfo, Context, Commitments, Queries, OodFrame, FriProof (dummy, FriProver-built, decoded from laid-out encodings), Proof (new_dummy and assembled from parts) through SliceReader, Cursor and ReadAdapter over 6 chunking classes, with boundary members (vint64 boundaries, 254/255 widths, 0/255 random elements, 65535-byte metadata, 2^31 LDE, 255 queries/layers/node vectors).",
            "Proofs from a real prover run are covered by C01. Second-level decoding is asserted for query sets (Queries::parse with all six hashers over the elements' own field: nodes, hashed rows, values) and for prover-made FRI proofs (parse_layers, parse_remainder; two-point remainder domains included); OodFrame::parse is covered by C01/C04. get_size_hint is documented as an estimate and is not asserted.",
            "DESIGN.md 3/C12"),
    "C13": ("exploration", "vf-serde",
            "stateful / model-based property-based testing (proptest): operation sequences against SliceReader as the model",
            "Generated-input search over histories: 1..59-operation sequences over all 17 ByteReader operations x byte streams <= 2000 bytes x 6 source-chunking classes (1-byte, <16, random, around 255/256/257, around 511/512, one big chunk); ReadAdapter is compared step by step with SliceReader (Cursor must agree too): identical values, the same error variant at the same step, check_eor one-sided (adapter Err implies model Err), has_more_bytes, final drain (each byte consumed exactly once); two fifths of the sequences continue after a failed operation; plus requests near usize::MAX. A libFuzzer target (read_adapter, ASan) decodes bytes into the same cases and applies the same oracle.",
            "Zero-length source reads before EOF are not generated (Ok(0) means EOF by std::io::Read). The source never fails. The sanitizer tier is the libFuzzer stage only.",
            "DESIGN.md 3/C13"),
    "C14": ("exploration", "vf-conc",
            "differential property-based testing (proptest): the same generated workload executed by a build without and a build with the `concurrent` feature, over many rayon pool sizes and repetitions",
            "Generated-input search with sampled schedules: workload items on both sides of every concurrency threshold (FFT variants, power series, batch inversion, add_in_place, mul_acc, transpose_slice, Merkle trees, segmented RowMatrix LDE + row commitments for 1..255 columns, FRI apply_drp + hash_values, whole GenAir proofs with constraint-evaluation domains on both sides of 8192 rows, and of 8..32 rows under blowup 128 with a constraint of degree > 64) are computed by the serial build and by the concurrent build inside rayon pools of 1,2,3,4,5,7,8,12,16,24,32,48,64 threads, 2-3 repetitions each, and once under every other pool size 1..64 (whole proofs: five more sizes derived from the item; proofs of at most 32 rows: every size); digests of all deterministic outputs (for proofs: context, trace/constraint/FRI commitments, OOD frame; both proofs must verify) must be bit-identical; nonce and query data are exempt.",
            "Rayon's scheduler cannot be controlled: interleavings are sampled (pool sizes x repetitions), not enumerated; a divergence needing a rare interleaving can be missed. TSan is not used (crossbeam's fence-based synchronisation yields false reports).",
            "DESIGN.md 3/C14"),
    "C10": ("exploration", "vf-crypto",
            "property-based testing: enumerated and proptest-sampled openings against a naive materialised Merkle tree; mutation (fault) enumeration of openings",
            "Positive direction exhaustive (quick: 3 hashers at depth 1..4 and 3 at depth 1..3; thorough: all 6 at depth 1..4): every non-empty position subset, sorted and shuffled orders, distinct and all-equal leaves: prove/verify, prove_batch/verify_batch, get_root = naive root, into_paths = naive paths, from_paths(into_paths) = prove_batch. Depth 5..12 sampled with subset sizes 1..255 (adjacent runs, sibling pairs, all-left, one per subtree, uniform); trees whose every third leaf is the all-zero digest; openings of never-materialised trees of depth up to 63 (a real subtree below a chain of sibling digests: paths verify, from_paths / verify_batch / get_root / into_paths agree). Negative direction: fault enumeration of 25 batch and 14 single-path mutation kinds (leaf/node/position/depth values, dropped/added nodes, vectors and leaves, duplicate/out-of-range/huge positions, wrong depths incl. 0 and >= 64) at every place they apply, exhaustive for depth 1..3 (and depth 4 in thorough); Ok is accepted only when every claimed (position, leaf) is committed and the shape is unchanged; never a panic.",
            "The hash functions are black boxes here (C11). Two open known findings (internal nodes accepted as leaves of a shallower tree: depth is not bound into the root; design-level).",
            "DESIGN.md 3/C10"),
    "C11": ("exploration", "vf-crypto",
            "differential property-based testing against reference hashers (vf-ref); enumerated lengths and boundary limb assignments; algebraic laws",
            "Generated-input search against independent references: blake3/sha3 crates over canonical little-endian bytes; textbook Rescue Prime / Jive over integer residues with the published tables, validated at start-up against the published permutation vectors. Covered: every byte length 0..200 and around k*7*rate, random contents to 400 bytes, element lists of every length 0..40 and long lists up to 2100 elements (2^k-1, 2^k, 2^k+1; up to 16385 elements for the byte hashers) in base, quadratic and cubic typing with non-canonical internal images (must depend on residues only), merge = hash of concatenation, the Jive summation on its own (values, canonical internal values, == with the digest built from the residues), merge_with_int over 23 integer classes (injectivity), every two-class assignment of boundary limbs {0, 2^32-1, 2^32, p-1, ...} over all position masks for apply_round / apply_permutation, limbs solved to land an MDS product in the lazy-reduction window, determinism, hash(x) != hash(x||0), totality.",
            "RpJive64_256's padding of a partial last block (overwrites instead of adds) is pinned as observed because the documentation does not decide it. Rp62_248's permutation internals are private and covered through apply_round / hash_elements / merge only.",
            "DESIGN.md 3/C11"),
    "C19": ("exploration", "vf-crypto",
            "stateful property-based testing (model-based) against a reference coin built on the reference hashers, plus metamorphic history perturbation",
            "Generated-input search over histories of 1..30 operations (new / reseed / draw base, quadratic, cubic / draw_integers with count 1..255 below 2^1..2^32 / check_leading_zeros / the prover's grinding loop / requests documented to panic) on 12 hasher x field coins: two real coins (given representation vs canonical rebuild) and a reference coin are compared after every step (determinism, reference agreement, canonical serialisable elements, exactly count integers below the domain, proof-of-work measure), and up to four minimally different histories (seed element +1, reseed bit, nonce +-1, one extra draw) must change the next four base draws. Rejection sampling is additionally driven with chosen candidates through a scripted hasher (p, p+-1, 2p, top of the byte range, ... for base, quadratic and cubic draws): the first candidate with every coefficient below p must be returned, canonical, nothing after it consumed; check_leading_zeros on scripted digests with 0..64 trailing zero bits.",
            "The proof-of-work measure is modelled as implemented (trailing zeros of the first 8 bytes read little-endian), which differs from the wording of the doc comment. The extra-draw perturbation is asserted when the extra draw directly precedes the observed draws (rejection sampling can legitimately re-synchronise otherwise; counted as a label). FailedToDrawFieldElement accepted for cubic f62 only.",
            "DESIGN.md 3/C19"),
}

NOT_YET = {
}

def main():
    props = [json.loads(l) for l in open(os.path.join(ROOT, "properties.jsonl"))]
    checks = []
    for p in props:
        pid = p["id"]
        if pid not in CHECKS:
            continue
        cat, engine, technique, text, note, ref = CHECKS[pid]
        checks.append({
            "property_id": pid,
            "quick_cmd": f"./check {pid} quick",
            "thorough_cmd": f"./check {pid} thorough",
            "evidence_file": f"/verif/evidence/{pid}.json",
            "replay_cmd_template": "./check --replay {path}",
            "engine": engine,
            "level_claimed": {"category": cat, "text": text, "design_ref": ref},
            "level_note": note,
            "technique": technique,
        })
    na = []
    for p in props:
        pid = p["id"]
        if pid not in CHECKS:
            na.append({"property_id": pid, "reason": NOT_YET.get(pid, "check not built yet in this round (planned, see DESIGN.md section 3); property-based testing applies")})
    man = {
        "version": 1,
        "setup_cmd": "./setup.sh",
        "hooks": {
            "guard": "winterfell_verif",
            "enable": "none needed: every check drives /repo through its public API (path dependencies on /repo's working tree); the cfg name winterfell_verif is reserved (RUSTFLAGS=--cfg winterfell_verif) and unused",
            "baseline_off_cmd": "cd /repo && cargo test --workspace --no-fail-fast --offline",
            "source_commits": [],
            "add_only": True,
        },
        "engines": [
            {"name": "vf-core", "path": "harness/vf-core", "serves_properties": [c["property_id"] for c in checks],
             "kind_free_text": "seeded proptest runner (16 deterministic shards), case classification/distinct counting, shrinking with stable failure keys, replay files, known-findings matcher, watchdog with isolated re-run, evidence writer"},
            {"name": "vf-stark/GenAir", "path": "harness/vf-stark", "serves_properties": ["C01", "C02", "C03", "C04", "C06", "C17"],
             "kind_free_text": "run-time described family of computations (Air/Prover/Trace implementations driven by a Desc), by-construction trace builder, reference validity predicate, recording coin, proof dissector/mutator"},
            {"name": "vf-ref", "path": "harness/vf-ref", "serves_properties": [c["property_id"] for c in checks],
             "kind_free_text": "reference models independent of /repo: integer prime fields, extension fields modulo the documented irreducibles, schoolbook polynomials"},
        ],
        "checks": checks,
        "notes": "All checks: ./check <Cxx> <quick|thorough>; VERIF_SEED selects the PRNG stream (default 0). Exit 2 = inconclusive (never a violation). Known findings: /verif/known_findings.json.",
        "not_applicable": na,
    }
    json.dump(man, open(os.path.join(ROOT, "MANIFEST.json"), "w"), indent=1)
    print("wrote MANIFEST.json with", len(checks), "checks,", len(na), "not claimed")

if __name__ == "__main__":
    main()
