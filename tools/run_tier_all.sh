#!/bin/bash
# tools/run_tier_all.sh <quick|thorough> <seed> <props...> : runs the tier of each property in turn, one summary line each
T="$1"; S="$2"; shift 2
mkdir -p /verif/work/$T
for p in "$@"; do
  s=$(date +%s)
  VERIF_SEED=$S /verif/check $p $T > /verif/work/$T/$p-seed$S.log 2>&1; rc=$?
  e=$(date +%s)
  echo "$p tier=$T seed=$S exit=$rc secs=$((e-s)) :: $(grep -E '^(RESULT|VIOLATION|KNOWN-FINDING)' /verif/work/$T/$p-seed$S.log | tail -2 | tr '\n' ' ' | cut -c1-200)" | tee -a /verif/work/$T/summary.txt
done
