#!/bin/bash
# tools/iso_unchanged.sh <slot> <command...>
# Runs a command of /verif against a CLEAN scratch worktree of /repo's HEAD bind-mounted over /repo inside a
# private mount namespace (build slot /tmp/mut/iso-<slot>): lets unchanged-tree runs go on while seeded changes
# are being applied to /repo itself by try_mutant.sh.
set -u
SLOT="$1"; shift
ISO="/tmp/mut/iso-$SLOT"
mkdir -p "$ISO"
if [ ! -d "$ISO/repo" ]; then git -C /repo worktree add --detach "$ISO/repo" HEAD >/dev/null 2>&1 || exit 2; fi
( cd "$ISO/repo" && git checkout -q --detach "$(git -C /repo rev-parse HEAD)" && git checkout -q -- . && git clean -qfd ) || exit 2
unshare -m bash -c "mount --bind $ISO/repo /repo && cd /verif && CARGO_TARGET_DIR=$ISO/target $*"
