#!/usr/bin/env python3
"""tools/collect_regress.py [max_per_key]
Builds the committed replay tier /verif/regress/<Cxx>/ from the shrunk failing cases saved under
work/replay/ (defects since repaired in /repo, and seeded changes): for every (property, sub-check,
failure key) the smallest few cases are kept, each only if it PASSES on the current tree when replayed
(`<binary> --replay <file>`, exit 0). The engine replays them before generating anything, so a repaired
defect or a seeded change that returns is reported within seconds and by a stable input."""
import json, os, sys, glob, subprocess, hashlib, shutil, collections
ROOT = os.path.dirname(os.path.dirname(os.path.abspath(__file__)))
MAXK = int(sys.argv[1]) if len(sys.argv) > 1 else 3
BIN = {}
for ps, b in (("C07 C08 C09 C20", "vf-math"), ("C10 C11 C19", "vf-crypto"), ("C12 C13", "vf-serde"), ("C05 C15", "vf-fri"),
              ("C16 C18", "vf-air"), ("C01 C02 C03 C04 C06 C17", "vf-stark")):
    for p in ps.split():
        BIN[p] = b
groups = collections.defaultdict(list)
for f in glob.glob(f"{ROOT}/work/replay/*.case"):
    try:
        d = json.load(open(f))
    except Exception:
        continue
    prop, sub, key = d.get("property"), d.get("subcheck"), d.get("key", "")
    if prop not in BIN or key == "hang" or key.startswith("harness/"):
        continue
    groups[(prop, sub, key)].append((os.path.getsize(f), f))
kept = dropped = 0
env = dict(os.environ, VERIF_ROOT=ROOT)
for (prop, sub, key), files in sorted(groups.items()):
    files.sort()
    n = 0
    for size, f in files:
        if n >= MAXK or size > 200_000:
            break
        exe = f"{ROOT}/target/vf/{BIN[prop]}"
        try:
            r = subprocess.run([exe, "--replay", f], capture_output=True, text=True, timeout=300, env=env)
        except subprocess.TimeoutExpired:
            dropped += 1
            continue
        if r.returncode != 0 or "VIOLATION" in r.stdout:
            dropped += 1
            print("not kept (does not pass on the current tree):", os.path.basename(f), key[:80])
            continue
        h = hashlib.sha1(f"{sub}/{key}".encode()).hexdigest()[:10]
        dst = f"{ROOT}/regress/{prop}"
        os.makedirs(dst, exist_ok=True)
        shutil.copy(f, f"{dst}/{sub.replace('/', '_')}-{h}-{n}.case")
        n += 1
        kept += 1
print("kept", kept, "dropped", dropped, "groups", len(groups))
