#!/bin/bash
# tools/try_mutant_iso.sh <Cxx> <X> <property> [more properties...]
# Like try_mutant.sh, but leaves /repo alone: the seeded change is applied to a scratch worktree of /repo,
# which is bind-mounted over /repo inside a private mount namespace (unshare -m) for the duration of the
# checks. Used while long runs against the real /repo are in progress; results recorded in seeded/*/meta.json
# come from try_mutant.sh.   VF=<verif tree to run> (default: the tree this script lives in)
set -u
P="$1"; X="$2"; shift 2
HERE="$(cd "$(dirname "$0")/.." && pwd)"; VF="${VF:-$HERE}"
PATCH="/tmp/mut/$P-out/$X.patch"; [ -f "$PATCH" ] || PATCH="/verif/seeded/$P-$X/patch.diff"
ISO="${ISO:-/tmp/mut/iso}"   # ISO=<dir> selects another slot, so several trials can run side by side
mkdir -p "$ISO"
if [ ! -d "$ISO/repo" ]; then git -C /repo worktree add --detach "$ISO/repo" HEAD >/dev/null 2>&1 || exit 2; fi
( cd "$ISO/repo" && git checkout -q -- . && git clean -qfd && git apply "$PATCH" ) || { echo "patch does not apply"; exit 2; }
mkdir -p "$VF/work/mutants"
for PROP in "$@"; do
  T0=$(date +%s)
  unshare -m bash -c "mount --bind $ISO/repo /repo && cd $VF && CARGO_TARGET_DIR=$ISO/target ./check $PROP quick" > "$VF/work/mutants/iso-$P-$X-$PROP.log" 2>&1; RC=$?
  T1=$(date +%s)
  FIRST=$(grep -m1 "^FAILURE" "$VF/work/mutants/iso-$P-$X-$PROP.log" | cut -c1-220)
  echo "$P-$X (isolated) check=$PROP exit=$RC secs=$((T1-T0)) :: $FIRST"
done
( cd "$ISO/repo" && git checkout -q -- . && git clean -qfd )
