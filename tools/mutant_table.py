#!/usr/bin/env python3
"""Prints the markdown table of seeded changes (from /verif/seeded/*/meta.json) for DESIGN.md section 7."""
import json, glob, re
rows = []
for f in sorted(glob.glob('/verif/seeded/*/meta.json')):
    m = json.load(open(f))
    desc = open(f.replace('meta.json', 'description.md')).read()
    # first heading or first sentence as summary
    patch = open(f.replace('meta.json', 'patch.diff')).read()
    files = sorted(set(re.findall(r'^\+\+\+ b/(\S+)', patch, re.M)))
    det = ', '.join(m['detected_by']) if m['detected_by'] else '**missed**'
    first = {}
    for k, v in m.get('check_results', {}).items():
        if v.get('first_failure'):
            mm = re.search(r'subcheck=(\S+) key=(.+?) ::', v['first_failure'])
            if mm:
                first[k] = f"{mm.group(1)}: {mm.group(2)[:70]}"
    sig = '; '.join(f"{k} → `{v}`" for k, v in sorted(first.items()))
    rows.append((m['id'], ', '.join(files), det, sig, m.get('note', '')))
print("| id | file(s) changed | reported by | first failure key(s) | note |")
print("|----|-----------------|-------------|----------------------|------|")
for r in rows:
    print("| " + " | ".join(x.replace('|', '/').replace('\n', ' ') for x in r) + " |")
