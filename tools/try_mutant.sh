#!/bin/bash
# tools/try_mutant.sh <Cxx> <A|B> <property> [more properties...]
# Applies the seeded change /tmp/mut/<Cxx>-out/<X>.patch (or /verif/seeded/<Cxx>-<X>/patch.diff) to /repo,
# runs the quick checks of the listed properties, and ALWAYS restores /repo afterwards.
set -u
P="$1"; X="$2"; shift 2
PATCH="/tmp/mut/$P-out/$X.patch"; [ -f "$PATCH" ] || PATCH="/verif/seeded/$P-$X/patch.diff"
cd /verif
if [ -n "$(git -C /repo status --porcelain)" ]; then echo "/repo is not clean"; exit 2; fi
git -C /repo apply "$PATCH" || { echo "patch does not apply"; exit 2; }
trap 'git -C /repo checkout -- . ; git -C /repo clean -qfd' EXIT
mkdir -p work/mutants
for PROP in "$@"; do
  T0=$(date +%s)
  ./check "$PROP" quick > "work/mutants/$P-$X-$PROP.log" 2>&1; RC=$?
  T1=$(date +%s)
  FIRST=$(grep -m1 "^FAILURE" "work/mutants/$P-$X-$PROP.log" | cut -c1-220)
  echo "$P-$X check=$PROP exit=$RC secs=$((T1-T0)) :: $FIRST"
done
