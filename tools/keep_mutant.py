#!/usr/bin/env python3
"""tools/keep_mutant.py <Cxx> <A|B> <detected-by (comma list of checks, or 'none')> [note]
Copies a confirmed seeded change from /tmp/mut/<Cxx>-out/ into /verif/seeded/<Cxx>-<X>/ with meta.json."""
import sys, os, shutil, json, re, glob
P, X, det = sys.argv[1], sys.argv[2], sys.argv[3]
note = sys.argv[4] if len(sys.argv) > 4 else ""
src = f"/tmp/mut/{P}-out"
dst = f"/verif/seeded/{P}-{X}"
os.makedirs(dst, exist_ok=True)
shutil.copy(f"{src}/{X}.patch", f"{dst}/patch.diff")
demo = f"{src}/{X}-demo.rs"
if os.path.isdir(f"{src}/{X}-demo"):
    shutil.copytree(f"{src}/{X}-demo", f"{dst}/demo", dirs_exist_ok=True)
else:
    shutil.copy(demo, f"{dst}/demo.rs")
shutil.copy(f"{src}/{X}.md", f"{dst}/description.md")
confirm = open(f"{src}/{X}.confirm").read().strip().splitlines() if os.path.exists(f"{src}/{X}.confirm") else []
logs = {}
for f in glob.glob(f"/verif/work/mutants/{P}-{X}-*.log"):
    prop = re.search(rf"{P}-{X}-(C\d+)\.log", f).group(1)
    txt = open(f).read()
    m = re.search(r"^FAILURE.*$", txt, re.M)
    logs[prop] = {"violation_reported": "VIOLATION property=" in txt, "first_failure": (m.group(0)[:300] if m else None)}
md = open(f"{src}/{X}.md").read()
meta = {
    "id": f"{P}-{X}",
    "breaks_property": P,
    "produced_by": "independent sub-agent given only the property text and a scratch worktree (no access to /verif)",
    "needs_to_manifest": md.strip().split("\n\n")[0][:1200],
    "confirmed_in_scratch_worktree": confirm,
    "what_was_run": [
        f"tools/confirm_mutant.sh {P} {X}  (scratch worktree /tmp/mut/{P}: full `cargo test --workspace --offline` with the change, demo with and without the change)",
        f"tools/try_mutant.sh {P} {X} <checks>  (git -C /repo apply patch.diff; ./check <Cxx> quick; git -C /repo checkout -- .)",
    ],
    "detected_by": [] if det == "none" else det.split(","),
    "check_results": logs,
    "note": note,
}
json.dump(meta, open(f"{dst}/meta.json", "w"), indent=1)
print("kept", dst, "detected_by", meta["detected_by"])
