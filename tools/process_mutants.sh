#!/bin/bash
# tools/process_mutants.sh <slot> <Cxx> [<Cxx>...]
# For each property: confirms the seeded changes G and H found in /tmp/mut/<Cxx>-out (scratch worktree
# /tmp/mut/<Cxx>, build slot /tmp/mut/target-<slot>) and gives each a first trial against the quick tier of
# the targeted check without touching /repo (try_mutant_iso.sh, slot /tmp/mut/iso-<slot>).
# LETTERS="G H" by default. One summary line per step goes to /tmp/mut/process-<slot>.log
SLOT="$1"; shift
LETTERS="${LETTERS:-G H}"
HERE="$(cd "$(dirname "$0")/.." && pwd)"
for P in "$@"; do
  for X in $LETTERS; do
    [ -f "/tmp/mut/$P-out/$X.patch" ] || { echo "$P-$X: no patch" | tee -a /tmp/mut/process-$SLOT.log; continue; }
    MUT_TARGET=/tmp/mut/target-$SLOT "$HERE/tools/confirm_mutant.sh" "$P" "$X" > /tmp/mut/$P-out/$X.confirm.out 2>&1
    echo "$P-$X confirm: $(tr '\n' ';' < /tmp/mut/$P-out/$X.confirm | cut -c1-300)" | tee -a /tmp/mut/process-$SLOT.log
    ISO=/tmp/mut/iso-$SLOT "$HERE/tools/try_mutant_iso.sh" "$P" "$X" "$P" 2>&1 | tee -a /tmp/mut/process-$SLOT.log
  done
done
