//! libFuzzer target for C06: byte 0 selects one of the fixed verifier instantiations, the rest is
//! parsed as a proof and verified. The oracle is inside the target (vf_stark::c06::hostile: panic
//! capture, allocation proportion); failures whose key is an *open* known finding are tolerated so
//! that campaigns continue past them; everything else aborts, which libFuzzer records as a crash.
#![no_main]

use libfuzzer_sys::fuzz_target;
use std::sync::OnceLock;

fn known() -> &'static Vec<String> {
    static K: OnceLock<Vec<String>> = OnceLock::new();
    K.get_or_init(|| {
        let root = std::env::var("VERIF_ROOT").unwrap_or_else(|_| "/verif".into());
        let strict = std::env::var("VF_FUZZ_STRICT").is_ok();
        if strict {
            return vec![];
        }
        std::fs::read_to_string(format!("{root}/known_findings.json"))
            .ok()
            .and_then(|t| serde_json_lite(&t))
            .unwrap_or_default()
    })
}

/// minimal extraction of the "key" strings of open C06 findings (avoids a serde dependency here)
fn serde_json_lite(t: &str) -> Option<Vec<String>> {
    let mut out = vec![];
    for part in t.split("\"property\"").skip(1) {
        if !part.contains("\"C06\"") || !part.contains("\"open\"") {
            continue;
        }
        if let Some(i) = part.find("\"key\"") {
            let rest = &part[i + 5..];
            let a = rest.find('"')? + 1;
            let b = a + rest[a..].find('"')?;
            out.push(rest[a..b].to_string());
        }
    }
    Some(out)
}

fuzz_target!(|data: &[u8]| {
    if let Err(f) = vf_stark::fuzzcfg::fuzz_one(data) {
        let full = format!("fuzz/{}", f.key);
        if known().iter().any(|k| vf_core::key_matches(k, &full)) {
            return;
        }
        eprintln!("C06 VIOLATION key={} :: {}", f.key, f.msg);
        std::process::abort();
    }
});
