//! libFuzzer target for C13: the input is decoded into (chunking of the source, operation sequence,
//! byte stream); ReadAdapter over the chunked source is compared step by step with SliceReader and
//! Cursor (vf_serde::c13). ASan makes out-of-bounds reads inside the adapter's unsafe copies visible.
#![no_main]

use libfuzzer_sys::fuzz_target;

fuzz_target!(|data: &[u8]| {
    if let Err(f) = vf_serde::fuzz_read_adapter(data) {
        eprintln!("C13 VIOLATION key={} :: {}", f.key, f.msg);
        std::process::abort();
    }
});
