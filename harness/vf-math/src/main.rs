mod c07;
mod c08;
mod c09;
mod c20;

fn main() {
    let args = vf_core::parse_args();
    let level = "exploration";
    let mut run = vf_core::Run::new(&args, level);
    match args.property.as_str() {
        "C07" => c07::run(&mut run),
        "C08" => c08::run(&mut run),
        "C09" => c09::run(&mut run),
        "C20" => c20::run(&mut run),
        other => {
            eprintln!("vf-math does not serve {other}");
            std::process::exit(2);
        },
    }
    run.finish_and_exit();
}
