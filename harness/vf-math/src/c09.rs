//! C09 — FFT, interpolation and LDE equal direct polynomial evaluation.
//!
//! Oracle: Horner evaluation over integer residues at offset * w^i, with w derived by the reference
//! from the published two-adic root (whose defining equations C07 checks); bit-reversal written
//! independently. Full comparison for domains up to 256 points, generated sample positions above.

use std::marker::PhantomData;

use proptest::prelude::*;
use serde::{Deserialize, Serialize};
use vf_core::{catch, ensure, pick_index, CheckResult, Obs, Run, SubCheck, Tier};
use vf_ref::poly as rp;
use vf_repo::prelude::*;
use winter_math::{fft, FieldElement, StarkField};
use winter_prover::matrix::{ColMatrix, RowMatrix};
use winter_prover::StarkDomain;

use crate::c07::{model_of, Extra};
use crate::c20::{build, build_vec, elem_strategy, from_els, to_els, ES};

fn bitrev(i: usize, bits: u32) -> usize {
    let mut r = 0usize;
    for b in 0..bits {
        if (i >> b) & 1 == 1 {
            r |= 1 << (bits - 1 - b);
        }
    }
    r
}

/// reference root of unity of order 2^log_n, derived from the published two-adic root
fn ref_root<B: FA>(log_n: u32) -> u128 {
    let fp = B::FP;
    fp.pow(B::TWO_ADIC_ROOT_OF_UNITY.to_u128(), 1u128 << (fp.two_adicity - log_n))
}

#[derive(Serialize, Deserialize, Clone, Debug)]
pub struct PolySpec {
    pub seeds: Vec<ES>,
    /// 0,1: dense ; 2: sparse ; 3: zero polynomial ; 4,5: exact degree given by `deg_sel`
    pub style: u8,
    pub deg_sel: u16,
}

/// expands a spec into n coefficients (repo elements + model), deterministic
fn expand<E: FieldElement>(spec: &PolySpec, n: usize) -> (Vec<E>, Vec<El>, usize)
where
    E::BaseField: Extra,
{
    let f = ref_field::<E>();
    let (seeds, mseeds) = build_vec::<E>(&spec.seeds);
    let m = seeds.len();
    let mut p = Vec::with_capacity(n);
    let mut mp = Vec::with_capacity(n);
    let exact_deg = pick_index(spec.deg_sel, n);
    for i in 0..n {
        let k = (i / m + 1) as u32;
        let (mut v, mut mv) = (seeds[i % m] * E::from(k), f.mul_base(&mseeds[i % m], k as u128));
        let zero = match spec.style {
            2 => i % 7 != 3 && i != 0,
            3 => true,
            4 | 5 => i > exact_deg,
            _ => false,
        };
        if zero {
            v = E::ZERO;
            mv = f.zero();
        }
        if (spec.style == 4 || spec.style == 5) && i == exact_deg && f.is_zero(&mv) {
            v = E::ONE;
            mv = f.one();
        }
        p.push(v);
        mp.push(mv);
    }
    let deg = rp::degree(&f, &mp);
    (p, mp, deg)
}

fn poly_spec_strategy<B: Extra>(d: usize) -> BoxedStrategy<PolySpec> {
    (prop::collection::vec(elem_strategy::<B>(d), 1..=16), 0u8..6, any::<u16>())
        .prop_map(|(seeds, style, deg_sel)| PolySpec { seeds, style, deg_sel })
        .boxed()
}

fn offset_strategy<B: Extra>() -> BoxedStrategy<Src> {
    prop_oneof![
        1 => Just(Src::Res(vf_core::X(1))),
        1 => Just(Src::Res(vf_core::X(B::FP.generator))),
        2 => src_strategy::<B>(),
    ]
    .boxed()
}

// FFT FUNCTIONS
// ================================================================================================

#[derive(Serialize, Deserialize, Clone, Debug)]
pub struct FftCase {
    pub log_n: u32,
    pub poly: PolySpec,
    pub offset: Src,
    pub log_blowup: u32,
    pub positions: Vec<u16>,
}

pub struct Fft<E>(PhantomData<E>, &'static str);
impl<E> Fft<E> {
    pub fn new(n: &'static str) -> Self {
        Fft(PhantomData, n)
    }
}

fn positions_for(n: usize, sel: &[u16]) -> Vec<usize> {
    if n <= 256 {
        (0..n).collect()
    } else {
        let mut v: Vec<usize> = sel.iter().map(|s| pick_index(*s, n)).collect();
        v.extend([0, 1, n / 2 - 1, n / 2, n - 1]);
        v.sort();
        v.dedup();
        v
    }
}

impl<E: FieldElement> SubCheck for Fft<E>
where
    E::BaseField: Extra,
{
    type Case = FftCase;
    fn name(&self) -> String {
        format!("fft/{}", self.1)
    }
    fn cases(&self, tier: Tier) -> u64 {
        tier.pick(3_000, 14_000)
    }
    fn rule(&self) -> String {
        "polynomial sizes 2^1..2^12 (quick) / 2^14 (thorough) covering the recursion-strategy switch, coefficients expanded from 1..16 generated seed elements (dense / sparse / zero / exact degree), offset in {1, generator, random non-zero}, blowup 1..128 (LDE domain capped at 2^16 / 2^17); evaluate_poly, serial_fft, evaluate_poly_with_offset, interpolate_poly(_with_offset), get_twiddles, get_inv_twiddles, infer_degree, permute_index, FftInputs::fft_in_place_raw on a flat row-major matrix of 1..9 columns for every count <= stride and offset (n <= 1024; transformed columns vs Horner, the other columns untouched) vs Horner at offset*w^i (all points up to 256, generated sample positions above); non-trivial = non-constant polynomial".into()
    }
    fn required_labels(&self, _t: Tier) -> Vec<String> {
        vec!["offset=1".into(), "offset=generator".into(), "offset=other".into(), "blowup=1".into(), "blowup>1".into(), "poly=zero".into(), "raw:count<stride".into(), "raw:count=stride".into()]
    }
    fn strategy(&self, tier: Tier) -> BoxedStrategy<FftCase> {
        let d = E::EXTENSION_DEGREE;
        let max_log = tier.pick(12u32, 14u32);
        (
            prop_oneof![3 => 1u32..=8, 2 => 9u32..=max_log],
            poly_spec_strategy::<E::BaseField>(d),
            offset_strategy::<E::BaseField>(),
            0u32..=7,
            prop::collection::vec(any::<u16>(), 12),
        )
            .prop_map(|(log_n, poly, offset, log_blowup, positions)| FftCase { log_n, poly, offset, log_blowup, positions })
            .boxed()
    }
    fn check(&self, c: &FftCase, obs: &mut Obs) -> CheckResult {
        type B<E> = <E as FieldElement>::BaseField;
        let f = ref_field::<E>();
        let fp = f.fp;
        let n = 1usize << c.log_n;
        let (p, mp, deg) = expand::<E>(&c.poly, n);
        obs.nontrivial_if(deg >= 1);
        obs.label(format!("log_n={}", c.log_n));
        if rp::is_zero(&f, &mp) {
            obs.label("poly=zero");
        }
        let mut moff = model_of::<B<E>>(&c.offset);
        let mut off: B<E> = realise(&c.offset);
        if moff == 0 {
            moff = 1;
            off = B::<E>::ONE;
        }
        obs.label(if moff == 1 { "offset=1" } else if moff == fp.generator { "offset=generator" } else { "offset=other" });
        let w = ref_root::<B<E>>(c.log_n);

        // twiddles: w^bitrev(i) over n/2 entries
        let tw = fft::get_twiddles::<B<E>>(n);
        let itw = fft::get_inv_twiddles::<B<E>>(n);
        ensure!(tw.len() == n / 2 && itw.len() == n / 2, "twiddles/len", "documented length n/2");
        let winv = fp.inv(w);
        for i in positions_for(n / 2, &c.positions) {
            let e = bitrev(i, c.log_n - 1) as u128;
            ensure!(tw[i].to_u128() == fp.pow(w, e), "twiddles/value", "get_twiddles({n})[{i}] != w^bitrev({i})");
            ensure!(itw[i].to_u128() == fp.pow(winv, e), "inv_twiddles/value", "get_inv_twiddles({n})[{i}] != w^-bitrev({i})");
        }
        for i in positions_for(n, &c.positions) {
            ensure!(fft::permute_index(n, i) == bitrev(i, c.log_n), "permute_index", "permute_index({n}, {i})");
        }

        // evaluate_poly / serial_fft : natural order evaluations over the subgroup
        let pos = positions_for(n, &c.positions);
        let mut ev = p.clone();
        fft::evaluate_poly(&mut ev, &tw);
        let mut ev2 = p.clone();
        fft::serial_fft(&mut ev2, &tw);
        for &i in &pos {
            let x = f.from_base(fp.pow(w, i as u128));
            let want = rp::eval(&f, &mp, &x);
            obs.comparisons += 2;
            ensure!(to_el(&ev[i]) == want, "evaluate_poly/value", "evaluate_poly (n = {n}) at index {i} differs from direct evaluation at w^{i}");
            ensure!(to_el(&ev2[i]) == want, "serial_fft/value", "serial_fft (n = {n}) at index {i} differs from direct evaluation");
        }
        ensure!(ev == ev2, "serial_fft/agrees", "serial_fft and evaluate_poly disagree");
        // interpolation inverts evaluation and returns the unique coefficients
        let mut back = ev.clone();
        fft::interpolate_poly(&mut back, &itw);
        ensure!(to_els(&back) == mp, "interpolate_poly/value", "interpolate_poly (n = {n}) does not return the coefficients");
        if n <= 64 {
            // interpolate values produced by the model alone
            let mvals = rp::eval_domain(&f, &mp, w, 1, n);
            let mut vals: Vec<E> = from_els(&mvals);
            fft::interpolate_poly(&mut vals, &itw);
            ensure!(to_els(&vals) == mp, "interpolate_poly/model-values", "interpolating model evaluations does not give the coefficients");
            let mvals_off = rp::eval_domain(&f, &mp, w, moff, n);
            let mut vals: Vec<E> = from_els(&mvals_off);
            fft::interpolate_poly_with_offset(&mut vals, &itw, off);
            ensure!(to_els(&vals) == mp, "interpolate_poly_with_offset/model-values", "interpolating shifted model evaluations does not give the coefficients");
        }

        // the strided entry point FftInputs::fft_in_place_raw(twiddles, count, stride, offset): `count` interleaved
        // transforms of the columns offset..offset+count of a row-major n x stride matrix held in one flat slice
        // (output in permuted order, as fft_in_place); count == stride is what the library itself uses, the trait
        // method is public for every count <= stride. The other columns must come back untouched.
        if n >= 2 && n <= 1024 {
            use winter_math::fft::fft_inputs::FftInputs;
            let stride = 1 + pick_index(c.positions[1], 9);
            let count = 1 + pick_index(c.positions[2], stride);
            let offset = pick_index(c.positions[3], stride - count + 1);
            obs.label(if count == stride { "raw:count=stride" } else { "raw:count<stride" });
            let flat: Vec<E> = (0..n * stride).map(|k| p[k / stride] * E::from((k % stride + 1) as u32)).collect();
            let mut got = flat.clone();
            catch(|| <[E] as FftInputs<E>>::fft_in_place_raw(&mut got[..], &tw, count, stride, offset))
                .map_err(|p| vf_core::Fail::new(format!("fft_in_place_raw/{}", p.key()), format!("fft_in_place_raw(count {count}, stride {stride}, offset {offset}) on {n} rows panicked: {}", p.msg)))?;
            for &i in &pos {
                let x = f.from_base(fp.pow(w, i as u128));
                let base = rp::eval(&f, &mp, &x);
                let row = bitrev(i, c.log_n);
                for col in 0..stride {
                    obs.comparisons += 1;
                    if col >= offset && col < offset + count {
                        ensure!(
                            to_el(&got[row * stride + col]) == f.mul_base(&base, (col + 1) as u128),
                            "fft_in_place_raw/value",
                            "fft_in_place_raw(count {count}, stride {stride}, offset {offset}) on {n} rows: column {col} at permuted row {row} differs from direct evaluation at w^{i}"
                        );
                    } else {
                        ensure!(
                            got[row * stride + col] == flat[row * stride + col],
                            "fft_in_place_raw/other-column-modified",
                            "fft_in_place_raw(count {count}, stride {stride}, offset {offset}) on {n} rows modified column {col}, which is outside offset..offset+count"
                        );
                    }
                }
            }
        }

        // evaluate_poly_with_offset over the blown-up shifted domain
        let max_lde_log = if n <= 4096 { 16 } else { 17 };
        let lb = c.log_blowup.min(max_lde_log - c.log_n).min(fp.two_adicity - c.log_n);
        let blowup = 1usize << lb;
        obs.label(if blowup == 1 { "blowup=1" } else { "blowup>1" });
        let big = n * blowup;
        let wbig = ref_root::<B<E>>(c.log_n + lb);
        let lde = fft::evaluate_poly_with_offset(&p, &tw, off, blowup);
        ensure!(lde.len() == big, "evaluate_poly_with_offset/len", "documented length n * blowup");
        for i in positions_for(big, &c.positions) {
            let x = f.from_base(fp.mul(moff, fp.pow(wbig, i as u128)));
            obs.comparisons += 1;
            ensure!(
                to_el(&lde[i]) == rp::eval(&f, &mp, &x),
                "evaluate_poly_with_offset/value",
                "evaluate_poly_with_offset (n = {n}, blowup = {blowup}) at index {i} differs from direct evaluation at offset*w^{i}"
            );
        }
        if blowup == 1 {
            let mut b2 = lde.clone();
            fft::interpolate_poly_with_offset(&mut b2, &itw, off);
            ensure!(to_els(&b2) == mp, "interpolate_poly_with_offset/value", "interpolate_poly_with_offset does not invert evaluate_poly_with_offset");
        }
        // degree inference over the LDE domain
        if big <= 1 << 14 {
            let got = fft::infer_degree(&lde, off);
            ensure!(got == deg, "infer_degree", "infer_degree = {got}, true degree {deg} (n = {n}, blowup = {blowup})");
        }
        // documented panics (one probe per case)
        match c.positions[0] % 4 {
            0 => ensure!(catch(|| fft::evaluate_poly_with_offset(&p, &tw, B::<E>::ZERO, blowup)).is_err(), "doc-panic/zero-offset", "zero offset accepted"),
            1 if n >= 4 => {
                ensure!(catch(|| fft::evaluate_poly(&mut p.clone(), &tw[..n / 2 - 1])).is_err(), "doc-panic/twiddles-len", "wrong twiddle count accepted")
            },
            2 if n >= 4 => ensure!(catch(|| fft::evaluate_poly(&mut p[..n - 1].to_vec(), &tw)).is_err(), "doc-panic/not-pow2", "non power of two accepted"),
            _ => {},
        }
        Ok(())
    }
}

// COLUMN-BATCHED, SEGMENTED VARIANTS
// ================================================================================================

#[derive(Serialize, Deserialize, Clone, Debug)]
pub struct MatCase {
    pub log_rows: u32,
    pub cols_sel: u16,
    pub col_specs: Vec<PolySpec>,
    pub offset: Src,
    pub log_blowup: u32,
    pub seg: u8,
    pub positions: Vec<u16>,
    pub x: ES,
}

pub struct Mat<E>(PhantomData<E>, &'static str);
impl<E> Mat<E> {
    pub fn new(n: &'static str) -> Self {
        Mat(PhantomData, n)
    }
}

const COLS: [usize; 16] = [1, 2, 3, 7, 8, 9, 15, 16, 17, 31, 33, 64, 100, 127, 254, 255];

/// one segment built directly (public constructor) from an arbitrary base-column offset
fn direct_segment<E: FieldElement, const N: usize>(polys: &ColMatrix<E>, poly_offset: usize, offsets: &[E::BaseField], twiddles: &[E::BaseField]) -> Result<Vec<Vec<E::BaseField>>, vf_core::PanicSig> {
    catch(|| winter_prover::matrix::Segment::<E::BaseField, N>::new(polys, poly_offset, offsets, twiddles).into_data().into_iter().map(|r| r.to_vec()).collect())
}

fn eval_rows<E: FieldElement, const N: usize>(polys: &ColMatrix<E>, domain: &StarkDomain<E::BaseField>, over: bool, blowup: usize) -> RowMatrix<E> {
    if over {
        RowMatrix::evaluate_polys_over::<N>(polys, domain)
    } else {
        RowMatrix::evaluate_polys::<N>(polys, blowup)
    }
}

impl<E: FieldElement> SubCheck for Mat<E>
where
    E::BaseField: Extra,
{
    type Case = MatCase;
    fn name(&self) -> String {
        format!("matrix/{}", self.1)
    }
    fn cases(&self, tier: Tier) -> u64 {
        tier.pick(1_200, 10_000)
    }
    fn rule(&self) -> String {
        "matrices of {1,2,3,7,8,9,15,16,17,31,33,64,100,127,254,255} columns x 2^3..2^8 (quick) / 2^11 (thorough) rows, per-column polynomials expanded from generated seeds, blowup 2..16, segment width N in {1,2,4,8,16} (column counts that are and are not multiples of N), StarkDomain::from_twiddles with offset {1, generator, random} and StarkDomain::new(&air) (accessors, get_ce_x_at, get_ce_x_power_at = (offset*g^step)^power at steps of both halves of the domain); ColMatrix::interpolate_columns / evaluate_columns_over / evaluate_columns_at and RowMatrix::evaluate_polys / evaluate_polys_over and a single Segment::<N>::new at an arbitrary base-column offset vs Horner at generated (row, column) sample positions; non-trivial = more than one column and column count not a multiple of N, or an extension field".into()
    }
    fn required_labels(&self, _t: Tier) -> Vec<String> {
        vec!["cols%N!=0".into(), "cols%N==0".into(), "N=1".into(), "N=16".into(), "air-domain:ce<lde".into()]
    }
    fn strategy(&self, tier: Tier) -> BoxedStrategy<MatCase> {
        let d = E::EXTENSION_DEGREE;
        let max_log = tier.pick(8u32, 11u32);
        (
            3u32..=max_log,
            any::<u16>(),
            prop::collection::vec(poly_spec_strategy::<E::BaseField>(d), 1..=4),
            offset_strategy::<E::BaseField>(),
            1u32..=4,
            0u8..5,
            prop::collection::vec(any::<u16>(), 24),
            elem_strategy::<E::BaseField>(d),
        )
            .prop_map(|(log_rows, cols_sel, col_specs, offset, log_blowup, seg, positions, x)| MatCase {
                log_rows,
                cols_sel,
                col_specs,
                offset,
                log_blowup,
                seg,
                positions,
                x,
            })
            .boxed()
    }
    fn check(&self, c: &MatCase, obs: &mut Obs) -> CheckResult {
        type B<E> = <E as FieldElement>::BaseField;
        let f = ref_field::<E>();
        let fp = f.fp;
        let n = 1usize << c.log_rows;
        let cols = COLS[pick_index(c.cols_sel, COLS.len())];
        let nseg = [1usize, 2, 4, 8, 16][c.seg as usize];
        let base_cols = cols * f.deg;
        obs.label(if base_cols % nseg == 0 { "cols%N==0" } else { "cols%N!=0" });
        obs.label(format!("N={nseg}"));
        obs.nontrivial_if((cols > 1 && base_cols % nseg != 0) || f.deg > 1);
        // column j = spec[j % k] scaled by (j+1)
        let specs: Vec<(Vec<E>, Vec<El>)> = c.col_specs.iter().map(|s| {
            let (p, mp, _) = expand::<E>(s, n);
            (p, mp)
        }).collect();
        let scale = |j: usize| (j / specs.len() + 1) as u32;
        let columns: Vec<Vec<E>> = (0..cols)
            .map(|j| specs[j % specs.len()].0.iter().map(|v| *v * E::from(scale(j))).collect())
            .collect();
        let mcol = |j: usize| -> Vec<El> { specs[j % specs.len()].1.iter().map(|v| f.mul_base(v, scale(j) as u128)).collect() };
        let polys = ColMatrix::new(columns);
        let mut moff = model_of::<B<E>>(&c.offset);
        let mut off: B<E> = realise(&c.offset);
        if moff == 0 {
            moff = fp.generator;
            off = B::<E>::GENERATOR;
        }
        let blowup = 1usize << c.log_blowup;
        let big = n * blowup;
        let wbig = ref_root::<B<E>>(c.log_rows + c.log_blowup);
        let tw = fft::get_twiddles::<B<E>>(n);
        let domain = StarkDomain::from_twiddles(tw, blowup, off);
        ensure!(domain.trace_length() == n && domain.lde_domain_size() == big && domain.trace_to_lde_blowup() == blowup && domain.offset() == off, "domain/accessors", "StarkDomain accessors");
        ensure!(domain.ce_domain_size() == big && domain.ce_domain_generator().to_u128() == wbig, "domain/ce", "constraint evaluation domain accessors");
        let step = pick_index(c.positions[0], big);
        ensure!(domain.get_ce_x_at(step).to_u128() == fp.mul(moff, fp.pow(wbig, step as u128)), "domain/get_ce_x_at", "get_ce_x_at({step})");
        // documented: get_ce_x_power_at(step, power, s^power) = (s * g^step)^power, at steps of both halves of the domain
        for (k, power) in [1u64, 2, n as u64, (n / 2) as u64, big as u64 - 1, 1 + c.positions[2] as u64].into_iter().enumerate() {
            let st = match k % 3 {
                0 => step,
                1 => big - 1 - pick_index(c.positions[3], big / 2),
                _ => pick_index(c.positions[4], big / 2),
            };
            let x = fp.mul(moff, fp.pow(wbig, st as u128));
            let got = domain.get_ce_x_power_at(st, power, off.exp((power as u32).into()));
            ensure!(got.to_u128() == fp.pow(x, power as u128), "domain/get_ce_x_power_at", "from_twiddles domain of {big} points: get_ce_x_power_at({st}, {power}, offset^{power}) is not (offset * g^{st})^{power}");
        }

        // RowMatrix over the domain (offset = domain offset) and over the default domain (offset = GENERATOR)
        for over in [true, false] {
            let o = if over { moff } else { fp.generator };
            let rm: RowMatrix<E> = match nseg {
                1 => eval_rows::<E, 1>(&polys, &domain, over, blowup),
                2 => eval_rows::<E, 2>(&polys, &domain, over, blowup),
                4 => eval_rows::<E, 4>(&polys, &domain, over, blowup),
                8 => eval_rows::<E, 8>(&polys, &domain, over, blowup),
                _ => eval_rows::<E, 16>(&polys, &domain, over, blowup),
            };
            let what = if over { "evaluate_polys_over" } else { "evaluate_polys" };
            ensure!(rm.num_rows() == big && rm.num_cols() == cols, format!("{what}/shape"), "{what}: shape {}x{} expected {big}x{cols}", rm.num_rows(), rm.num_cols());
            for k in 0..12 {
                let r = match k {
                    0 => 0,
                    1 => big - 1,
                    _ => pick_index(c.positions[k], big),
                };
                let j = match k {
                    0 => cols - 1,
                    1 => 0,
                    _ => pick_index(c.positions[12 + k], cols),
                };
                let x = f.from_base(fp.mul(o, fp.pow(wbig, r as u128)));
                obs.comparisons += 1;
                ensure!(
                    to_el(&rm.get(j, r)) == rp::eval(&f, &mcol(j), &x),
                    format!("{what}/value"),
                    "{what}::<{nseg}> ({cols} columns, {n} rows, blowup {blowup}): entry (row {r}, column {j}) differs from direct evaluation"
                );
                ensure!(rm.row(r).len() == cols && rm.row(r)[j] == rm.get(j, r), format!("{what}/row"), "row() and get() disagree");
            }
        }
        // a single segment built by its public constructor at ANY base-column offset (build_segments only uses
        // multiples of N): slot j holds base column offset + j evaluated over the domain, slots past the last
        // column are zero
        {
            let offsets = winter_prover::matrix::get_evaluation_offsets::<E>(n, blowup, off);
            let twid = fft::get_twiddles::<B<E>>(n);
            let po = pick_index(c.positions[6], base_cols);
            obs.label(if po % nseg == 0 { "segment-offset%N==0" } else { "segment-offset%N!=0" });
            let seg = match nseg {
                1 => direct_segment::<E, 1>(&polys, po, &offsets, &twid),
                2 => direct_segment::<E, 2>(&polys, po, &offsets, &twid),
                4 => direct_segment::<E, 4>(&polys, po, &offsets, &twid),
                8 => direct_segment::<E, 8>(&polys, po, &offsets, &twid),
                _ => direct_segment::<E, 16>(&polys, po, &offsets, &twid),
            }
            .map_err(|p| vf_core::Fail::new(format!("Segment::new/{}", p.key()), format!("Segment::<{nseg}>::new at base-column offset {po} of {base_cols} panicked: {}", p.msg)))?;
            ensure!(seg.len() == big && seg.iter().all(|r| r.len() == nseg), "Segment::new/shape", "segment shape");
            for k in 0..6 {
                let r = match k {
                    0 => 0,
                    1 => big - 1,
                    _ => pick_index(c.positions[k], big),
                };
                let x = f.from_base(fp.mul(moff, fp.pow(wbig, r as u128)));
                for j in 0..nseg {
                    let bc = po + j;
                    let want = if bc < base_cols { rp::eval(&f, &mcol(bc / f.deg), &x)[bc % f.deg] } else { 0 };
                    obs.comparisons += 1;
                    ensure!(
                        seg[r][j].to_u128() == want,
                        "Segment::new/value",
                        "Segment::<{nseg}>::new at base-column offset {po} of {base_cols} ({n} rows, blowup {blowup}): row {r}, slot {j} differs from direct evaluation of base column {bc}"
                    );
                }
            }
        }
        // ColMatrix paths
        let ev = polys.evaluate_columns_over(&domain);
        ensure!(ev.num_rows() == big && ev.num_cols() == cols, "evaluate_columns_over/shape", "shape");
        for k in 0..8 {
            let r = pick_index(c.positions[k], big);
            let j = pick_index(c.positions[12 + k], cols);
            let x = f.from_base(fp.mul(moff, fp.pow(wbig, r as u128)));
            ensure!(to_el(&ev.get(j, r)) == rp::eval(&f, &mcol(j), &x), "evaluate_columns_over/value", "entry (row {r}, column {j}) differs from direct evaluation");
        }
        // the same through a domain built the way the prover builds it, with a constraint-evaluation
        // blowup (2) that is smaller than the LDE blowup whenever the latter is > 2
        if n >= 8 {
            let options = winter_air::ProofOptions::new(1, blowup, 0, winter_air::FieldExtension::None, 2, 0);
            let air = <TinyAir<B<E>> as winter_air::Air>::new(winter_air::TraceInfo::new(1, n), (), options);
            let dom = StarkDomain::new(&air);
            let moff_g = fp.generator;
            ensure!(dom.lde_domain_size() == big && dom.trace_to_lde_blowup() == blowup, "domain-from-air/accessors", "StarkDomain::new accessors");
            obs.label(if dom.ce_domain_size() < dom.lde_domain_size() { "air-domain:ce<lde" } else { "air-domain:ce=lde" });
            {
                let ce = dom.ce_domain_size();
                let wce = ref_root::<B<E>>(ce.trailing_zeros());
                ensure!(ce == 2 * n && dom.ce_domain_generator().to_u128() == wce, "domain-from-air/ce", "constraint evaluation domain of the TinyAir (degree 2): size {ce}, expected {}", 2 * n);
                for (k, power) in [1u64, 2, n as u64, ce as u64 - 1, 1 + c.positions[2] as u64].into_iter().enumerate() {
                    let st = if k % 2 == 0 { ce - 1 - pick_index(c.positions[3], ce / 2) } else { pick_index(c.positions[4], ce / 2) };
                    let x = fp.mul(moff_g, fp.pow(wce, st as u128));
                    ensure!(dom.get_ce_x_at(st).to_u128() == x, "domain-from-air/get_ce_x_at", "get_ce_x_at({st})");
                    let got = dom.get_ce_x_power_at(st, power, B::<E>::GENERATOR.exp((power as u32).into()));
                    ensure!(got.to_u128() == fp.pow(x, power as u128), "domain-from-air/get_ce_x_power_at", "StarkDomain::new domain of {ce} constraint evaluation points: get_ce_x_power_at({st}, {power}, offset^{power}) is not (offset * g^{st})^{power}");
                }
            }
            let ev = polys.evaluate_columns_over(&dom);
            ensure!(ev.num_rows() == big && ev.num_cols() == cols, "evaluate_columns_over(air-domain)/shape", "shape {}x{} expected {big}x{cols}", ev.num_rows(), ev.num_cols());
            let rm = RowMatrix::<E>::evaluate_polys_over::<8>(&polys, &dom);
            ensure!(rm.num_rows() == big && rm.num_cols() == cols, "evaluate_polys_over(air-domain)/shape", "shape");
            for k in 0..6 {
                let r = pick_index(c.positions[k], big);
                let j = pick_index(c.positions[12 + k], cols);
                let x = f.from_base(fp.mul(moff_g, fp.pow(wbig, r as u128)));
                let want = rp::eval(&f, &mcol(j), &x);
                ensure!(to_el(&ev.get(j, r)) == want, "evaluate_columns_over(air-domain)/value", "entry (row {r}, column {j}) differs from direct evaluation over the LDE domain");
                ensure!(to_el(&rm.get(j, r)) == want, "evaluate_polys_over(air-domain)/value", "entry (row {r}, column {j}) differs from direct evaluation over the LDE domain");
            }
        }
        let (x, mx) = build::<E>(&c.x);
        let at = polys.evaluate_columns_at(x);
        ensure!(at.len() == cols, "evaluate_columns_at/len", "length");
        for k in 0..4 {
            let j = pick_index(c.positions[12 + k], cols);
            ensure!(to_el(&at[j]) == rp::eval(&f, &mcol(j), &mx), "evaluate_columns_at/value", "column {j}");
        }
        // interpolate_columns: evaluations over the trace domain -> coefficients
        if cols <= 17 {
            let w = ref_root::<B<E>>(c.log_rows);
            let evals: Vec<Vec<E>> = (0..cols).map(|j| from_els::<E>(&rp::eval_domain(&f, &mcol(j), w, 1, n.min(64)))).collect();
            if n <= 64 {
                let m = ColMatrix::new(evals);
                let coeffs = m.interpolate_columns();
                for j in 0..cols {
                    ensure!(to_els(coeffs.get_column(j)) == mcol(j), "interpolate_columns/value", "column {j} coefficients");
                }
                let coeffs2 = m.interpolate_columns_into();
                for j in 0..cols {
                    ensure!(to_els(coeffs2.get_column(j)) == mcol(j), "interpolate_columns_into/value", "column {j} coefficients");
                }
            }
        }
        Ok(())
    }
}

// A minimal computation description, used only to obtain a `StarkDomain` the way the prover does
// (`StarkDomain::new(&air)`): one column, one transition constraint of the given degree, so that the
// constraint-evaluation blowup can be smaller than the LDE blowup.
pub struct TinyAir<B: winter_math::StarkField + winter_math::ExtensibleField<2> + winter_math::ExtensibleField<3>> {
    context: winter_air::AirContext<B>,
}
impl<B: winter_math::StarkField + winter_math::ExtensibleField<2> + winter_math::ExtensibleField<3>> winter_air::Air for TinyAir<B> {
    type BaseField = B;
    type PublicInputs = ();
    type GkrProof = ();
    type GkrVerifier = ();
    fn new(trace_info: winter_air::TraceInfo, _pub_inputs: (), options: winter_air::ProofOptions) -> Self {
        // degree 2: the constraint evaluation blowup is 2 whatever the LDE blowup is
        let context = winter_air::AirContext::new(trace_info, vec![winter_air::TransitionConstraintDegree::new(2)], 1, options);
        TinyAir { context }
    }
    fn context(&self) -> &winter_air::AirContext<B> {
        &self.context
    }
    fn evaluate_transition<E: FieldElement<BaseField = B>>(&self, frame: &winter_air::EvaluationFrame<E>, _p: &[E], result: &mut [E]) {
        result[0] = frame.next()[0] - frame.current()[0];
    }
    fn get_assertions(&self) -> Vec<winter_air::Assertion<B>> {
        vec![winter_air::Assertion::single(0, 0, B::ZERO)]
    }
}

macro_rules! all_fields {
    ($run:expr, $t:ident) => {
        $run.sub(&$t::<B62>::new("f62"));
        $run.sub(&$t::<B64>::new("f64"));
        $run.sub(&$t::<B128>::new("f128"));
        $run.sub(&$t::<Q<B62>>::new("quad-f62"));
        $run.sub(&$t::<Q<B64>>::new("quad-f64"));
        $run.sub(&$t::<Q<B128>>::new("quad-f128"));
        $run.sub(&$t::<C<B62>>::new("cube-f62"));
        $run.sub(&$t::<C<B64>>::new("cube-f64"));
    };
}

pub fn run(run: &mut Run) {
    run.assume("reference = Horner evaluation over integer residues at offset*w^i; w = published two-adic root raised by the reference (its defining equations are C07's business)");
    run.assume("serial build only: the concurrent FFT paths are compared with the serial ones by C14");
    all_fields!(run, Fft);
    all_fields!(run, Mat);
}
