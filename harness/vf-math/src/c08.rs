//! C08 — extension fields equal polynomial arithmetic modulo the documented irreducible.
//!
//! Oracle: `vf_ref::Field` (schoolbook product + reduction modulo the documented polynomial,
//! inverse by a^(q-2), conjugation *by definition* x -> x^p).

use std::marker::PhantomData;

use proptest::prelude::*;
use serde::{Deserialize, Serialize};
use vf_core::{ensure, CheckResult, Fail, Obs, Run, SubCheck, Tier, X};
use vf_repo::prelude::*;
use winter_math::{ExtensionOf, FieldElement};
use winter_utils::{AsBytes, Deserializable, Serializable, SliceReader};

use crate::c07::{model_of, Extra};

#[derive(Serialize, Deserialize, Clone, Debug)]
pub struct ExtCase {
    pub a: Vec<Src>,
    pub b: Vec<Src>,
    pub s: Src,
    pub e: X,
    pub small: u32,
}

pub struct ExtOps<E>(PhantomData<E>, &'static str);
impl<E> ExtOps<E> {
    pub fn new(name: &'static str) -> Self {
        ExtOps(PhantomData, name)
    }
}

fn build<E: FieldElement>(src: &[Src]) -> (E, El)
where
    E::BaseField: Extra,
{
    let coeffs: Vec<E::BaseField> = src.iter().map(realise::<E::BaseField>).collect();
    let mut m = [0u128; 3];
    for (i, s) in src.iter().enumerate() {
        m[i] = model_of::<E::BaseField>(s);
    }
    (E::slice_from_base_elements(&coeffs)[0], m)
}

fn show(f: &Field, x: &El) -> String {
    format!("{:?}", &x[..f.deg])
}

/// every observable of `r` equals the canonical one of the reference value `exp`
fn check_ext<E: FieldElement>(r: &E, exp: &El, what: &str, obs: &mut Obs) -> CheckResult
where
    E::BaseField: Extra,
{
    let f = ref_field::<E>();
    obs.comparisons += 1;
    let got = to_el(r);
    ensure!(
        got == *exp,
        format!("{what}/value"),
        "{} deg {}: {what}: got {}, polynomial arithmetic mod the irreducible gives {}",
        f.fp.name,
        f.deg,
        show(&f, &got),
        show(&f, exp)
    );
    ensure!(r.to_bytes() == f.to_le_bytes(exp), format!("{what}/to_bytes"), "{what}: serialization is not the canonical coefficient bytes");
    let canon: E = from_el(exp);
    ensure!(*r == canon && canon == *r, format!("{what}/eq-canonical"), "{what}: result compares unequal to the canonical element of the same value");
    for i in 0..f.deg {
        ensure!(
            E::BaseField::image_valid(r.base_element(i).image()),
            format!("{what}/image-range"),
            "{what}: coefficient {i} has an internal image outside the documented range"
        );
    }
    Ok(())
}

fn coeff_strategy<B: Extra>(deg: usize) -> BoxedStrategy<Vec<Src>> {
    let p = B::FP.p;
    prop_oneof![
        6 => prop::collection::vec(src_strategy::<B>(), deg),
        // all zero but one position
        1 => (0..deg, src_strategy::<B>()).prop_map(move |(i, s)| {
            let mut v = vec![Src::Res(X(0)); deg];
            v[i] = s;
            v
        }),
        // all p-1, all 1
        1 => prop::sample::select(vec![p - 1, 1, 0, 2, (p - 1) / 2]).prop_map(move |c| vec![Src::Res(X(c)); deg]),
    ]
    .boxed()
}

impl<E> SubCheck for ExtOps<E>
where
    E: FieldElement<PositiveInteger = <<E as FieldElement>::BaseField as FieldElement>::PositiveInteger>
        + ExtensionOf<<E as FieldElement>::BaseField>,
    E::BaseField: Extra,
{
    type Case = ExtCase;
    fn name(&self) -> String {
        format!("ext/{}", self.1)
    }
    fn cases(&self, tier: Tier) -> u64 {
        tier.pick(400_000, 8_000_000)
    }
    fn watchdog_secs(&self) -> u64 {
        10
    }
    fn rule(&self) -> String {
        "coefficient tuples from the C07 operand generator in every position (plus one-hot and constant tuples); non-trivial = at least one coefficient of a or b in a boundary class; distinct by whole case".into()
    }
    fn required_labels(&self, _t: Tier) -> Vec<String> {
        vec!["a-in-base-field".into(), "a-not-in-base-field".into(), "a=0".into()]
    }
    fn strategy(&self, _tier: Tier) -> BoxedStrategy<ExtCase> {
        let d = E::EXTENSION_DEGREE;
        (
            coeff_strategy::<E::BaseField>(d),
            coeff_strategy::<E::BaseField>(d),
            src_strategy::<E::BaseField>(),
            prop_oneof![
                (0u128..8).prop_map(X),
                any::<u64>().prop_map(|v| X(v as u128)),
                any::<u128>().prop_map(X),
            ],
            any::<u32>(),
            // "coefficients whose partial products have boundary internal representations":
            // optionally solve b[j] := T / a[i] for a target product T given by a boundary image
            prop::option::weighted(0.25, (0..d, 0..d, src_strategy::<E::BaseField>())),
        )
            .prop_map(|(a, mut b, s, e, small, solve)| {
                if let Some((i, j, target)) = solve {
                    let fp = <E::BaseField as FA>::FP;
                    let ai = model_of::<E::BaseField>(&a[i]);
                    if ai != 0 {
                        let t = model_of::<E::BaseField>(&target);
                        b[j] = Src::Res(X(fp.mul(t, fp.inv(ai))));
                    }
                }
                ExtCase { a, b, s, e, small }
            })
            .boxed()
    }
    fn check(&self, c: &ExtCase, obs: &mut Obs) -> CheckResult {
        let f = ref_field::<E>();
        let d = f.deg;
        let (x, mx): (E, El) = build(&c.a);
        let (y, my): (E, El) = build(&c.b);
        let s: E::BaseField = realise(&c.s);
        let ms = model_of::<E::BaseField>(&c.s);
        obs.nontrivial_if(c.a.iter().chain(c.b.iter()).any(vf_repo::is_boundary::<E::BaseField>));
        obs.label(if f.in_base(&mx) { "a-in-base-field" } else { "a-not-in-base-field" });
        if f.is_zero(&mx) {
            obs.label("a=0");
        }

        check_ext(&x, &mx, "operand", obs)?;
        check_ext(&(x + y), &f.add(&mx, &my), "add", obs)?;
        check_ext(&(x - y), &f.sub(&mx, &my), "sub", obs)?;
        let mxy = f.mul(&mx, &my);
        check_ext(&(x * y), &mxy, "mul", obs)?;
        check_ext(&(y * x), &mxy, "mul-commuted", obs)?;
        check_ext(&x.square(), &f.mul(&mx, &mx), "square", obs)?;
        check_ext(&x.cube(), &f.mul(&f.mul(&mx, &mx), &mx), "cube", obs)?;
        check_ext(&x.double(), &f.add(&mx, &mx), "double", obs)?;
        check_ext(&(-x), &f.neg(&mx), "neg", obs)?;
        check_ext(&x.mul_base(s), &f.mul_base(&mx, ms), "mul_base", obs)?;
        check_ext(&(x * E::from(s)), &f.mul_base(&mx, ms), "mul-by-embedded-base", obs)?;
        check_ext(&E::from(s), &f.from_base(ms), "from_base", obs)?;
        // inversion: every non-zero element has an inverse, zero maps to zero
        let ix = x.inv();
        let mix = f.inv(&mx);
        check_ext(&ix, &mix, "inv", obs)?;
        if f.is_zero(&mx) {
            ensure!(ix == E::ZERO, "inv/zero", "inv(0) != 0");
        } else {
            ensure!(x * ix == E::ONE, "inv/product", "x * inv(x) != 1");
        }
        check_ext(&(x / y), &f.div(&mx, &my), "div", obs)?;
        let mut t = x;
        t += y;
        check_ext(&t, &f.add(&mx, &my), "add_assign", obs)?;
        t = x;
        t -= y;
        check_ext(&t, &f.sub(&mx, &my), "sub_assign", obs)?;
        t = x;
        t *= y;
        check_ext(&t, &mxy, "mul_assign", obs)?;
        t = x;
        t /= y;
        check_ext(&t, &f.div(&mx, &my), "div_assign", obs)?;
        // conjugation is the Frobenius automorphism x -> x^p
        let cx = x.conjugate();
        let mcx = f.frobenius(&mx);
        check_ext(&cx, &mcx, "conjugate", obs)?;
        ensure!((x * y).conjugate() == cx * y.conjugate(), "conjugate/multiplicative", "conj(ab) != conj(a)conj(b)");
        ensure!((x + y).conjugate() == cx + y.conjugate(), "conjugate/additive", "conj(a+b) != conj(a)+conj(b)");
        let mut it = x;
        let mut norm = E::ONE;
        for _ in 0..d {
            norm *= it;
            it = it.conjugate();
        }
        ensure!(it == x, "conjugate/order", "conjugation applied degree-many times is not the identity");
        ensure!(f.in_base(&to_el(&norm)), "conjugate/norm", "product of all conjugates is not in the base field");
        ensure!((cx == x) == f.in_base(&mx), "conjugate/fixed-field", "conj(x) == x is {} but x in base field is {}", cx == x, f.in_base(&mx));
        // embedding is a ring homomorphism
        let s2: E::BaseField = realise(&c.b[0]);
        ensure!(E::from(s) * E::from(s2) == E::from(s * s2), "embed/mul", "embedding not multiplicative");
        ensure!(E::from(s) + E::from(s2) == E::from(s + s2), "embed/add", "embedding not additive");
        ensure!(E::from(<E::BaseField as FieldElement>::ONE) == E::ONE && E::from(<E::BaseField as FieldElement>::ZERO) == E::ZERO, "embed/units", "embedding of 0/1");
        // exponentiation
        let e = if E::BaseField::pi_bits() == 64 { c.e.0 & (u64::MAX as u128) } else { c.e.0 };
        let want = f.pow(&mx, e);
        check_ext(&x.exp(<E::BaseField as FA>::pi(e)), &want, "exp", obs)?;
        check_ext(&x.exp_vartime(<E::BaseField as FA>::pi(e)), &want, "exp_vartime", obs)?;
        ensure!((x == y) == (mx == my), "eq/operands", "(a == b) disagrees with the model");
        // small integer conversions
        check_ext(&E::from(c.small), &f.from_base((c.small as u128) % f.fp.p), "from_u32", obs)?;
        check_ext(&E::from(c.small as u16), &f.from_base(c.small as u16 as u128), "from_u16", obs)?;
        check_ext(&E::from(c.small as u8), &f.from_base(c.small as u8 as u128), "from_u8", obs)?;
        for cand in [c.e.0, f.fp.p - 1, f.fp.p, ms] {
            let r = E::try_from(cand);
            ensure!(r.is_ok() == (cand < f.fp.p), "try_from_u128/accepts", "TryFrom<u128>({cand})");
            if let Ok(v) = r {
                check_ext(&v, &f.from_base(cand), "try_from_u128", obs)?;
            }
            if cand <= u64::MAX as u128 {
                let r = E::try_from(cand as u64);
                ensure!(r.is_ok() == (cand < f.fp.p), "try_from_u64/accepts", "TryFrom<u64>({cand})");
            }
        }
        // slices of extension elements <-> slices of base elements
        let pair = [x, y];
        let flat = E::slice_as_base_elements(&pair);
        ensure!(flat.len() == 2 * d, "slice_as_base/len", "wrong length");
        for i in 0..d {
            ensure!(
                flat[i].to_u128() == mx[i] && flat[d + i].to_u128() == my[i],
                "slice_as_base/order",
                "coefficient order of the base-element view"
            );
        }
        let back = E::slice_from_base_elements(flat);
        ensure!(back.len() == 2 && back[0] == x && back[1] == y, "slice_from_base/roundtrip", "slice round trip changed a value");
        if d > 1 {
            let ragged = vf_core::catch(|| E::slice_from_base_elements(&flat[..2 * d - 1]).len());
            ensure!(ragged.is_err(), "slice_from_base/doc-panic", "documented panic on ragged length missing");
        }
        let raw = E::elements_as_bytes(&pair);
        ensure!(raw.len() == 2 * E::ELEMENT_BYTES, "elements_as_bytes/len", "wrong length");
        ensure!(raw[..E::ELEMENT_BYTES] == *x.as_bytes(), "elements_as_bytes/as_bytes", "as_bytes differs from elements_as_bytes");
        let view = unsafe { E::bytes_as_elements(raw) }.map_err(|e| Fail::new("bytes_as_elements/err", format!("{e}")))?;
        ensure!(view.len() == 2 && view[0] == x && view[1] == y, "bytes_as_elements/value", "zero-copy view changed values");
        // serialization
        let bytes = x.to_bytes();
        ensure!(bytes.len() == E::ELEMENT_BYTES, "to_bytes/len", "serialized length");
        let rd = E::read_from(&mut SliceReader::new(&bytes)).map_err(|e| Fail::new("read_from/err", format!("{e}")))?;
        check_ext(&rd, &mx, "read_from", obs)?;
        let tf = E::try_from(&bytes[..]).map_err(|_| Fail::new("try_from_bytes/err", "canonical bytes refused"))?;
        check_ext(&tf, &mx, "try_from_bytes", obs)?;
        // non-canonical coefficient bytes are refused
        let mut bad = bytes.clone();
        let pb = f.fp.p.to_le_bytes();
        let eb = f.fp.elem_bytes;
        let pos = (c.small as usize % d) * eb;
        bad[pos..pos + eb].copy_from_slice(&pb[..eb]);
        ensure!(E::read_from(&mut SliceReader::new(&bad)).is_err(), "read_from/accepts-p", "coefficient = p accepted");
        ensure!(E::try_from(&bad[..]).is_err(), "try_from_bytes/accepts-p", "coefficient = p accepted");
        ensure!(E::try_from(&bytes[..bytes.len() - 1]).is_err(), "try_from_bytes/short", "short slice accepted");
        // Display lists the coefficients
        let disp = format!("{x}");
        let want_disp = match d {
            2 => format!("({}, {})", mx[0], mx[1]),
            _ => format!("({}, {}, {})", mx[0], mx[1], mx[2]),
        };
        ensure!(disp == want_disp, "display", "Display gives {disp}, expected {want_disp}");
        for i in 0..d {
            ensure!(x.base_element(i).to_u128() == mx[i], "base_element", "base_element({i})");
        }
        Ok(())
    }
}

pub fn run(run: &mut Run) {
    run.assume("reference = schoolbook polynomial arithmetic modulo the documented irreducibles (f62: x^2-x-1, x^3+2x+2; f64: x^2-x+2, x^3-x-1; f128: x^2-x-1) over integer residues; irreducibility re-verified at start-up via Frobenius");
    if let Err(e) = vf_ref::field::selfcheck() {
        run.inconclusive(format!("reference self-check failed: {e}"));
        return;
    }
    // support flags (documented): cubic extension of the 128-bit field is not implemented
    #[derive(Serialize, Deserialize, Clone, Debug)]
    struct Flag(String, bool, bool);
    let flags = vec![
        Flag("quad/f62".into(), Q::<B62>::is_supported(), true),
        Flag("quad/f64".into(), Q::<B64>::is_supported(), true),
        Flag("quad/f128".into(), Q::<B128>::is_supported(), true),
        Flag("cube/f62".into(), C::<B62>::is_supported(), true),
        Flag("cube/f64".into(), C::<B64>::is_supported(), true),
        Flag("cube/f128".into(), C::<B128>::is_supported(), false),
    ];
    run.enumerate(
        "support-flags",
        "is_supported() of every extension type against the documentation (complete list)",
        true,
        flags.into_iter(),
        |f: &Flag, obs: &mut Obs| {
            obs.nontrivial();
            obs.label(f.0.clone());
            ensure!(f.1 == f.2, "is_supported", "{}: is_supported() = {}", f.0, f.1);
            Ok(())
        },
    );
    run.sub(&ExtOps::<Q<B62>>::new("quad/f62"));
    run.sub(&ExtOps::<Q<B64>>::new("quad/f64"));
    run.sub(&ExtOps::<Q<B128>>::new("quad/f128"));
    run.sub(&ExtOps::<C<B62>>::new("cube/f62"));
    run.sub(&ExtOps::<C<B64>>::new("cube/f64"));
}
