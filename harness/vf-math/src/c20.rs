//! C20 — polynomial arithmetic and batch utilities satisfy their algebraic identities.
//!
//! Oracle: `vf_ref::poly` (schoolbook add/mul/long division/Horner/Lagrange over the reference
//! fields). Documented panics are expected behaviour and are the only accepted panics.

use std::marker::PhantomData;

use proptest::prelude::*;
use serde::{Deserialize, Serialize};
use vf_core::{catch, ensure, CheckResult, Fail, Obs, Run, SubCheck, Tier, X};
use vf_ref::poly as rp;
use vf_repo::prelude::*;
use winter_math::{polynom, ExtensionOf, FieldElement};

use crate::c07::{model_of, Extra};

pub type ES = Vec<Src>;

pub fn elem_strategy<B: Extra>(deg: usize) -> BoxedStrategy<ES> {
    prop_oneof![
        5 => prop::collection::vec(src_strategy::<B>(), deg),
        1 => Just(vec![Src::Res(X(0)); deg]),
        1 => Just({
            let mut v = vec![Src::Res(X(0)); deg];
            v[0] = Src::Res(X(1));
            v
        }),
    ]
    .boxed()
}

pub fn build<E: FieldElement>(src: &[Src]) -> (E, El)
where
    E::BaseField: Extra,
{
    let coeffs: Vec<E::BaseField> = src.iter().map(realise::<E::BaseField>).collect();
    let mut m = [0u128; 3];
    for (i, s) in src.iter().enumerate() {
        m[i] = model_of::<E::BaseField>(s);
    }
    (E::slice_from_base_elements(&coeffs)[0], m)
}

pub fn build_vec<E: FieldElement>(src: &[ES]) -> (Vec<E>, Vec<El>)
where
    E::BaseField: Extra,
{
    let mut a = Vec::with_capacity(src.len());
    let mut b = Vec::with_capacity(src.len());
    for s in src {
        let (x, m) = build::<E>(s);
        a.push(x);
        b.push(m);
    }
    (a, b)
}

pub fn to_els<E: FieldElement>(v: &[E]) -> Vec<El>
where
    E::BaseField: FA,
{
    v.iter().map(to_el).collect()
}

/// polynomial of 1..=max_len coefficients with forced zero leading / trailing runs
pub fn poly_strategy<B: Extra>(deg: usize, max_len: usize) -> BoxedStrategy<Vec<ES>> {
    (prop::collection::vec(elem_strategy::<B>(deg), 1..=max_len), 0u8..8, 0usize..8)
        .prop_map(move |(mut p, style, k)| {
            let zero = vec![Src::Res(X(0)); deg];
            let n = p.len();
            match style {
                3 => {
                    for c in p.iter_mut().skip(n.saturating_sub(k + 1)) {
                        *c = zero.clone();
                    }
                },
                4 => {
                    for c in p.iter_mut().take(k + 1) {
                        *c = zero.clone();
                    }
                },
                5 => {
                    for c in p.iter_mut() {
                        *c = zero.clone();
                    }
                },
                6 => {
                    for (i, c) in p.iter_mut().enumerate() {
                        if i % (k + 2) != 0 {
                            *c = zero.clone();
                        }
                    }
                },
                _ => {},
            }
            p
        })
        .boxed()
}

fn cmp_poly(f: &Field, got: &[El], want: &[El], key: &str, what: &str) -> CheckResult {
    ensure!(rp::eq(f, got, want), key.to_string(), "{} deg {}: {what}: result differs from schoolbook arithmetic (len {} vs {})", f.fp.name, f.deg, got.len(), want.len());
    Ok(())
}

// ARITHMETIC + DIVISION
// ================================================================================================

#[derive(Serialize, Deserialize, Clone, Debug)]
pub struct ArithCase {
    pub a: Vec<ES>,
    pub b: Vec<ES>,
    pub k: ES,
    pub x: ES,
}

pub struct Arith<E>(PhantomData<E>, &'static str);
impl<E> Arith<E> {
    pub fn new(n: &'static str) -> Self {
        Arith(PhantomData, n)
    }
}

impl<E: FieldElement> SubCheck for Arith<E>
where
    E::BaseField: Extra,
{
    type Case = ArithCase;
    fn name(&self) -> String {
        format!("arith/{}", self.1)
    }
    fn cases(&self, tier: Tier) -> u64 {
        tier.pick(6_000, 150_000)
    }
    fn rule(&self) -> String {
        "two polynomials of 1..130 coefficients (zero leading/trailing runs, zero polynomial, sparse forced with probability 4/8), scalar, point; add/sub/mul/mul_by_scalar/eval/eval_many/degree_of/remove_leading_zeros/div vs schoolbook; the empty coefficient vector (the zero polynomial as remove_leading_zeros returns it) as one operand of add/sub/mul/mul_by_scalar/eval/degree_of; every 16th case also evaluates a polynomial of 255..4097 coefficients (2^k-1, 2^k, 2^k+1 and odd lengths above 2048); non-trivial = both polynomials non-zero and at least one has a zero leading or trailing coefficient or degree >= 8".into()
    }
    fn required_labels(&self, _t: Tier) -> Vec<String> {
        vec!["div:exact-check".into(), "div:doc-panic".into(), "a:leading-zero".into(), "a:zero-poly".into()]
    }
    fn strategy(&self, tier: Tier) -> BoxedStrategy<ArithCase> {
        let d = E::EXTENSION_DEGREE;
        let max = tier.pick(130, 130);
        (
            poly_strategy::<E::BaseField>(d, max),
            prop_oneof![poly_strategy::<E::BaseField>(d, max), poly_strategy::<E::BaseField>(d, 6)],
            elem_strategy::<E::BaseField>(d),
            elem_strategy::<E::BaseField>(d),
        )
            .prop_map(|(a, b, k, x)| ArithCase { a, b, k, x })
            .boxed()
    }
    fn check(&self, c: &ArithCase, obs: &mut Obs) -> CheckResult {
        let f = ref_field::<E>();
        let (a, ma) = build_vec::<E>(&c.a);
        let (b, mb) = build_vec::<E>(&c.b);
        let (k, mk) = build::<E>(&c.k);
        let (x, mx) = build::<E>(&c.x);
        let (za, zb) = (rp::is_zero(&f, &ma), rp::is_zero(&f, &mb));
        let lead0 = f.is_zero(ma.last().unwrap());
        if lead0 {
            obs.label("a:leading-zero");
        }
        if za {
            obs.label("a:zero-poly");
        }
        obs.nontrivial_if(!za && !zb && (lead0 || f.is_zero(&ma[0]) || rp::degree(&f, &ma) >= 8));

        let r = polynom::add(&a, &b);
        ensure!(r.len() == a.len().max(b.len()), "add/len", "documented length max(a.len, b.len)");
        cmp_poly(&f, &to_els(&r), &rp::add(&f, &ma, &mb), "add/value", "add")?;
        let r = polynom::sub(&a, &b);
        ensure!(r.len() == a.len().max(b.len()), "sub/len", "documented length");
        cmp_poly(&f, &to_els(&r), &rp::sub(&f, &ma, &mb), "sub/value", "sub")?;
        let r = polynom::mul(&a, &b);
        ensure!(r.len() == a.len() + b.len() - 1, "mul/len", "documented length a.len + b.len - 1");
        cmp_poly(&f, &to_els(&r), &rp::mul(&f, &ma, &mb), "mul/value", "mul")?;
        let r = polynom::mul_by_scalar(&a, k);
        ensure!(r.len() == a.len(), "mul_by_scalar/len", "length");
        cmp_poly(&f, &to_els(&r), &rp::scale(&f, &ma, &mk), "mul_by_scalar/value", "mul_by_scalar")?;
        ensure!(to_el(&polynom::eval(&a, x)) == rp::eval(&f, &ma, &mx), "eval/value", "eval differs from Horner over integers");
        let pts = [x, k, E::ZERO, E::ONE];
        let many = polynom::eval_many(&a, &pts);
        for (i, p) in pts.iter().enumerate() {
            ensure!(to_el(&many[i]) == rp::eval(&f, &ma, &to_el(p)), "eval_many/value", "eval_many[{i}]");
        }
        // the empty coefficient vector is the zero polynomial as the library itself returns it (remove_leading_zeros,
        // interpolate(.., true)): as an operand it must behave as zero (both operands empty is left out: the
        // documented result length a.len + b.len - 1 is not defined there)
        {
            let e: Vec<E> = vec![];
            let zero: Vec<El> = vec![];
            obs.label("empty-operand");
            cmp_poly(&f, &to_els(&polynom::add(&a, &e)), &ma, "empty-operand/add", "a + [] ")?;
            cmp_poly(&f, &to_els(&polynom::add(&e, &a)), &ma, "empty-operand/add", "[] + a")?;
            cmp_poly(&f, &to_els(&polynom::sub(&a, &e)), &ma, "empty-operand/sub", "a - []")?;
            cmp_poly(&f, &to_els(&polynom::sub(&e, &a)), &rp::sub(&f, &zero, &ma), "empty-operand/sub", "[] - a")?;
            for (what, r) in [("a * []", catch(|| polynom::mul(&a, &e))), ("[] * a", catch(|| polynom::mul(&e, &a)))] {
                let r = r.map_err(|p| vf_core::Fail::new(format!("empty-operand/mul/{}", p.key()), format!("{what} (a of {} coefficients) panicked: {}", a.len(), p.msg)))?;
                ensure!(r.len() == a.len() - 1, "empty-operand/mul/len", "{what}: documented length a.len + b.len - 1");
                ensure!(r.iter().all(|c| *c == E::ZERO), "empty-operand/mul/value", "{what} is not the zero polynomial");
            }
            ensure!(polynom::mul_by_scalar(&e, k).is_empty(), "empty-operand/mul_by_scalar", "[] * k");
            ensure!(polynom::eval(&e, x) == E::ZERO && polynom::eval_many(&e, &[x, k]) == vec![E::ZERO, E::ZERO], "empty-operand/eval", "the empty polynomial does not evaluate to zero");
            ensure!(polynom::degree_of(&e) == 0 && polynom::remove_leading_zeros(&e).is_empty(), "empty-operand/degree", "degree_of / remove_leading_zeros of the empty polynomial");
        }
        // long polynomials (every 16th case): a repeated up to a length around the sizes at which an
        // implementation may switch strategy; eval / eval_many / degree_of vs Horner over integers
        if (a.len() + b.len()) % 16 == 0 && !a.is_empty() {
            const LENS: [usize; 14] = [255, 256, 257, 1023, 1024, 1025, 2047, 2048, 2049, 2050, 3001, 4095, 4096, 4097];
            let len = LENS[(a.len() * 7 + b.len()) % LENS.len()];
            obs.label(if len % 2 == 1 && len > 2048 { "long-poly:odd>2048" } else { "long-poly" });
            let long: Vec<E> = (0..len).map(|i| a[i % a.len()] + E::from((i / a.len()) as u32)).collect();
            let mlong: Vec<El> = (0..len).map(|i| f.add(&ma[i % ma.len()], &f.from_base((i / ma.len()) as u128))).collect();
            ensure!(to_el(&polynom::eval(&long, x)) == rp::eval(&f, &mlong, &mx), "eval/long", "eval of a polynomial with {len} coefficients differs from Horner over integers");
            let many = polynom::eval_many(&long, &[x, k]);
            ensure!(to_el(&many[0]) == rp::eval(&f, &mlong, &mx) && to_el(&many[1]) == rp::eval(&f, &mlong, &mk), "eval_many/long", "eval_many of a polynomial with {len} coefficients");
            ensure!(polynom::degree_of(&long) == rp::degree(&f, &mlong), "degree_of/long", "degree_of of a polynomial with {len} coefficients");
        }
        ensure!(polynom::degree_of(&a) == rp::degree(&f, &ma), "degree_of", "degree_of = {}, true degree {}", polynom::degree_of(&a), rp::degree(&f, &ma));
        let t = polynom::remove_leading_zeros(&a);
        let want_len = if za { 0 } else { rp::degree(&f, &ma) + 1 };
        ensure!(t.len() == want_len && to_els(&t)[..] == ma[..want_len], "remove_leading_zeros", "remove_leading_zeros");

        // division: a = q*b + r, deg r < deg b
        let (da, db) = (rp::degree(&f, &ma), rp::degree(&f, &mb));
        let res = catch(|| polynom::div(&a, &b));
        if zb || da < db {
            obs.label("div:doc-panic");
            ensure!(res.is_err(), "div/doc-panic", "documented panic (zero divisor / divisor of higher degree) did not happen");
        } else {
            obs.label("div:exact-check");
            let q = res.map_err(|p| Fail::new(format!("div/{}", p.key()), format!("div panicked on a valid division: {}", p.msg)))?;
            let (wq, wr) = rp::divrem(&f, &ma, &mb);
            cmp_poly(&f, &to_els(&q), &wq, "div/quotient", "div")?;
            // q*b + r == a with deg r < deg b
            let back = rp::add(&f, &rp::mul(&f, &to_els(&q), &mb), &wr);
            ensure!(rp::eq(&f, &back, &ma), "div/identity", "q*b + r != a");
            ensure!(rp::is_zero(&f, &wr) || rp::degree(&f, &wr) < db.max(1), "harness/divrem", "reference remainder degree");
            if !lead0 && !f.is_zero(mb.last().unwrap()) {
                ensure!(q.len() == a.len() - b.len() + 1, "div/len", "documented length a.len - b.len + 1");
            }
        }
        Ok(())
    }
}

// SYNTHETIC DIVISION
// ================================================================================================

#[derive(Serialize, Deserialize, Clone, Debug)]
pub struct SynCase {
    pub p: Vec<ES>,
    pub a: usize,
    pub b: ES,
    pub roots: Vec<ES>,
    pub reps: u8,
}

pub struct Syn<E>(PhantomData<E>, &'static str);
impl<E> Syn<E> {
    pub fn new(n: &'static str) -> Self {
        Syn(PhantomData, n)
    }
}

impl<E: FieldElement> SubCheck for Syn<E>
where
    E::BaseField: Extra,
{
    type Case = SynCase;
    fn name(&self) -> String {
        format!("syn-div/{}", self.1)
    }
    fn cases(&self, tier: Tier) -> u64 {
        tier.pick(8_000, 200_000)
    }
    fn rule(&self) -> String {
        "polynomial of 1..130 coefficients, divisor x^a - b with a in 0..9 (b in {0, 1, boundary, random}), root lists of 0..8 roots, repeated division 1..3 times; syn_div / syn_div_in_place / syn_div_roots_in_place vs long division; non-trivial = valid division with a >= 2 or >= 2 roots or a remainder that is not zero".into()
    }
    fn required_labels(&self, _t: Tier) -> Vec<String> {
        vec!["syn:b=1".into(), "syn:a>=2".into(), "syn:doc-panic".into(), "roots:doc-panic".into(), "roots:checked".into()]
    }
    fn strategy(&self, _tier: Tier) -> BoxedStrategy<SynCase> {
        let d = E::EXTENSION_DEGREE;
        let one = {
            let mut v = vec![Src::Res(X(0)); d];
            v[0] = Src::Res(X(1));
            v
        };
        (
            poly_strategy::<E::BaseField>(d, 130),
            prop_oneof![4 => 1usize..9, 1 => Just(0usize), 1 => 1usize..140],
            prop_oneof![3 => elem_strategy::<E::BaseField>(d), 2 => Just(one)],
            prop::collection::vec(elem_strategy::<E::BaseField>(d), 0..9),
            1u8..4,
        )
            .prop_map(|(p, a, b, roots, reps)| SynCase { p, a, b, roots, reps })
            .boxed()
    }
    fn check(&self, c: &SynCase, obs: &mut Obs) -> CheckResult {
        let f = ref_field::<E>();
        let (p, mp) = build_vec::<E>(&c.p);
        let (b, mb) = build::<E>(&c.b);
        let a = c.a;
        // divisor x^a - b
        let valid = a != 0 && !f.is_zero(&mb) && p.len() > a;
        let res = catch(|| polynom::syn_div(&p, a, b));
        if !valid {
            obs.label("syn:doc-panic");
            ensure!(res.is_err(), "syn_div/doc-panic", "documented panic (a = 0, b = 0 or p.len() <= a) did not happen");
        } else {
            let first = res.map_err(|e| Fail::new(format!("syn_div/{}", e.key()), format!("panicked on valid input: {}", e.msg)))?;
            let mut divisor = vec![f.zero(); a + 1];
            divisor[0] = f.neg(&mb);
            divisor[a] = f.one();
            if mb == f.one() {
                obs.label("syn:b=1");
            }
            if a >= 2 {
                obs.label("syn:a>=2");
            }
            let mut rem_nonzero = false;
            let mut input: Vec<E> = p.clone();
            let mut want = mp.clone();
            for rep in 0..c.reps {
                let cur = if rep == 0 { first.clone() } else { polynom::syn_div(&input, a, b) };
                let (q, r) = rp::divrem(&f, &want, &divisor);
                rem_nonzero |= !rp::is_zero(&f, &r);
                ensure!(cur.len() == p.len(), "syn_div/len", "documented length p.len()");
                cmp_poly(&f, &to_els(&cur), &q, "syn_div/quotient", "syn_div")?;
                let mut inplace = input.clone();
                polynom::syn_div_in_place(&mut inplace, a, b);
                ensure!(inplace == cur, "syn_div_in_place/value", "in-place variant differs from syn_div");
                want = pad(&q, p.len(), &f);
                input = cur;
            }
            obs.nontrivial_if(a >= 2 || rem_nonzero);
        }
        // division by prod (x - r_i)
        let (roots, mroots) = build_vec::<E>(&c.roots);
        let mut q = p.clone();
        let res = catch(|| polynom::syn_div_roots_in_place(&mut q, &roots));
        if roots.is_empty() || p.len() <= roots.len() {
            obs.label("roots:doc-panic");
            ensure!(res.is_err(), "syn_div_roots/doc-panic", "documented panic did not happen");
        } else {
            obs.label("roots:checked");
            res.map_err(|e| Fail::new(format!("syn_div_roots/{}", e.key()), format!("panicked on valid input: {}", e.msg)))?;
            let divisor = rp::from_roots(&f, &mroots);
            let (wq, _r) = rp::divrem(&f, &mp, &divisor);
            let got = to_els(&q);
            let keep = p.len() - roots.len();
            // the quotient occupies the low p.len() - #roots coefficients
            cmp_poly(&f, &got[..keep], &wq, "syn_div_roots/quotient", "syn_div_roots_in_place")?;
            obs.nontrivial_if(roots.len() >= 2);
        }
        Ok(())
    }
}

fn pad(p: &[El], n: usize, f: &Field) -> Vec<El> {
    let mut v = p.to_vec();
    v.resize(n.max(v.len()), f.zero());
    v.truncate(n);
    v
}

pub fn from_els<E: FieldElement>(v: &[El]) -> Vec<E>
where
    E::BaseField: FA,
{
    v.iter().map(from_el::<E>).collect()
}

// INTERPOLATION
// ================================================================================================

#[derive(Serialize, Deserialize, Clone, Debug)]
pub struct InterpCase {
    pub xs: Vec<ES>,
    pub ys: Vec<ES>,
    pub remove: bool,
    pub batch_n: u8,
}

pub struct Interp<E>(PhantomData<E>, &'static str);
impl<E> Interp<E> {
    pub fn new(n: &'static str) -> Self {
        Interp(PhantomData, n)
    }
}

fn check_batch<E: FieldElement, const N: usize>(f: &Field, xs: &[E], ys: &[E]) -> CheckResult
where
    E::BaseField: FA,
{
    let nb = xs.len() / N;
    if nb == 0 {
        return Ok(());
    }
    let xb: Vec<[E; N]> = (0..nb).map(|i| xs[i * N..(i + 1) * N].try_into().unwrap()).collect();
    let yb: Vec<[E; N]> = (0..nb).map(|i| ys[i * N..(i + 1) * N].try_into().unwrap()).collect();
    let polys = polynom::interpolate_batch(&xb, &yb);
    ensure!(polys.len() == nb, "interpolate_batch/len", "number of polynomials");
    for i in 0..nb {
        let want = rp::lagrange(f, &to_els(&xb[i]), &to_els(&yb[i]));
        ensure!(rp::eq(f, &to_els(&polys[i]), &want), format!("interpolate_batch<{N}>/value"), "batch {i} differs from Lagrange interpolation");
    }
    Ok(())
}

impl<E: FieldElement> SubCheck for Interp<E>
where
    E::BaseField: Extra,
{
    type Case = InterpCase;
    fn name(&self) -> String {
        format!("interp/{}", self.1)
    }
    fn cases(&self, tier: Tier) -> u64 {
        tier.pick(3_000, 60_000)
    }
    fn rule(&self) -> String {
        "1..64 pairwise distinct points (duplicates removed after generation), values incl. all-zero and low-degree data; interpolate (both remove_leading_zeros settings), interpolate_batch<2|4|8|16>, poly_from_roots vs Lagrange/expansion over integers; non-trivial = at least 3 points".into()
    }
    fn strategy(&self, _tier: Tier) -> BoxedStrategy<InterpCase> {
        let d = E::EXTENSION_DEGREE;
        (1usize..=64)
            .prop_flat_map(move |n| {
                (
                    prop::collection::vec(elem_strategy::<E::BaseField>(d), n),
                    prop::collection::vec(elem_strategy::<E::BaseField>(d), n),
                    any::<bool>(),
                    0u8..4,
                    0u8..4,
                )
            })
            .prop_map(move |(xs, mut ys, remove, batch_n, ystyle)| {
                let zero = vec![Src::Res(X(0)); d];
                match ystyle {
                    0 => ys.iter_mut().for_each(|y| *y = zero.clone()),
                    1 => {
                        let y0 = ys[0].clone();
                        ys.iter_mut().for_each(|y| *y = y0.clone())
                    },
                    _ => {},
                }
                InterpCase { xs, ys, remove, batch_n }
            })
            .boxed()
    }
    fn check(&self, c: &InterpCase, obs: &mut Obs) -> CheckResult {
        let f = ref_field::<E>();
        let (xs0, mxs0) = build_vec::<E>(&c.xs);
        let (ys0, mys0) = build_vec::<E>(&c.ys);
        // keep pairwise distinct points only (interpolation is defined for distinct x)
        let mut seen = std::collections::BTreeSet::new();
        let (mut xs, mut ys, mut mxs, mut mys) = (vec![], vec![], vec![], vec![]);
        for i in 0..xs0.len() {
            if seen.insert(mxs0[i]) {
                xs.push(xs0[i]);
                ys.push(ys0[i]);
                mxs.push(mxs0[i]);
                mys.push(mys0[i]);
            }
        }
        let n = xs.len();
        obs.nontrivial_if(n >= 3);
        obs.label(format!("points={}", if n < 3 { "1-2" } else if n < 17 { "3-16" } else { "17-64" }));
        let p = polynom::interpolate(&xs, &ys, c.remove);
        let mp = to_els(&p);
        for i in 0..n {
            ensure!(rp::eval(&f, &mp, &mxs[i]) == mys[i], "interpolate/through-points", "interpolant misses point {i}");
        }
        let want = rp::lagrange(&f, &mxs, &mys);
        ensure!(rp::eq(&f, &mp, &want), "interpolate/value", "differs from Lagrange interpolation over integers");
        if c.remove {
            let wl = if rp::is_zero(&f, &want) { 0 } else { rp::degree(&f, &want) + 1 };
            ensure!(p.len() == wl, "interpolate/remove-leading-zeros", "length {} but true degree+1 is {wl}", p.len());
        } else {
            ensure!(p.len() == n, "interpolate/len", "documented length = number of points");
        }
        // inverse direction: interpolation inverts evaluation
        let evals = polynom::eval_many(&p, &xs);
        ensure!(evals == ys, "interpolate/eval-roundtrip", "eval_many(interpolate(xs, ys), xs) != ys");
        // poly_from_roots: monic, degree n, vanishes exactly on the roots
        let z = polynom::poly_from_roots(&xs);
        ensure!(rp::eq(&f, &to_els(&z), &rp::from_roots(&f, &mxs)) && z.len() == n + 1, "poly_from_roots/value", "poly_from_roots differs from the product of (x - r_i)");
        ensure!(z[n] == E::ONE, "poly_from_roots/monic", "not monic");
        match c.batch_n {
            0 => check_batch::<E, 2>(&f, &xs, &ys),
            1 => check_batch::<E, 4>(&f, &xs, &ys),
            2 => check_batch::<E, 8>(&f, &xs, &ys),
            _ => check_batch::<E, 16>(&f, &xs, &ys),
        }
    }
}

// BATCH UTILITIES
// ================================================================================================

#[derive(Serialize, Deserialize, Clone, Debug)]
pub struct BatchCase {
    pub len_sel: u16,
    pub seedvals: Vec<ES>,
    pub zero_positions: Vec<u16>,
    pub b: ES,
    pub s: ES,
    pub base_scalars: Vec<Src>,
}

pub struct Batch<E>(PhantomData<E>, &'static str);
impl<E> Batch<E> {
    pub fn new(n: &'static str) -> Self {
        Batch(PhantomData, n)
    }
}

const LENS: [usize; 12] = [1, 2, 3, 7, 64, 1023, 1024, 1025, 2047, 2048, 2049, 3000];

impl<E: FieldElement + ExtensionOf<<E as FieldElement>::BaseField>> SubCheck for Batch<E>
where
    E::BaseField: Extra,
{
    type Case = BatchCase;
    fn name(&self) -> String {
        format!("batch/{}", self.1)
    }
    fn cases(&self, tier: Tier) -> u64 {
        tier.pick(1_500, 30_000)
    }
    fn rule(&self) -> String {
        "vector lengths {1,2,3,7,64,1023,1024,1025,2047,2048,2049,3000} (both sides of the 1024-element batching threshold), vectors built from 8 generated seed values expanded multiplicatively, zeros forced at generated positions (incl. first/last/all); batch_inversion, get_power_series(_with_offset), add_in_place, mul_acc vs element-wise integer arithmetic; non-trivial = length >= 1023 or at least one zero".into()
    }
    fn strategy(&self, _tier: Tier) -> BoxedStrategy<BatchCase> {
        let d = E::EXTENSION_DEGREE;
        (
            any::<u16>(),
            prop::collection::vec(elem_strategy::<E::BaseField>(d), 8),
            prop::collection::vec(any::<u16>(), 0..6),
            elem_strategy::<E::BaseField>(d),
            elem_strategy::<E::BaseField>(d),
            prop::collection::vec(src_strategy::<E::BaseField>(), 8),
        )
            .prop_map(|(len_sel, seedvals, zero_positions, b, s, base_scalars)| BatchCase { len_sel, seedvals, zero_positions, b, s, base_scalars })
            .boxed()
    }
    fn check(&self, c: &BatchCase, obs: &mut Obs) -> CheckResult {
        let f = ref_field::<E>();
        let n = LENS[vf_core::pick_index(c.len_sel, LENS.len())];
        let (seeds, mseeds) = build_vec::<E>(&c.seedvals);
        // expand: v[i] = seed[i % 8] * (i+1)   (cheap, deterministic, model mirrored)
        let mut v: Vec<E> = Vec::with_capacity(n);
        let mut mv: Vec<El> = Vec::with_capacity(n);
        for i in 0..n {
            let k = (i / 8 + 1) as u32;
            v.push(seeds[i % 8] * E::from(k));
            mv.push(f.mul_base(&mseeds[i % 8], k as u128 % f.fp.p));
        }
        let mut zeros = 0;
        for (j, z) in c.zero_positions.iter().enumerate() {
            let pos = match j {
                0 => 0,
                1 => n - 1,
                _ => vf_core::pick_index(*z, n),
            };
            v[pos] = E::ZERO;
            mv[pos] = f.zero();
            zeros += 1;
        }
        if c.zero_positions.len() == 5 {
            // all zero
            v.iter_mut().for_each(|x| *x = E::ZERO);
            mv.iter_mut().for_each(|x| *x = f.zero());
        }
        zeros += mv.iter().filter(|m| f.is_zero(m)).count();
        obs.nontrivial_if(n >= 1023 || zeros > 0);
        obs.label(format!("len={n}"));
        if zeros > 0 {
            obs.label("has-zero");
        }
        let inv = winter_math::batch_inversion(&v);
        ensure!(inv.len() == n, "batch_inversion/len", "length");
        // reference: invert the distinct values once (vector has period structure, so cache by value)
        let mut cache: std::collections::HashMap<El, El> = std::collections::HashMap::new();
        for i in 0..n {
            let want = *cache.entry(mv[i]).or_insert_with(|| f.inv(&mv[i]));
            ensure!(to_el(&inv[i]) == want, "batch_inversion/value", "element {i} of {n}: batch inverse differs from a^(q-2) (zero must stay zero)");
            if !f.is_zero(&mv[i]) && i % 97 == 0 {
                ensure!(v[i] * inv[i] == E::ONE, "batch_inversion/product", "x * inv(x) != 1");
            }
        }
        // power series
        let (b, mb) = build::<E>(&c.b);
        let (s, ms) = build::<E>(&c.s);
        let ps = winter_math::get_power_series(b, n);
        let pso = winter_math::get_power_series_with_offset(b, s, n);
        ensure!(ps.len() == n && pso.len() == n, "power_series/len", "length");
        let mut acc = f.one();
        let mut acco = ms;
        for i in 0..n {
            ensure!(to_el(&ps[i]) == acc, "power_series/value", "get_power_series[{i}] != b^{i} (n = {n})");
            ensure!(to_el(&pso[i]) == acco, "power_series_with_offset/value", "get_power_series_with_offset[{i}] != s*b^{i} (n = {n})");
            acc = f.mul(&acc, &mb);
            acco = f.mul(&acco, &mb);
        }
        // add_in_place, mul_acc
        let mut a2 = v.clone();
        winter_math::add_in_place(&mut a2, &ps);
        for i in 0..n {
            ensure!(to_el(&a2[i]) == f.add(&mv[i], &to_el(&ps[i])), "add_in_place/value", "element {i}");
        }
        let bs: Vec<E::BaseField> = (0..n).map(|i| realise::<E::BaseField>(&c.base_scalars[i % 8]) * <E::BaseField as From<u32>>::from(i as u32 + 1)).collect();
        let mut a3 = v.clone();
        winter_math::mul_acc(&mut a3, &bs, s);
        for i in 0..n {
            let want = f.add(&mv[i], &f.mul_base(&ms, bs[i].to_u128()));
            ensure!(to_el(&a3[i]) == want, "mul_acc/value", "element {i}");
        }
        let short = &ps[..n - 1];
        ensure!(catch(|| winter_math::add_in_place(&mut a2, short)).is_err(), "add_in_place/doc-panic", "documented panic on length mismatch missing");
        ensure!(catch(|| winter_math::mul_acc(&mut a3, &bs[..n - 1], s)).is_err(), "mul_acc/doc-panic", "documented panic on length mismatch missing");
        Ok(())
    }
}

macro_rules! all_fields {
    ($run:expr, $t:ident) => {
        $run.sub(&$t::<B62>::new("f62"));
        $run.sub(&$t::<B64>::new("f64"));
        $run.sub(&$t::<B128>::new("f128"));
        $run.sub(&$t::<Q<B62>>::new("quad-f62"));
        $run.sub(&$t::<Q<B64>>::new("quad-f64"));
        $run.sub(&$t::<Q<B128>>::new("quad-f128"));
        $run.sub(&$t::<C<B62>>::new("cube-f62"));
        $run.sub(&$t::<C<B64>>::new("cube-f64"));
    };
}

pub fn run(run: &mut Run) {
    run.assume("reference = schoolbook polynomial arithmetic over integer residues (vf-ref); power series with n = 0 are not generated (undefined by the docs, unused by callers)");
    all_fields!(run, Arith);
    all_fields!(run, Syn);
    all_fields!(run, Interp);
    all_fields!(run, Batch);
}
