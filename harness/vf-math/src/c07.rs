//! C07 — base-field arithmetic equals integer arithmetic modulo the prime.
//!
//! Oracle: `vf_ref::Fp` (plain integers). Operands come from `vf_repo::src_strategy` (boundary
//! residues / structured internal images / uniform) plus, for f64, operands *solved* so that a
//! product lands in the non-canonical window [p, 2^64) of the lazy reductions.

use std::marker::PhantomData;

use proptest::prelude::*;
use serde::{Deserialize, Serialize};
use vf_core::{ensure, CheckResult, Fail, Obs, Run, SubCheck, Tier, X};
use vf_repo::prelude::*;
use winter_math::{FieldElement, StarkField};
use winter_utils::{Deserializable, Serializable, SliceReader};

/// field specific extras (f64 has mul_small / exp7 / inner)
pub trait Extra: FA {
    fn extras(_x: Self, _mx: u128, _small: u32, _obs: &mut Obs) -> CheckResult {
        Ok(())
    }
    /// model residue of a raw image
    fn model_of_image(img: u128) -> u128;
    fn pi_to_u128(v: Self::PositiveInteger) -> u128;
    fn mul_small_op(_x: Self, _k: u32) -> Option<Self> {
        None
    }
}

fn rinv64(fp: Fp) -> u128 {
    fp.inv((1u128 << 64) % fp.p)
}

impl Extra for B62 {
    fn pi_to_u128(v: u64) -> u128 {
        v as u128
    }
    fn model_of_image(img: u128) -> u128 {
        F62.mul(img % F62.p, rinv64(F62))
    }
}
impl Extra for B128 {
    fn pi_to_u128(v: u128) -> u128 {
        v
    }
    fn model_of_image(img: u128) -> u128 {
        img % F128.p
    }
}
impl Extra for B64 {
    fn pi_to_u128(v: u64) -> u128 {
        v as u128
    }
    fn model_of_image(img: u128) -> u128 {
        F64.mul(img % F64.p, rinv64(F64))
    }
    fn mul_small_op(x: Self, k: u32) -> Option<Self> {
        Some(x.mul_small(k))
    }
    fn extras(x: Self, mx: u128, small: u32, obs: &mut Obs) -> CheckResult {
        let fp = F64;
        let r = x.mul_small(small);
        let img = r.inner() as u128;
        if img >= fp.p {
            obs.label("mul_small:image-in-[p,2^64)");
        }
        check_elem::<B64>(&r, fp.mul(mx, small as u128), "mul_small", obs)?;
        check_elem::<B64>(&x.exp7(), fp.pow(mx, 7), "exp7", obs)?;
        ensure!((x.inner() as u128) < fp.p, "inner>=p", "inner() = {} is not below the modulus", x.inner());
        ensure!(B64::new(mx as u64) == x, "new", "new(as_int) != element");
        // TryFrom<usize> (f64 only) accepts exactly the integers below p
        for cand in [mx as u64, fp.p as u64 - 1, fp.p as u64, fp.p as u64 + 1, u64::MAX, small as u64, (fp.p as u64).wrapping_add(small as u64)] {
            let r = B64::try_from(cand as usize);
            ensure!(r.is_ok() == ((cand as u128) < fp.p), "try_from_usize/accepts", "f64: TryFrom<usize>({cand}) is_ok = {}", r.is_ok());
            if let Ok(v) = r {
                check_elem::<B64>(&v, cand as u128, "try_from_usize", obs)?;
            }
        }
        // conversions out of the field: exact for values that fit, refused otherwise
        ensure!(u64::from(x) as u128 == mx, "into_u64", "u64::from(element) != as_int");
        ensure!(u128::from(x) == mx, "into_u128", "u128::from(element) != as_int");
        ensure!(u32::try_from(x).ok().map(|v| v as u128) == Some(mx).filter(|m| *m <= u32::MAX as u128), "try_into_u32", "u32::try_from(element) for {mx}");
        ensure!(u16::try_from(x).ok().map(|v| v as u128) == Some(mx).filter(|m| *m <= u16::MAX as u128), "try_into_u16", "u16::try_from(element) for {mx}");
        ensure!(u8::try_from(x).ok().map(|v| v as u128) == Some(mx).filter(|m| *m <= u8::MAX as u128), "try_into_u8", "u8::try_from(element) for {mx}");
        ensure!(bool::try_from(x).ok().map(|v| v as u128) == Some(mx).filter(|m| *m <= 1), "try_into_bool", "bool::try_from(element) for {mx}");
        let sm = B64::from(small as u8);
        ensure!(u8::try_from(sm).ok() == Some(small as u8) && u16::try_from(B64::from(small as u16)).ok() == Some(small as u16) && u32::try_from(B64::from(small)).ok() == Some(small), "try_into_small/roundtrip", "small integers do not round-trip through the field");
        // new() reduces silently
        let big = (mx as u64).wrapping_add(0xFFFFFFFF00000001);
        if (big as u128) >= fp.p {
            check_elem::<B64>(&B64::new(big), (big as u128) % fp.p, "new-reduces", obs)?;
        }
        Ok(())
    }
}

pub fn model_of<B: Extra>(s: &Src) -> u128 {
    match s {
        Src::Res(X(v)) => *v % B::FP.p,
        Src::Img(X(m)) => {
            if B::image_valid(*m) {
                B::model_of_image(*m)
            } else {
                *m % B::FP.p
            }
        },
    }
}

/// every observable of `r` must be the canonical one of residue `exp`
pub fn check_elem<B: FA>(r: &B, exp: u128, what: &str, obs: &mut Obs) -> CheckResult {
    let fp = B::FP;
    obs.comparisons += 1;
    let got = r.to_u128();
    ensure!(got == exp, format!("{what}/value"), "{}: {what}: as_int = {got}, integers mod p give {exp}", B::NAME);
    let bytes = r.to_bytes();
    ensure!(
        bytes == fp.to_le_bytes(exp),
        format!("{what}/to_bytes"),
        "{}: {what}: serialized bytes {:?} are not the canonical little-endian bytes of {exp}",
        B::NAME,
        bytes
    );
    ensure!(
        format!("{r}") == format!("{exp}"),
        format!("{what}/display"),
        "{}: {what}: Display gives {r}, expected {exp}",
        B::NAME
    );
    let canon = B::from_u128(exp);
    ensure!(
        *r == canon && canon == *r,
        format!("{what}/eq-canonical"),
        "{}: {what}: result (image {:#x}) denotes {exp} but compares unequal to the canonical element of the same residue (image {:#x})",
        B::NAME,
        r.image(),
        canon.image()
    );
    let other = B::from_u128(fp.add(exp, 1));
    ensure!(*r != other, format!("{what}/eq-different"), "{}: {what}: compares equal to a different residue", B::NAME);
    ensure!(
        B::image_valid(r.image()),
        format!("{what}/image-range"),
        "{}: {what}: internal image {:#x} is outside the documented representation range",
        B::NAME,
        r.image()
    );
    Ok(())
}

// SINGLE OPERATIONS
// ================================================================================================

#[derive(Serialize, Deserialize, Clone, Debug)]
pub struct OpsCase {
    pub a: Src,
    pub b: Src,
    pub e: X,
    pub small: u32,
}

pub struct Ops<B>(PhantomData<B>);
impl<B> Ops<B> {
    pub fn new() -> Self {
        Ops(PhantomData)
    }
}

/// f64 only: operands (image, k) solved so that image*k lands in the window where the lazy reduction
/// of mul_small leaves a value in [p, 2^64)
fn solved_mul_small() -> BoxedStrategy<(Src, u32)> {
    (2u32..=u32::MAX, any::<u32>(), 0u64..4).prop_map(|(k, h, d)| {
        let p = F64.p;
        let h = (h % k) as u128; // high limb of the product, < k
        let z = h * ((1u128 << 32) - 1);
        // want  s_lo in [p - z, 2^64 - z)  with s = h*2^64 + s_lo divisible by k
        let target = (h << 64) + (p - z) + d as u128;
        let a = target.div_ceil(k as u128);
        if a < p {
            (Src::Img(X(a)), k)
        } else {
            (Src::Img(X(p - 1)), k)
        }
    })
    .boxed()
}

fn exp_strategy() -> BoxedStrategy<X> {
    prop_oneof![
        2 => (0u128..20).prop_map(X),
        1 => (0u32..128).prop_map(|s| X(1u128 << s)),
        1 => (1u32..=128).prop_map(|s| X(if s == 128 { u128::MAX } else { (1u128 << s) - 1 })),
        2 => any::<u128>().prop_map(X),
        1 => any::<u64>().prop_map(|v| X(v as u128)),
    ]
    .boxed()
}

fn small_strategy() -> BoxedStrategy<u32> {
    prop_oneof![
        2 => prop::sample::select(vec![0u32, 1, 2, 3, 7, 255, 256, 65535, 65536, 0x7fff_ffff, 0x8000_0000, 0xffff_fffe, 0xffff_ffff]),
        2 => any::<u32>(),
    ]
    .boxed()
}

impl<B: Extra> SubCheck for Ops<B> {
    type Case = OpsCase;
    fn name(&self) -> String {
        format!("ops/{}", B::NAME)
    }
    fn cases(&self, tier: Tier) -> u64 {
        tier.pick(1_500_000, 30_000_000)
    }
    fn watchdog_secs(&self) -> u64 {
        10
    }
    fn rule(&self) -> String {
        "operands 1:1:1 from {boundary residues, structured/edge internal images (f64 additionally images solved to land mul_small in [p,2^64)), uniform}; non-trivial = at least one operand in a boundary class (boundary residue or targeted image); distinct by (a,b,e,small)".into()
    }
    fn required_labels(&self, _t: Tier) -> Vec<String> {
        let mut v = vec!["a=boundary-residue".to_string(), "a=uniform-residue".into(), "a=image<p".into()];
        if B::image_valid(B::FP.p) {
            v.push("a=image>=p".into());
        }
        v
    }
    fn strategy(&self, _tier: Tier) -> BoxedStrategy<OpsCase> {
        let gen = (src_strategy::<B>(), src_strategy::<B>(), exp_strategy(), small_strategy())
            .prop_map(|(a, b, e, small)| OpsCase { a, b, e, small });
        if B::NAME == "f64" {
            prop_oneof![
                4 => gen,
                1 => (solved_mul_small(), src_strategy::<B>(), exp_strategy())
                    .prop_map(|((a, small), b, e)| OpsCase { a, b, e, small }),
            ]
            .boxed()
        } else {
            gen.boxed()
        }
    }
    fn check(&self, c: &OpsCase, obs: &mut Obs) -> CheckResult {
        let fp = B::FP;
        let (x, y): (B, B) = (realise(&c.a), realise(&c.b));
        let (mx, my) = (model_of::<B>(&c.a), model_of::<B>(&c.b));
        obs.label(format!("a={}", src_class::<B>(&c.a)));
        obs.nontrivial_if(vf_repo::is_boundary::<B>(&c.a) || vf_repo::is_boundary::<B>(&c.b));
        if mx == 0 && x.image() != 0 {
            obs.label("zero-with-nonzero-image");
        }

        check_elem(&x, mx, "operand", obs)?;
        check_elem(&y, my, "operand", obs)?;
        check_elem(&(x + y), fp.add(mx, my), "add", obs)?;
        check_elem(&(x - y), fp.sub(mx, my), "sub", obs)?;
        check_elem(&(x * y), fp.mul(mx, my), "mul", obs)?;
        check_elem(&(-x), fp.neg(mx), "neg", obs)?;
        check_elem(&x.double(), fp.add(mx, mx), "double", obs)?;
        check_elem(&x.square(), fp.mul(mx, mx), "square", obs)?;
        check_elem(&x.cube(), fp.mul(fp.mul(mx, mx), mx), "cube", obs)?;
        check_elem(&x.conjugate(), mx, "conjugate", obs)?;
        // inversion: zero maps to zero, otherwise x * inv(x) = 1 and equals the Fermat inverse
        let ix = x.inv();
        check_elem(&ix, fp.inv(mx), "inv", obs)?;
        if mx == 0 {
            obs.label("inv(0)");
        }
        check_elem(&(x / y), fp.div(mx, my), "div", obs)?;
        // assign forms
        let mut t = x;
        t += y;
        check_elem(&t, fp.add(mx, my), "add_assign", obs)?;
        t = x;
        t -= y;
        check_elem(&t, fp.sub(mx, my), "sub_assign", obs)?;
        t = x;
        t *= y;
        check_elem(&t, fp.mul(mx, my), "mul_assign", obs)?;
        t = x;
        t /= y;
        check_elem(&t, fp.div(mx, my), "div_assign", obs)?;
        // exponentiation
        let e = if B::pi_bits() == 64 { c.e.0 & (u64::MAX as u128) } else { c.e.0 };
        let want = fp.pow(mx, e);
        check_elem(&x.exp(B::pi(e)), want, "exp", obs)?;
        check_elem(&x.exp_vartime(B::pi(e)), want, "exp_vartime", obs)?;
        // exponents that are multiples of the group order (and their neighbours), as far as the exponent type
        // reaches, for the operand and for zero: a reduction of the exponent modulo p - 1 is exact for every base but 0
        let limit: u128 = if B::pi_bits() == 64 { u64::MAX as u128 } else { u128::MAX };
        for k in 1..=4u128 {
            let Some(ek) = (fp.p - 1).checked_mul(k).filter(|v| *v <= limit) else { break };
            for e in [ek - 1, ek, ek.saturating_add(1).min(limit)] {
                check_elem(&x.exp(B::pi(e)), fp.pow(mx, e), "exp-multiple-of-order", obs)?;
                check_elem(&x.exp_vartime(B::pi(e)), fp.pow(mx, e), "exp_vartime-multiple-of-order", obs)?;
                check_elem(&B::ZERO.exp(B::pi(e)), 0, "exp-zero-base", obs)?;
                check_elem(&B::ZERO.exp_vartime(B::pi(e)), 0, "exp_vartime-zero-base", obs)?;
            }
        }
        check_elem(&B::ZERO.exp(B::pi(0)), 1, "exp-zero-base-zero-exponent", obs)?;
        // equality is equality of residues
        ensure!((x == y) == (mx == my), "eq/operands", "{}: (a == b) is {} but residues are {mx} and {my}", B::NAME, x == y);
        // conversions from small integers
        check_elem(&B::from(c.small), (c.small as u128) % fp.p, "from_u32", obs)?;
        check_elem(&B::from(c.small as u16), (c.small as u16 as u128) % fp.p, "from_u16", obs)?;
        check_elem(&B::from(c.small as u8), c.small as u8 as u128, "from_u8", obs)?;
        // TryFrom<u64>/<u128>/bytes accept exactly the integers below p
        for cand in [c.e.0, mx, fp.p - 1, fp.p, fp.p + 1, c.e.0 % fp.p, u128::MAX >> (128 - fp.elem_bytes * 8)] {
            let r128 = B::try_from(cand);
            ensure!(
                r128.is_ok() == (cand < fp.p),
                "try_from_u128/accepts",
                "{}: TryFrom<u128>({cand}) is_ok = {}",
                B::NAME,
                r128.is_ok()
            );
            if let Ok(v) = r128 {
                check_elem(&v, cand, "try_from_u128", obs)?;
            }
            if cand <= u64::MAX as u128 {
                let r64 = B::try_from(cand as u64);
                ensure!(r64.is_ok() == (cand < fp.p), "try_from_u64/accepts", "{}: TryFrom<u64>({cand})", B::NAME);
                if let Ok(v) = r64 {
                    check_elem(&v, cand, "try_from_u64", obs)?;
                }
            }
            if cand >> (fp.elem_bytes * 8 - 1) >> 1 == 0 {
                let bytes = &cand.to_le_bytes()[..fp.elem_bytes];
                let rb = B::try_from(bytes);
                ensure!(rb.is_ok() == (cand < fp.p), "try_from_bytes/accepts", "{}: TryFrom<&[u8]>({cand})", B::NAME);
                if let Ok(v) = rb {
                    check_elem(&v, cand, "try_from_bytes", obs)?;
                }
                let rd = B::read_from(&mut SliceReader::new(bytes));
                ensure!(rd.is_ok() == (cand < fp.p), "read_from/accepts", "{}: Deserializable({cand})", B::NAME);
                if let Ok(v) = rd {
                    check_elem(&v, cand, "read_from", obs)?;
                }
                let rr = B::from_random_bytes(bytes);
                ensure!(rr.is_some() == (cand < fp.p), "from_random_bytes/accepts", "{}: from_random_bytes({cand})", B::NAME);
            }
        }
        // wrong lengths are refused
        let eb = fp.elem_bytes;
        let long = vec![0u8; eb + 1];
        ensure!(B::try_from(&long[..eb - 1]).is_err(), "try_from_bytes/short", "short slice accepted");
        ensure!(B::try_from(&long[..]).is_err(), "try_from_bytes/long", "long slice accepted");
        // serialization round trip + zero-copy views
        let back = B::read_from_bytes(&x.to_bytes()).map_err(|e| Fail::new("roundtrip/err", format!("{e}")))?;
        check_elem(&back, mx, "roundtrip", obs)?;
        let pair = [x, y];
        let raw = B::elements_as_bytes(&pair);
        ensure!(raw.len() == 2 * eb, "elements_as_bytes/len", "wrong length");
        let view = unsafe { B::bytes_as_elements(raw) }.map_err(|e| Fail::new("bytes_as_elements/err", format!("{e}")))?;
        ensure!(view.len() == 2 && view[0] == x && view[1] == y, "bytes_as_elements/value", "zero-copy view changed values");
        ensure!(unsafe { B::bytes_as_elements(&raw[..raw.len() - 1]) }.is_err(), "bytes_as_elements/len", "ragged length accepted");
        ensure!(B::slice_as_base_elements(&pair) == &pair[..], "slice_as_base", "identity view");
        // integer views
        ensure!(x.base_element(0) == x, "base_element", "base_element(0)");
        B::extras(x, mx, c.small, obs)
    }
}

// HISTORIES (representation invariant)
// ================================================================================================

#[derive(Serialize, Deserialize, Clone, Debug)]
pub enum Op {
    Add(u8, u8, u8),
    Sub(u8, u8, u8),
    Mul(u8, u8, u8),
    Div(u8, u8, u8),
    Neg(u8, u8),
    Double(u8, u8),
    Square(u8, u8),
    Cube(u8, u8),
    Inv(u8, u8),
    Exp(u8, u8, X),
    MulSmall(u8, u8, u32),
    Roundtrip(u8, u8),
    Load(u8, Src),
}

#[derive(Serialize, Deserialize, Clone, Debug)]
pub struct HistCase {
    pub init: Vec<Src>,
    pub ops: Vec<Op>,
}

pub struct Hist<B>(PhantomData<B>);
impl<B> Hist<B> {
    pub fn new() -> Self {
        Hist(PhantomData)
    }
}

const REGS: u8 = 4;

fn op_strategy<B: Extra>() -> BoxedStrategy<Op> {
    let r = || 0u8..REGS;
    prop_oneof![
        4 => (r(), r(), r()).prop_map(|(a, b, c)| Op::Add(a, b, c)),
        4 => (r(), r(), r()).prop_map(|(a, b, c)| Op::Sub(a, b, c)),
        3 => (r(), r(), r()).prop_map(|(a, b, c)| Op::Mul(a, b, c)),
        1 => (r(), r(), r()).prop_map(|(a, b, c)| Op::Div(a, b, c)),
        2 => (r(), r()).prop_map(|(a, c)| Op::Neg(a, c)),
        2 => (r(), r()).prop_map(|(a, c)| Op::Double(a, c)),
        1 => (r(), r()).prop_map(|(a, c)| Op::Square(a, c)),
        1 => (r(), r()).prop_map(|(a, c)| Op::Cube(a, c)),
        2 => (r(), r()).prop_map(|(a, c)| Op::Inv(a, c)),
        1 => (r(), r(), exp_strategy()).prop_map(|(a, c, e)| Op::Exp(a, c, e)),
        2 => (r(), r(), small_strategy()).prop_map(|(a, c, k)| Op::MulSmall(a, c, k)),
        1 => (r(), r()).prop_map(|(a, c)| Op::Roundtrip(a, c)),
        1 => (r(), src_strategy::<B>()).prop_map(|(c, s)| Op::Load(c, s)),
    ]
    .boxed()
}

impl<B: Extra> SubCheck for Hist<B> {
    type Case = HistCase;
    fn name(&self) -> String {
        format!("history/{}", B::NAME)
    }
    fn cases(&self, tier: Tier) -> u64 {
        tier.pick(200_000, 5_000_000)
    }
    fn watchdog_secs(&self) -> u64 {
        10
    }
    fn rule(&self) -> String {
        "sequences of 1..40 public operations over 4 registers mirrored by integer residues; after every step every observable of the written register is compared with the model and all register pairs are compared for (a==b) <=> equal residues; non-trivial = some register held a residue through a non-canonical/edge internal image, or zero/p-1 was reached by computation; distinct by whole sequence".into()
    }
    fn strategy(&self, _tier: Tier) -> BoxedStrategy<HistCase> {
        (prop::collection::vec(src_strategy::<B>(), REGS as usize), prop::collection::vec(op_strategy::<B>(), 1..40))
            .prop_map(|(init, ops)| HistCase { init, ops })
            .boxed()
    }
    fn check(&self, c: &HistCase, obs: &mut Obs) -> CheckResult {
        let fp = B::FP;
        let mut regs: Vec<B> = c.init.iter().map(realise::<B>).collect();
        let mut model: Vec<u128> = c.init.iter().map(model_of::<B>).collect();
        while regs.len() < REGS as usize {
            regs.push(B::ZERO);
            model.push(0);
        }
        let mut interesting = c.init.iter().any(vf_repo::is_boundary::<B>);
        for (step, op) in c.ops.iter().enumerate() {
            let (dst, val, m, name): (u8, B, u128, &str) = match op {
                Op::Add(a, b, d) => (*d, regs[*a as usize] + regs[*b as usize], fp.add(model[*a as usize], model[*b as usize]), "add"),
                Op::Sub(a, b, d) => (*d, regs[*a as usize] - regs[*b as usize], fp.sub(model[*a as usize], model[*b as usize]), "sub"),
                Op::Mul(a, b, d) => (*d, regs[*a as usize] * regs[*b as usize], fp.mul(model[*a as usize], model[*b as usize]), "mul"),
                Op::Div(a, b, d) => (*d, regs[*a as usize] / regs[*b as usize], fp.div(model[*a as usize], model[*b as usize]), "div"),
                Op::Neg(a, d) => (*d, -regs[*a as usize], fp.neg(model[*a as usize]), "neg"),
                Op::Double(a, d) => (*d, regs[*a as usize].double(), fp.add(model[*a as usize], model[*a as usize]), "double"),
                Op::Square(a, d) => (*d, regs[*a as usize].square(), fp.mul(model[*a as usize], model[*a as usize]), "square"),
                Op::Cube(a, d) => {
                    let v = model[*a as usize];
                    (*d, regs[*a as usize].cube(), fp.mul(fp.mul(v, v), v), "cube")
                },
                Op::Inv(a, d) => (*d, regs[*a as usize].inv(), fp.inv(model[*a as usize]), "inv"),
                Op::Exp(a, d, e) => {
                    let e = if B::pi_bits() == 64 { e.0 & (u64::MAX as u128) } else { e.0 };
                    (*d, regs[*a as usize].exp(B::pi(e)), fp.pow(model[*a as usize], e), "exp")
                },
                Op::MulSmall(a, d, k) => match B::mul_small_op(regs[*a as usize], *k) {
                    Some(v) => (*d, v, fp.mul(model[*a as usize], *k as u128), "mul_small"),
                    None => (*d, regs[*a as usize] * B::from(*k), fp.mul(model[*a as usize], (*k as u128) % fp.p), "mul_u32"),
                },
                Op::Roundtrip(a, d) => {
                    let v = B::read_from_bytes(&regs[*a as usize].to_bytes())
                        .map_err(|e| Fail::new("roundtrip/err", format!("step {step}: {e}")))?;
                    (*d, v, model[*a as usize], "roundtrip")
                },
                Op::Load(d, s) => {
                    interesting |= vf_repo::is_boundary::<B>(s);
                    (*d, realise::<B>(s), model_of::<B>(s), "load")
                },
            };
            let d = dst as usize;
            regs[d] = val;
            model[d] = m;
            if m == 0 || m == fp.p - 1 {
                interesting = true;
            }
            let img = val.image();
            if img >= fp.p {
                obs.label("reached-image>=p");
                interesting = true;
            }
            if m == 0 && img != 0 {
                obs.label("reached-zero-with-nonzero-image");
            }
            check_elem(&val, m, name, obs).map_err(|f| Fail::new(f.key, format!("step {step} ({op:?}): {}", f.msg)))?;
            for i in 0..REGS as usize {
                for j in 0..REGS as usize {
                    obs.comparisons += 1;
                    ensure!(
                        (regs[i] == regs[j]) == (model[i] == model[j]),
                        format!("{name}/eq-registers"),
                        "{}: after step {step} ({op:?}): r{i} == r{j} is {} but residues are {} and {} (images {:#x}, {:#x})",
                        B::NAME,
                        regs[i] == regs[j],
                        model[i],
                        model[j],
                        regs[i].image(),
                        regs[j].image()
                    );
                    if model[i] == model[j] {
                        ensure!(
                            regs[i].to_bytes() == regs[j].to_bytes() && format!("{}", regs[i]) == format!("{}", regs[j]),
                            format!("{name}/same-residue-same-serialization"),
                            "{}: equal residues serialize differently",
                            B::NAME
                        );
                    }
                }
            }
        }
        obs.nontrivial_if(interesting);
        obs.label(format!("len={}", if c.ops.len() < 10 { "1-9" } else if c.ops.len() < 25 { "10-24" } else { "25-39" }));
        Ok(())
    }
}

// CONSTANTS
// ================================================================================================

#[derive(Serialize, Deserialize, Clone, Debug)]
pub struct ConstCase {
    pub field: String,
    pub what: String,
    pub arg: u64,
}

fn prime_factors(fp: Fp) -> Vec<u128> {
    match fp.name {
        "f62" => vec![2, 13, 17, 37957],
        "f64" => vec![2, 3, 5, 17, 257, 65537],
        _ => vec![2, 29, 181, 286619, 11394379, 18053749339],
    }
}

fn is_prime_small(n: u128) -> bool {
    if n < 2 {
        return false;
    }
    let mut d = 2u128;
    while d * d <= n {
        if n % d == 0 {
            return false;
        }
        d += 1;
    }
    true
}

fn const_check<B: Extra>(c: &ConstCase, obs: &mut Obs) -> CheckResult {
    let fp = B::FP;
    obs.nontrivial();
    obs.label(format!("{}:{}", c.field, c.what));
    match c.what.as_str() {
        "modulus" => {
            // the factor list is a complete factorisation of p-1 into primes (re-verified here)
            let mut rest = fp.p - 1;
            for q in prime_factors(fp) {
                ensure!(is_prime_small(q), "harness/factor", "factor {q} not prime");
                ensure!(rest % q == 0, "harness/factor", "factor {q} does not divide p-1");
                while rest % q == 0 {
                    rest /= q;
                }
            }
            ensure!(rest == 1, "harness/factor", "factorisation of p-1 incomplete");
            // Pocklington/Lucas: g^(p-1) = 1 and g^((p-1)/q) != 1 for all q  => p prime and g primitive
            let g = B::GENERATOR.to_u128();
            ensure!(fp.pow(g, fp.p - 1) == 1, "generator/fermat", "g^(p-1) != 1");
            for q in prime_factors(fp) {
                ensure!(fp.pow(g, (fp.p - 1) / q) != 1, "generator/order", "GENERATOR is not primitive: g^((p-1)/{q}) = 1");
            }
            ensure!(g == fp.generator, "generator/documented", "GENERATOR {g} differs from the documented one");
            let m: u128 = B::pi_to_u128(B::MODULUS);
            ensure!(m == fp.p, "modulus/value", "MODULUS = {m}");
            ensure!(B::MODULUS_BITS == fp.bits, "modulus/bits", "MODULUS_BITS");
            ensure!(B::get_modulus_le_bytes() == fp.p.to_le_bytes()[..fp.elem_bytes].to_vec(), "modulus/bytes", "get_modulus_le_bytes");
            ensure!(B::ELEMENT_BYTES == fp.elem_bytes, "modulus/elem-bytes", "ELEMENT_BYTES");
            ensure!(B::ZERO.to_u128() == 0 && B::ONE.to_u128() == 1, "zero-one", "ZERO/ONE");
            ensure!(B::EXTENSION_DEGREE == 1, "ext-degree", "EXTENSION_DEGREE");
            ensure!(B::IS_CANONICAL == (fp.name == "f128"), "is-canonical", "IS_CANONICAL");
            check_elem(&B::ZERO, 0, "ZERO", obs)?;
            check_elem(&B::ONE, 1, "ONE", obs)?;
        },
        "two-adicity" => {
            let s = B::TWO_ADICITY;
            ensure!(s == fp.two_adicity, "two-adicity/value", "TWO_ADICITY = {s}");
            let k = (fp.p - 1) >> s;
            ensure!(k & 1 == 1 && (k << s) + 1 == fp.p, "two-adicity/def", "p != k*2^s+1 with k odd");
            let w = B::TWO_ADIC_ROOT_OF_UNITY.to_u128();
            ensure!(fp.pow(w, 1u128 << s) == 1, "root/order", "root^(2^s) != 1");
            ensure!(fp.pow(w, 1u128 << (s - 1)) != 1, "root/primitive", "root^(2^(s-1)) == 1");
            if fp.name != "f64" {
                // documented as GENERATOR^k for f62 and f128 (f64 documents a different, specially chosen root)
                ensure!(w == fp.pow(fp.generator, k), "root/documented", "root != g^k");
            } else {
                // documented: the generator of the domain of size 64 is 8
                ensure!(fp.pow(w, 1u128 << (s - 6)) == 8, "root/documented", "64th root of unity is not 8");
            }
        },
        "root-of-unity" => {
            let n = c.arg as u32;
            let r = B::get_root_of_unity(n);
            let w = B::TWO_ADIC_ROOT_OF_UNITY.to_u128();
            let want = fp.pow(w, 1u128 << (fp.two_adicity - n));
            check_elem(&r, want, "get_root_of_unity", obs)?;
            ensure!(fp.pow(want, 1u128 << n) == 1 && fp.pow(want, 1u128 << (n - 1)) != 1, "root-of-unity/order", "order of root {n} is not 2^{n}");
        },
        "root-of-unity-panics" => {
            // documented panics: n = 0 and n > TWO_ADICITY
            let n = c.arg as u32;
            let r = vf_core::catch(|| B::get_root_of_unity(n));
            ensure!(r.is_err(), "root-of-unity/doc-panic", "get_root_of_unity({n}) must panic as documented");
        },
        "padding" => {
            // from_bytes_with_padding: shorter slices are zero padded
            let len = c.arg as usize;
            let bytes: Vec<u8> = (0..len).map(|i| (i as u8).wrapping_mul(37).wrapping_add(11)).collect();
            let mut buf = [0u8; 32];
            buf[..len].copy_from_slice(&bytes);
            let v = u128::from_le_bytes(buf[..16].try_into().unwrap());
            let r = vf_core::catch(|| B::from_bytes_with_padding(&bytes));
            if len < fp.elem_bytes && v < fp.p {
                let r = r.map_err(|p| Fail::new("padding/panic", format!("panicked: {}", p.msg)))?;
                check_elem(&r, v, "from_bytes_with_padding", obs)?;
            } else {
                ensure!(r.is_err(), "padding/doc-panic", "documented panic missing for len {len}");
            }
        },
        other => return Err(Fail::new("harness/unknown", other.to_string())),
    }
    Ok(())
}

fn const_cases<B: Extra>() -> Vec<ConstCase> {
    let f = B::NAME.to_string();
    let mut v = vec![
        ConstCase { field: f.clone(), what: "modulus".into(), arg: 0 },
        ConstCase { field: f.clone(), what: "two-adicity".into(), arg: 0 },
    ];
    for n in 1..=B::FP.two_adicity {
        v.push(ConstCase { field: f.clone(), what: "root-of-unity".into(), arg: n as u64 });
    }
    v.push(ConstCase { field: f.clone(), what: "root-of-unity-panics".into(), arg: 0 });
    v.push(ConstCase { field: f.clone(), what: "root-of-unity-panics".into(), arg: B::FP.two_adicity as u64 + 1 });
    for len in 0..=B::FP.elem_bytes + 1 {
        v.push(ConstCase { field: f.clone(), what: "padding".into(), arg: len as u64 });
    }
    v
}

pub fn run(run: &mut Run) {
    run.assume("reference = integer arithmetic on u128 (256-bit products folded through p = 2^128 - c; cross-checked against num-bigint at start-up)");
    if let Err(e) = vf_ref::field::selfcheck() {
        run.inconclusive(format!("reference self-check failed: {e}"));
        return;
    }
    let mut cases = const_cases::<B62>();
    cases.extend(const_cases::<B64>());
    cases.extend(const_cases::<B128>());
    run.enumerate(
        "constants",
        "every published constant of the three fields against its defining equation (complete list: modulus/generator primitivity via the full factorisation of p-1, two-adicity, the root of unity of every order 2^1..2^s, documented panics, zero padding of short byte strings); all cases non-trivial",
        true,
        cases.into_iter(),
        |c: &ConstCase, obs: &mut Obs| match c.field.as_str() {
            "f62" => const_check::<B62>(c, obs),
            "f64" => const_check::<B64>(c, obs),
            _ => const_check::<B128>(c, obs),
        },
    );
    run.sub(&Ops::<B62>::new());
    run.sub(&Ops::<B64>::new());
    run.sub(&Ops::<B128>::new());
    run.sub(&Hist::<B62>::new());
    run.sub(&Hist::<B64>::new());
    run.sub(&Hist::<B128>::new());
}
