//! vf-repo: adapters between /repo's field types and the reference models, plus the shared operand
//! generators (boundary residues, structured internal images, uniform).

use proptest::prelude::*;
use serde::{Deserialize, Serialize};
use vf_core::X;
pub use vf_ref::{El, Field, Fp, F128, F62, F64};
use winter_math::fields::{f128, f62, f64, CubeExtension, QuadExtension};
use winter_math::{ExtensibleField, FieldElement, StarkField};
use winter_utils::AsBytes;

pub type B62 = f62::BaseElement;
pub type B64 = f64::BaseElement;
pub type B128 = f128::BaseElement;
pub type Q<B> = QuadExtension<B>;
pub type C<B> = CubeExtension<B>;

/// Adapter for a base field of /repo.
pub trait FA: StarkField + ExtensibleField<2> + ExtensibleField<3> + 'static {
    const FP: Fp;
    const NAME: &'static str;
    /// v must be < p
    fn from_u128(v: u128) -> Self;
    fn to_u128(&self) -> u128;
    /// exponent conversion (caller keeps e within the integer width)
    fn pi(e: u128) -> Self::PositiveInteger;
    fn pi_bits() -> u32;
    /// is `img` a valid internal image by the documented representation invariant
    fn image_valid(img: u128) -> bool;
    /// element whose raw internal image is `img` (image_valid(img) must hold); built through public
    /// API only (f64: from_mont, f62: bytes_as_elements, f128: canonical)
    fn from_image(img: u128) -> Self;
    /// raw internal image, observed through AsBytes
    fn image(&self) -> u128 {
        let b = self.as_bytes();
        let mut buf = [0u8; 16];
        buf[..b.len()].copy_from_slice(b);
        u128::from_le_bytes(buf)
    }
    /// is the third-degree extension implemented
    fn cubic_supported() -> bool {
        <Self as ExtensibleField<3>>::is_supported()
    }
}

impl FA for B62 {
    const FP: Fp = F62;
    const NAME: &'static str = "f62";
    fn from_u128(v: u128) -> Self {
        Self::try_from(v).expect("residue below modulus")
    }
    fn to_u128(&self) -> u128 {
        self.as_int() as u128
    }
    fn pi(e: u128) -> u64 {
        e as u64
    }
    fn pi_bits() -> u32 {
        64
    }
    fn image_valid(img: u128) -> bool {
        // "Internal values are stored in Montgomery representation and can be in the range [0; 2M)"
        img < 2 * F62.p
    }
    fn from_image(img: u128) -> Self {
        assert!(Self::image_valid(img));
        let raw = [img as u64];
        let bytes: &[u8] = unsafe { std::slice::from_raw_parts(raw.as_ptr() as *const u8, 8) };
        let els = unsafe { Self::bytes_as_elements(bytes) }.expect("aligned");
        els[0]
    }
}

impl FA for B64 {
    const FP: Fp = F64;
    const NAME: &'static str = "f64";
    fn from_u128(v: u128) -> Self {
        Self::try_from(v).expect("residue below modulus")
    }
    fn to_u128(&self) -> u128 {
        self.as_int() as u128
    }
    fn pi(e: u128) -> u64 {
        e as u64
    }
    fn pi_bits() -> u32 {
        64
    }
    fn image_valid(img: u128) -> bool {
        // "the internal values are always in the range [0, M)"
        img < F64.p
    }
    fn from_image(img: u128) -> Self {
        assert!(Self::image_valid(img));
        Self::from_mont(img as u64)
    }
}

impl FA for B128 {
    const FP: Fp = F128;
    const NAME: &'static str = "f128";
    fn from_u128(v: u128) -> Self {
        Self::try_from(v).expect("residue below modulus")
    }
    fn to_u128(&self) -> u128 {
        self.as_int()
    }
    fn pi(e: u128) -> u128 {
        e
    }
    fn pi_bits() -> u32 {
        128
    }
    fn image_valid(img: u128) -> bool {
        img < F128.p
    }
    fn from_image(img: u128) -> Self {
        Self::from_u128(img)
    }
}

/// converts any /repo field element (base or extension) to the reference representation
pub fn to_el<E: FieldElement>(e: &E) -> El
where
    E::BaseField: FA,
{
    let mut r = [0u128; 3];
    for (i, c) in r.iter_mut().enumerate().take(E::EXTENSION_DEGREE) {
        *c = e.base_element(i).to_u128();
    }
    r
}

/// builds a /repo element from reference coefficients (all < p)
pub fn from_el<E: FieldElement>(x: &El) -> E
where
    E::BaseField: FA,
{
    let b: Vec<E::BaseField> = (0..E::EXTENSION_DEGREE).map(|i| E::BaseField::from_u128(x[i])).collect();
    E::slice_from_base_elements(&b)[0]
}

pub fn ref_field<E: FieldElement>() -> Field
where
    E::BaseField: FA,
{
    Field::ext(E::BaseField::FP, E::EXTENSION_DEGREE)
}

// OPERAND SOURCES
// ================================================================================================

/// Where an operand comes from: a residue (converted through the public integer constructor) or a
/// raw internal image (valid by the documented invariant, built through public API).
#[derive(Serialize, Deserialize, Clone, Debug, PartialEq, Eq, Hash)]
pub enum Src {
    Res(X),
    Img(X),
}

pub fn realise<B: FA>(s: &Src) -> B {
    match s {
        Src::Res(X(v)) => B::from_u128(*v % B::FP.p),
        Src::Img(X(m)) => {
            if B::image_valid(*m) {
                B::from_image(*m)
            } else {
                B::from_u128(*m % B::FP.p)
            }
        },
    }
}

/// the boundary residues named by the property (reduced mod p, de-duplicated)
pub fn boundary_residues(fp: Fp) -> Vec<u128> {
    let p = fp.p;
    let mut v: Vec<u128> = vec![0, 1, 2, 3, 7, p - 1, p - 2, p - 3, (p - 1) / 2, (p + 1) / 2, (p - 1) / 2 - 1];
    for k in 0..3u128 {
        v.push(((1u128 << 32) + k) % p);
        v.push(((1u128 << 32) - 1 - k) % p);
        v.push(((1u128 << 63) + k) % p);
        v.push(((1u128 << 63) - 1 - k) % p);
        v.push(((1u128 << 64) - (1u128 << 32) + k) % p);
        v.push(((1u128 << 64) - (1u128 << 32) - 1 - k) % p);
        v.push(((1u128 << 62) + k) % p);
        v.push(((1u128 << 62) - 1 - k) % p);
        v.push(((1u128 << 64) - 1 - k) % p);
        v.push(((1u128 << 31) + k) % p);
        v.push((p - (1u128 << 32) + k) % p);
        v.push((p - (1u128 << 32) - 1 - k) % p);
    }
    v.push(((1u128 << fp.bits.min(127)) - 1) % p);
    v.push(u128::MAX % p);
    v.push((1u128 << 16) % p);
    v.push((1u128 << 48) % p);
    if fp.bits > 64 {
        v.push((1u128 << 64) % p);
        v.push((1u128 << 127) % p);
        v.push(((1u128 << 127) - 1) % p);
        v.push((1u128 << 96) % p);
    }
    let mut seen = std::collections::BTreeSet::new();
    v.retain(|x| seen.insert(*x));
    v
}

/// structured internal images: every combination of "interesting" 32-bit limbs
pub fn pattern_images(fp: Fp) -> Vec<u128> {
    let limbs: [u128; 8] = [0, 1, 2, 0x7fff_ffff, 0x8000_0000, 0xffff_fffe, 0xffff_ffff, 0x3fff_ffff];
    let nl = (fp.elem_bytes / 4).max(2);
    let mut out = vec![];
    let total = limbs.len().pow(nl.min(2) as u32);
    for idx in 0..total {
        let hi = limbs[idx / limbs.len()];
        let lo = limbs[idx % limbs.len()];
        if nl == 2 {
            out.push((hi << 32) | lo);
        } else {
            // 128-bit: spread (hi, lo) patterns over the four limbs in a few layouts
            out.push((hi << 96) | (lo << 64) | (hi << 32) | lo);
            out.push((hi << 96) | (0xffff_ffffu128 << 64) | lo);
            out.push((hi << 96) | lo);
            out.push((lo << 64) | (hi << 32) | lo);
        }
    }
    out.sort();
    out.dedup();
    out
}

fn below(v: u128, bound: u128) -> u128 {
    v % bound
}

/// operand strategy mixing boundary residues, structured images near the limits of the documented
/// representation range, and uniform residues (1:1:1).
pub fn src_strategy<B: FA>() -> BoxedStrategy<Src> {
    let fp = B::FP;
    let bl = boundary_residues(fp);
    let pats: Vec<u128> = pattern_images(fp).into_iter().filter(|m| B::image_valid(*m)).collect();
    let img_hi: u128 = if B::image_valid(fp.p) { 2 * fp.p } else { fp.p };
    let nb = bl.len();
    let np = pats.len();
    prop_oneof![
        3 => (0..nb).prop_map(move |i| Src::Res(X(bl[i]))),
        2 => (0..np).prop_map(move |i| Src::Img(X(pats[i]))),
        // images within 4 of the ends of the representation range and around p
        1 => (0u8..3, 0u128..4, any::<bool>()).prop_map(move |(which, k, up)| {
            let centre = match which { 0 => 0u128, 1 => fp.p, _ => img_hi };
            let m = if up { centre.saturating_add(k) } else { centre.saturating_sub(k + 1) };
            let m = if m >= img_hi { img_hi - 1 - k } else { m };
            Src::Img(X(m))
        }),
        3 => any::<u128>().prop_map(move |v| Src::Res(X(below(v, fp.p)))),
        1 => any::<u128>().prop_map(move |v| Src::Img(X(below(v, img_hi)))),
    ]
    .boxed()
}

pub fn boundary_set(fp: Fp) -> &'static std::collections::BTreeSet<u128> {
    use std::sync::OnceLock;
    static SETS: [OnceLock<std::collections::BTreeSet<u128>>; 3] = [OnceLock::new(), OnceLock::new(), OnceLock::new()];
    let i = match fp.name {
        "f62" => 0,
        "f64" => 1,
        _ => 2,
    };
    SETS[i].get_or_init(|| boundary_residues(fp).into_iter().collect())
}

/// class label of an operand for coverage measurement
pub fn src_class<B: FA>(s: &Src) -> &'static str {
    let fp = B::FP;
    match s {
        Src::Res(X(v)) => {
            if boundary_set(fp).contains(v) {
                "boundary-residue"
            } else {
                "uniform-residue"
            }
        },
        Src::Img(X(m)) => {
            if *m >= fp.p {
                "image>=p"
            } else {
                "image<p"
            }
        },
    }
}

pub fn is_boundary<B: FA>(s: &Src) -> bool {
    !matches!(src_class::<B>(s), "uniform-residue")
}

pub mod prelude {
    pub use super::{from_el, realise, ref_field, src_class, src_strategy, to_el, Src, B128, B62, B64, C, FA, Q};
    pub use vf_ref::{El, Field, Fp, F128, F62, F64};
}
