//! C18 — security estimate and acceptance policy.
//!
//! (a) conjectured estimate == the documented formula on the whole parameter lattice (synthetic
//!     proofs: `Proof::new_dummy()` with `context` replaced through `Context::new`);
//! (b) both estimates are monotone non-decreasing in queries / grinding / extension degree /
//!     collision resistance (all pairs along each axis from sampled base points), never panic and
//!     never exceed the collision resistance;
//! (c) acceptance policy on real small proofs (Fibonacci-like AIR over the three base fields).
//!
//! Oracle for (a), written from the documentation: "max security we can get for a given field size"
//! = (bits of the field the protocol runs in = base bits x extension degree) minus log2(LDE domain);
//! "security we get by executing multiple query rounds" = queries x log2(blowup) ("each additional
//! query adds roughly log2(blowup_factor) bits"); "include grinding factor contributions only for
//! proofs adequate security" (floor: 80 bits of query security); the level is one bit below the
//! smaller of the two and "cannot exceed" the hash function's collision resistance; documented upper
//! bound `num_queries * log2(blowup_factor) + grinding_factor`.

use std::marker::PhantomData;

use proptest::prelude::*;
use serde::{Deserialize, Serialize};
use vf_core::{catch, ensure, CheckResult, Fail, Obs, Run, SubCheck, Tier};
use vf_repo::prelude::*;
use winter_air::proof::{Context, Proof};
use winter_air::{
    Air, AirContext, Assertion, EvaluationFrame, FieldExtension, ProofOptions, TraceInfo, TransitionConstraintDegree,
};
use winter_crypto::hashers::{Blake3_192, Blake3_256, Rp62_248, Rp64_256, Sha3_256};
use winter_crypto::{DefaultRandomCoin, ElementHasher, Hasher, RandomCoin, RandomCoinError};
use winter_math::FieldElement;
use winter_utils::{Deserializable, Serializable};
use winterfell::matrix::ColMatrix;
use winterfell::{
    AcceptableOptions, AuxRandElements, ConstraintCompositionCoefficients, DefaultConstraintEvaluator, DefaultTraceLde,
    Prover, StarkDomain, Trace, TracePolyTable, TraceTable, VerifierError,
};

macro_rules! with_field {
    ($f:expr, $B:ident => $e:expr) => {
        match $f {
            "f62" => {
                type $B = B62;
                $e
            },
            "f64" => {
                type $B = B64;
                $e
            },
            _ => {
                type $B = B128;
                $e
            },
        }
    };
}

// HASH FUNCTIONS WITH A STATED COLLISION RESISTANCE
// ================================================================================================

/// A user-defined hash function (the `Hasher` trait is public and meant to be implemented) whose
/// stated collision resistance is `CR` bits; digests are Blake3-256's.
pub struct CrH<const CR: u32>;
type D32 = <Blake3_256<B64> as Hasher>::Digest;
impl<const CR: u32> Hasher for CrH<CR> {
    type Digest = D32;
    const COLLISION_RESISTANCE: u32 = CR;
    fn hash(bytes: &[u8]) -> D32 {
        Blake3_256::<B64>::hash(bytes)
    }
    fn merge(values: &[D32; 2]) -> D32 {
        Blake3_256::<B64>::merge(values)
    }
    fn merge_with_int(seed: D32, value: u64) -> D32 {
        Blake3_256::<B64>::merge_with_int(seed, value)
    }
}

pub const CR_MIN: u32 = 96;
pub const CR_MAX: u32 = 128;
pub const NCR: usize = (CR_MAX - CR_MIN + 1) as usize;

macro_rules! cr_impls {
    ($($cr:literal),*) => {
        /// security level for every collision resistance 96..=128 (index = cr - 96)
        fn levels_all(p: &Proof, conj: bool) -> [u32; NCR] {
            [ $( p.security_level::<CrH<$cr>>(conj) ),* ]
        }
        fn level_at(p: &Proof, conj: bool, cr: u32) -> u32 {
            match cr {
                $( $cr => p.security_level::<CrH<$cr>>(conj), )*
                _ => panic!("harness: collision resistance {cr} outside 96..=128"),
            }
        }
        fn validate_at(p: &Proof, cr: u32, acc: &AcceptableOptions) -> Result<(), VerifierError> {
            match cr {
                $( $cr => acc.validate::<CrH<$cr>>(p), )*
                _ => panic!("harness: collision resistance {cr} outside 96..=128"),
            }
        }
    };
}
cr_impls!(96, 97, 98, 99, 100, 101, 102, 103, 104, 105, 106, 107, 108, 109, 110, 111, 112, 113, 114, 115, 116, 117, 118, 119, 120, 121, 122, 123, 124, 125, 126, 127, 128);

// MODEL
// ================================================================================================

/// documented conjectured security (see module comment); all quantities as integers
pub fn conj_model(bits: u32, ext: u32, n_log: u32, b_log: u32, q: u32, g: u32, cr: u32) -> i64 {
    let field_security = (bits * ext) as i64 - (n_log + b_log) as i64;
    let mut query_security = (q * b_log) as i64;
    if query_security >= 80 {
        query_security += g as i64;
    }
    (field_security.min(query_security) - 1).min(cr as i64)
}

fn ext_of(d: u32) -> FieldExtension {
    match d {
        1 => FieldExtension::None,
        2 => FieldExtension::Quadratic,
        _ => FieldExtension::Cubic,
    }
}

static GRID_POINTS: std::sync::atomic::AtomicU64 = std::sync::atomic::AtomicU64::new(0);

const FOLDS: [usize; 4] = [2, 4, 8, 16];
const REMS: [usize; 9] = [0, 1, 3, 7, 15, 31, 63, 127, 255];

fn pfail(what: &str, p: vf_core::PanicSig) -> Fail {
    Fail::new(format!("{what}/{}", p.key()), format!("{what}: panic: {} at {}:{}", p.msg, p.file, p.line))
}

/// synthetic proof for (field, trace length 2^n_log, options); Err = the constructors refused
fn synth<B: FA>(n_log: u32, opts: ProofOptions) -> Result<Proof, vf_core::PanicSig> {
    catch(|| {
        let mut p = Proof::new_dummy();
        p.context = Context::new::<B>(TraceInfo::new(1, 1usize << n_log), opts);
        p
    })
}

// (a) CONJECTURED ESTIMATE — EXHAUSTIVE
// ================================================================================================

#[derive(Serialize, Deserialize, Clone, Debug)]
pub struct CCase {
    pub field: String,
    pub ext: u32,
    pub blowup_log: u32,
    pub trace_log: u32,
    /// 0 = rotate through all FRI option pairs along the (q, g) lattice; otherwise 1 + index of the fixed pair
    pub fri: u32,
}

fn check_conjectured<B: FA>(c: &CCase, obs: &mut Obs) -> CheckResult {
    let bits = B::FP.bits;
    let (ext, b_log, n_log) = (c.ext, c.blowup_log, c.trace_log);
    let b = 1usize << b_log;
    obs.nontrivial();
    // constructors: documented to refuse trace lengths / LDE domains above u32::MAX
    let constructible = (n_log + b_log) < 32;
    let first = synth::<B>(n_log, ProofOptions::new(1, b, 0, ext_of(ext), 2, 0));
    let mut proof = match first {
        Err(p) => {
            ensure!(!constructible, format!("constructor-refuses/{}", p.key()), "{} n=2^{n_log} b={b}: constructors refuse a documented input: {}", B::NAME, p.msg);
            obs.label("refused-by-constructor");
            return Ok(());
        },
        Ok(p) => {
            ensure!(constructible, "constructor-accepts-oversized-domain", "n=2^{n_log} b={b}: Context::new accepted an LDE domain above u32::MAX");
            p
        },
    };
    let mb = proof.context.num_modulus_bits();
    ensure!(mb == bits, "num_modulus_bits", "{}: num_modulus_bits = {mb}, modulus has {bits} bits", B::NAME);
    ensure!(proof.lde_domain_size() == (1usize << (n_log + b_log)), "lde_domain_size", "lde_domain_size = {}", proof.lde_domain_size());
    let ti = TraceInfo::new(1, 1usize << n_log);
    let mut seen = [false; 5];
    let r = catch(|| -> CheckResult {
        for q in 1..=255u32 {
            for g in 0..=32u32 {
                let fi = if c.fri == 0 { ((q * 33 + g) as usize) % (FOLDS.len() * REMS.len()) } else { (c.fri - 1) as usize };
                let (fold, rem) = (FOLDS[fi % FOLDS.len()], REMS[fi / FOLDS.len()]);
                let opts = ProofOptions::new(q as usize, b, g, ext_of(ext), fold, rem);
                proof.context = Context::new::<B>(ti.clone(), opts);
                let lv = levels_all(&proof, true);
                let bound = (q * b_log + g) as i64;
                for (i, &got) in lv.iter().enumerate() {
                    let cr = CR_MIN + i as u32;
                    let want = conj_model(bits, ext, n_log, b_log, q, g, cr);
                    obs.comparisons += 1;
                    ensure!(
                        got as i64 == want,
                        "conjectured-differs-from-documented-formula",
                        "{} ext={ext} n=2^{n_log} b={b} q={q} g={g} cr={cr} (fold {fold}, rem {rem}): security_level(conjectured) = {got}, documented formula gives {want}",
                        B::NAME
                    );
                    ensure!((got as i64) <= bound && got <= cr, "conjectured-above-documented-bound", "q={q} b={b} g={g} cr={cr}: level {got} above q*log2(b)+g = {bound} or above the collision resistance");
                }
                // which term binds (coverage only)
                let fs = (bits * ext) as i64 - (n_log + b_log) as i64;
                let qs = (q * b_log) as i64 + if q * b_log >= 80 { g as i64 } else { 0 };
                seen[if fs < qs { 0 } else { 1 }] = true;
                if q * b_log >= 80 && g > 0 {
                    seen[2] = true;
                }
                if fs.min(qs) - 1 > CR_MIN as i64 {
                    seen[3] = true;
                }
                // the policy on the same synthetic proofs: refused iff level < minimum
                if g % 8 == 0 || q % 16 == 0 {
                    for cr in [96u32, 124, 128] {
                        let level = lv[(cr - CR_MIN) as usize];
                        for s in [level, level + 1, 0, u32::MAX] {
                            let v = validate_at(&proof, cr, &AcceptableOptions::MinConjecturedSecurity(s));
                            obs.comparisons += 1;
                            match v {
                                Ok(()) => ensure!(level >= s, "policy/conjectured-below-minimum-accepted", "level {level} accepted under MinConjecturedSecurity({s})"),
                                Err(VerifierError::InsufficientConjecturedSecurity(m, l)) => {
                                    ensure!(level < s, "policy/conjectured-at-minimum-refused", "level {level} refused under MinConjecturedSecurity({s})");
                                    ensure!(m == s && l == level, "policy/error-payload", "error reports ({m},{l}) for minimum {s}, level {level}");
                                },
                                Err(e) => return Err(Fail::new("policy/unexpected-error", format!("{e}"))),
                            }
                        }
                    }
                    seen[4] = true;
                }
            }
        }
        Ok(())
    });
    match r {
        Err(p) => return Err(pfail("conjectured/panic", p)),
        Ok(r) => r?,
    }
    GRID_POINTS.fetch_add(255 * 33 * NCR as u64, std::sync::atomic::Ordering::Relaxed);
    for (i, l) in ["binding=field-size", "binding=queries", "grinding-counted", "binding=collision-resistance", "policy-checked"].iter().enumerate() {
        if seen[i] {
            obs.label(*l);
        }
    }
    // the repository's own hash functions state 96 / 124 / 128 bits
    let at = |cr: u32| level_at(&proof, true, cr);
    ensure!(
        proof.security_level::<Blake3_192<B64>>(true) == at(96)
            && proof.security_level::<Rp62_248>(true) == at(124)
            && proof.security_level::<Blake3_256<B64>>(true) == at(128)
            && proof.security_level::<Sha3_256<B64>>(true) == at(128)
            && proof.security_level::<Rp64_256>(true) == at(128),
        "repo-hashers-collision-resistance",
        "levels under the repository's hashers differ from the levels at 96/124/128 bits"
    );
    Ok(())
}

// (b) MONOTONICITY OF BOTH ESTIMATES
// ================================================================================================

#[derive(Serialize, Deserialize, Clone, Debug)]
pub struct MCase {
    pub field: String,
    pub ext: u32,
    pub blowup_log: u32,
    pub trace_log: u32,
    pub q: u32,
    pub g: u32,
    pub cr: u32,
    pub fold: usize,
    pub rem: usize,
}

pub struct Monotone {
    pub full_cr: bool,
}

fn axis_check(name: &str, est: &str, xs: &[u32], lv: &[u32], c: &MCase) -> CheckResult {
    for i in 1..lv.len() {
        // a non-decreasing sequence is exactly "all pairs ordered"
        if lv[i] < lv[i - 1] {
            return Err(Fail::new(
                format!("{est}/decreases-in-{name}"),
                format!("{est} security drops from {} to {} when {name} grows from {} to {} at base point {c:?}", lv[i - 1], lv[i], xs[i - 1], xs[i]),
            ));
        }
    }
    Ok(())
}

fn check_monotone<B: FA>(c: &MCase, tier_full_cr: bool, obs: &mut Obs) -> CheckResult {
    let bits = B::FP.bits;
    let b = 1usize << c.blowup_log;
    let n_log = c.trace_log;
    ensure!(n_log + c.blowup_log < 32 && (1..=255).contains(&c.q) && c.g <= 32 && (1..=3).contains(&c.ext), "harness/invalid-case", "outside the constructors' domain");
    let mk = |q: u32, g: u32, ext: u32| -> Result<Proof, Fail> {
        synth::<B>(n_log, ProofOptions::new(q as usize, b, g, ext_of(ext), c.fold, c.rem)).map_err(|p| pfail("constructor-refuses", p))
    };
    obs.label(format!("trace=2^{}", if n_log < 8 { "3-7" } else if n_log < 16 { "8-15" } else if n_log < 24 { "16-23" } else { "24-31" }));
    let mut nontrivial = false;
    for conj in [true, false] {
        let est = if conj { "conjectured" } else { "proven" };
        let lvl = |p: &Proof, cr: u32| -> Result<u32, Fail> { catch(|| level_at(p, conj, cr)).map_err(|p| pfail(&format!("{est}/panic"), p)) };
        // queries
        let qs: Vec<u32> = (1..=255).collect();
        let mut lv = Vec::with_capacity(255);
        for &q in &qs {
            let l = lvl(&mk(q, c.g, c.ext)?, c.cr)?;
            ensure!(l <= c.cr, format!("{est}/above-collision-resistance"), "{est} level {l} above collision resistance {} at {c:?} q={q}", c.cr);
            if conj {
                let want = conj_model(bits, c.ext, n_log, c.blowup_log, q, c.g, c.cr);
                ensure!(l as i64 == want, "conjectured-differs-from-documented-formula", "{c:?} q={q}: {l} vs documented {want}");
            }
            lv.push(l);
        }
        obs.comparisons += 255;
        axis_check("queries", est, &qs, &lv, c)?;
        let base_level = lv[(c.q - 1) as usize];
        if !conj {
            nontrivial |= lv[254] > lv[0];
            obs.label(format!("proven-level={}", if base_level == 0 { "0" } else if base_level < 64 { "1-63" } else if base_level < c.cr { "64..cr-1" } else { "cr" }));
        }
        // grinding
        let gs: Vec<u32> = (0..=32).collect();
        let mut lv = vec![];
        for &g in &gs {
            lv.push(lvl(&mk(c.q, g, c.ext)?, c.cr)?);
        }
        obs.comparisons += 33;
        axis_check("grinding", est, &gs, &lv, c)?;
        ensure!(lv[c.g as usize] == base_level, format!("{est}/not-a-function-of-parameters"), "same parameters, different levels");
        // extension degree
        let es: Vec<u32> = vec![1, 2, 3];
        let mut lv = vec![];
        for &e in &es {
            lv.push(lvl(&mk(c.q, c.g, e)?, c.cr)?);
        }
        obs.comparisons += 3;
        axis_check("extension-degree", est, &es, &lv, c)?;
        // collision resistance
        let p = mk(c.q, c.g, c.ext)?;
        let crs: Vec<u32> = if conj || tier_full_cr { (CR_MIN..=CR_MAX).collect() } else { vec![96, 97, 111, 112, 123, 124, 127, 128] };
        let lv: Vec<u32> = if crs.len() == NCR {
            catch(|| levels_all(&p, conj)).map_err(|p| pfail(&format!("{est}/panic"), p))?.to_vec()
        } else {
            let mut v = vec![];
            for &cr in &crs {
                v.push(lvl(&p, cr)?);
            }
            v
        };
        obs.comparisons += crs.len() as u64;
        axis_check("collision-resistance", est, &crs, &lv, c)?;
        for (i, &l) in lv.iter().enumerate() {
            ensure!(l <= crs[i], format!("{est}/above-collision-resistance"), "{est} level {l} above collision resistance {} at {c:?}", crs[i]);
        }
    }
    obs.nontrivial_if(nontrivial);
    Ok(())
}

impl SubCheck for Monotone {
    type Case = MCase;
    fn name(&self) -> String {
        "monotone".into()
    }
    fn cases(&self, tier: Tier) -> u64 {
        tier.pick(4_000, 60_000)
    }
    fn watchdog_secs(&self) -> u64 {
        60
    }
    fn rule(&self) -> String {
        "base points: field uniform from {f62,f64,f128}, extension 1..3, blowup 2^1..2^7, trace length 2^3..2^(31-log2 blowup) (everything Context::new accepts), queries 1..255, grinding 0..32, collision resistance 96..128, FRI folding/remainder from all admissible values; from each base point the conjectured and the proven estimate are evaluated along the whole queries axis (255 values), grinding axis (33), extension axis (3) and collision-resistance axis (33; 8 values for the proven estimate in the quick tier) and every adjacent pair (hence all pairs) must be ordered; non-trivial = the proven estimate actually moves along the queries axis (is not constant); distinct by base point".into()
    }
    fn required_labels(&self, _t: Tier) -> Vec<String> {
        vec!["trace=2^3-7".into(), "trace=2^24-31".into(), "proven-level=0".into(), "proven-level=1-63".into(), "proven-level=64..cr-1".into()]
    }
    fn strategy(&self, _tier: Tier) -> BoxedStrategy<MCase> {
        (0usize..3, 1u32..=3, 1u32..=7, 3u32..=31, 1u32..=255, 0u32..=32, CR_MIN..=CR_MAX, 0usize..4, 0usize..9)
            .prop_map(|(f, ext, bl, tl, q, g, cr, fo, re)| MCase {
                field: ["f62", "f64", "f128"][f].to_string(),
                ext,
                blowup_log: bl,
                trace_log: tl.min(31 - bl),
                q,
                g,
                cr,
                fold: FOLDS[fo],
                rem: REMS[re],
            })
            .boxed()
    }
    fn check(&self, c: &MCase, obs: &mut Obs) -> CheckResult {
        with_field!(c.field.as_str(), B => check_monotone::<B>(c, self.full_cr, obs))
    }
}

// (c) ACCEPTANCE POLICY ON REAL PROOFS
// ================================================================================================

pub struct FibAir<B: FA> {
    context: AirContext<B>,
    result: B,
}

impl<B: FA> Air for FibAir<B> {
    type BaseField = B;
    type PublicInputs = B;
    type GkrProof = ();
    type GkrVerifier = ();

    fn new(trace_info: TraceInfo, pub_inputs: B, options: ProofOptions) -> Self {
        let degrees = vec![TransitionConstraintDegree::new(1), TransitionConstraintDegree::new(1)];
        FibAir { context: AirContext::new(trace_info, degrees, 3, options), result: pub_inputs }
    }
    fn context(&self) -> &AirContext<B> {
        &self.context
    }
    fn evaluate_transition<E: FieldElement<BaseField = B>>(&self, frame: &EvaluationFrame<E>, _periodic: &[E], result: &mut [E]) {
        let current = frame.current();
        let next = frame.next();
        result[0] = next[0] - (current[0] + current[1]);
        result[1] = next[1] - (current[1] + next[0]);
    }
    fn get_assertions(&self) -> Vec<Assertion<B>> {
        let last = self.trace_length() - 1;
        vec![Assertion::single(0, 0, B::ONE), Assertion::single(1, 0, B::ONE), Assertion::single(1, last, self.result)]
    }
}

thread_local! {
    /// (number of leading seed elements to replace, their replacement): what a dishonest prover does to
    /// produce a proof that is consistent with a context it did not compute under
    static SEED_SWAP: std::cell::RefCell<Option<(usize, Vec<u128>)>> = const { std::cell::RefCell::new(None) };
}

/// DefaultRandomCoin whose seed's leading (context) elements can be swapped for others
pub struct SeedSwapCoin<H: ElementHasher>(DefaultRandomCoin<H>);

impl<B: FA, H: ElementHasher<BaseField = B>> RandomCoin for SeedSwapCoin<H> {
    type BaseField = B;
    type Hasher = H;
    fn new(seed: &[B]) -> Self {
        let swapped: Option<Vec<B>> = SEED_SWAP.with(|s| {
            s.borrow().as_ref().map(|(n, repl)| {
                let mut v: Vec<B> = repl.iter().map(|x| B::from_u128(*x)).collect();
                v.extend_from_slice(&seed[(*n).min(seed.len())..]);
                v
            })
        });
        SeedSwapCoin(DefaultRandomCoin::new(swapped.as_deref().unwrap_or(seed)))
    }
    fn reseed(&mut self, data: H::Digest) {
        self.0.reseed(data)
    }
    fn check_leading_zeros(&self, value: u64) -> u32 {
        self.0.check_leading_zeros(value)
    }
    fn draw<E: FieldElement<BaseField = B>>(&mut self) -> Result<E, RandomCoinError> {
        self.0.draw()
    }
    fn draw_integers(&mut self, num_values: usize, domain_size: usize, nonce: u64) -> Result<Vec<usize>, RandomCoinError> {
        self.0.draw_integers(num_values, domain_size, nonce)
    }
}

pub struct FibProver<B: FA, H: ElementHasher<BaseField = B>, R = DefaultRandomCoin<H>> {
    options: ProofOptions,
    _h: PhantomData<(B, H, R)>,
}

impl<B: FA, H: ElementHasher<BaseField = B> + Send + Sync, R: RandomCoin<BaseField = B, Hasher = H> + Send + Sync> Prover for FibProver<B, H, R> {
    type BaseField = B;
    type Air = FibAir<B>;
    type Trace = TraceTable<B>;
    type HashFn = H;
    type RandomCoin = R;
    type TraceLde<E: FieldElement<BaseField = B>> = DefaultTraceLde<E, H>;
    type ConstraintEvaluator<'a, E: FieldElement<BaseField = B>> = DefaultConstraintEvaluator<'a, FibAir<B>, E>;

    fn get_pub_inputs(&self, trace: &Self::Trace) -> B {
        trace.get(1, trace.length() - 1)
    }
    fn options(&self) -> &ProofOptions {
        &self.options
    }
    fn new_trace_lde<E: FieldElement<BaseField = B>>(
        &self,
        trace_info: &TraceInfo,
        main_trace: &ColMatrix<B>,
        domain: &StarkDomain<B>,
    ) -> (Self::TraceLde<E>, TracePolyTable<E>) {
        DefaultTraceLde::new(trace_info, main_trace, domain)
    }
    fn new_evaluator<'a, E: FieldElement<BaseField = B>>(
        &self,
        air: &'a FibAir<B>,
        aux_rand_elements: Option<AuxRandElements<E>>,
        composition_coefficients: ConstraintCompositionCoefficients<E>,
    ) -> Self::ConstraintEvaluator<'a, E> {
        DefaultConstraintEvaluator::new(air, aux_rand_elements, composition_coefficients)
    }
}

fn fib_trace<B: FA>(n: usize) -> TraceTable<B> {
    let mut trace = TraceTable::new(2, n);
    trace.fill(
        |state| {
            state[0] = B::ONE;
            state[1] = B::ONE;
        },
        |_, state| {
            state[0] += state[1];
            state[1] += state[0];
        },
    );
    trace
}

#[derive(Serialize, Deserialize, Clone, Debug)]
pub struct RCase {
    pub field: String,
    pub hasher: String,
    pub ext: u32,
    pub trace_log: u32,
    pub q: u32,
    pub blowup_log: u32,
    pub g: u32,
    pub fold: usize,
    pub rem: usize,
    /// which other field's modulus the tampered proof claims (index into the two other fields)
    pub other: usize,
}

/// FRI schedule the prover and verifier are documented to support: every folding divides the domain
/// exactly and the remainder keeps at least one coefficient and two evaluations
fn fri_well_formed(lde: usize, b: usize, fold: usize, rem: usize) -> bool {
    let max_rem = (rem + 1) * b;
    let mut d = lde;
    while d > max_rem {
        if d % fold != 0 || d / fold < b.max(2) {
            return false;
        }
        d /= fold;
    }
    d >= b.max(2)
}

pub struct Policy;

const HASHERS: [[&str; 3]; 3] = [["blake3_256", "blake3_192", "rp62_248"], ["blake3_256", "sha3_256", "rp64_256"], ["blake3_256", "blake3_192", "sha3_256"]];

fn documented_cr(h: &str) -> u32 {
    match h {
        "blake3_192" => 96,
        "rp62_248" => 124,
        _ => 128,
    }
}

impl SubCheck for Policy {
    type Case = RCase;
    fn name(&self) -> String {
        "policy/real-proofs".into()
    }
    fn cases(&self, tier: Tier) -> u64 {
        tier.pick(2_400, 30_000)
    }
    fn watchdog_secs(&self) -> u64 {
        60
    }
    fn rule(&self) -> String {
        "honest proofs of a 2-column Fibonacci AIR: field x hash from {f62: blake3_256, blake3_192, rp62_248; f64: blake3_256, sha3_256, rp64_256; f128: blake3_256, blake3_192, sha3_256}, extension degree among the supported ones, trace 2^3..2^6, blowup 2..32, queries 1..64 (< LDE size), grinding 0..10, FRI folding 2..16 / remainder 0..255 restricted to well-formed schedules; each proof is verified under MinConjecturedSecurity(s) and MinProvenSecurity(s) for s in {level-1, level, level+1, 0, u32::MAX}, under OptionSets containing / not containing its options (each single-field deviation), and with its context re-issued for another field's modulus and for five byte strings that are no field of the library (own modulus +2 / high bit flipped / one byte longer / one byte shorter, the one-byte modulus 3) under minimum-0, minimum-level and option-set policies, both on the honest proof and on a proof a dishonest prover computed under the forged context's seed: never Ok; non-trivial = the honest proof verifies under a policy that admits it (so every refusal observed is the policy's); distinct by whole case".into()
    }
    fn required_labels(&self, _t: Tier) -> Vec<String> {
        vec![
            "honest-proof-accepted".into(),
            "wrong-field:tried".into(),
            "conjectured>=80".into(),
            "binding=collision-resistance".into(),
            "f62".into(),
            "f64".into(),
            "f128".into(),
        ]
    }
    fn strategy(&self, _tier: Tier) -> BoxedStrategy<RCase> {
        (0usize..3, 0usize..3, 1u32..=3, 3u32..=6, 1u32..=64, 1u32..=5, 0u32..=10, 0usize..4, 0usize..9, 0usize..2)
            .prop_map(|(f, h, ext, tl, q, bl, g, fo, re, other)| {
                let field = ["f62", "f64", "f128"][f];
                let ext = if field == "f128" && ext == 3 { 2 } else { ext };
                let (n, b) = (1usize << tl, 1usize << bl);
                let q = q.min((n * b - 1) as u32);
                let (mut fold, rem) = (FOLDS[fo], REMS[re]);
                if !fri_well_formed(n * b, b, fold, rem) {
                    fold = 2; // always well formed: halving stops exactly at (rem+1)*blowup or never starts
                }
                RCase { field: field.to_string(), hasher: HASHERS[f][h].to_string(), ext, trace_log: tl, q, blowup_log: bl, g, fold, rem, other }
            })
            .boxed()
    }
    fn check(&self, c: &RCase, obs: &mut Obs) -> CheckResult {
        match (c.field.as_str(), c.hasher.as_str()) {
            ("f62", "blake3_256") => check_policy::<B62, Blake3_256<B62>>(c, obs),
            ("f62", "blake3_192") => check_policy::<B62, Blake3_192<B62>>(c, obs),
            ("f62", "rp62_248") => check_policy::<B62, Rp62_248>(c, obs),
            ("f64", "blake3_256") => check_policy::<B64, Blake3_256<B64>>(c, obs),
            ("f64", "sha3_256") => check_policy::<B64, Sha3_256<B64>>(c, obs),
            ("f64", "rp64_256") => check_policy::<B64, Rp64_256>(c, obs),
            ("f128", "blake3_256") => check_policy::<B128, Blake3_256<B128>>(c, obs),
            ("f128", "blake3_192") => check_policy::<B128, Blake3_192<B128>>(c, obs),
            ("f128", "sha3_256") => check_policy::<B128, Sha3_256<B128>>(c, obs),
            _ => Err(Fail::new("harness/invalid-case", "unknown field/hasher")),
        }
    }
}

fn err_name(e: &VerifierError) -> String {
    let s = format!("{e:?}");
    s.split(|ch: char| !ch.is_alphanumeric()).next().unwrap_or("").to_string()
}

fn check_policy<B: FA, H: ElementHasher<BaseField = B> + Send + Sync>(c: &RCase, obs: &mut Obs) -> CheckResult {
    let (n, b) = (1usize << c.trace_log, 1usize << c.blowup_log);
    ensure!(
        fri_well_formed(n * b, b, c.fold, c.rem) && (c.q as usize) < n * b && c.q >= 1 && (c.ext < 3 || B::cubic_supported()),
        "harness/invalid-case",
        "parameters outside the documented domain of the prover"
    );
    obs.label(B::NAME);
    let opts = ProofOptions::new(c.q as usize, b, c.g, ext_of(c.ext), c.fold, c.rem);
    let prover = FibProver::<B, H> { options: opts.clone(), _h: PhantomData };
    let trace = fib_trace::<B>(n);
    let result = prover.get_pub_inputs(&trace);
    let proof = match catch(|| prover.prove(trace)) {
        Ok(Ok(p)) => p,
        Ok(Err(e)) => {
            obs.label(format!("prove-failed:{e:?}").chars().take(40).collect::<String>());
            return Ok(());
        },
        Err(p) => {
            // completeness of the prover is C01's business
            obs.label(format!("prove-panicked:{}", p.key()));
            return Ok(());
        },
    };
    let ver = |p: Proof, acc: &AcceptableOptions| catch(|| winterfell::verify::<FibAir<B>, H, DefaultRandomCoin<H>>(p, result, acc));

    // levels
    let cr = documented_cr(&c.hasher);
    ensure!(H::COLLISION_RESISTANCE == cr, "collision-resistance-constant", "{} states {} bits, documented digest size implies {cr}", c.hasher, H::COLLISION_RESISTANCE);
    let lc_model = conj_model(B::FP.bits, c.ext, c.trace_log, c.blowup_log, c.q, c.g, cr);
    let lc = catch(|| proof.security_level::<H>(true)).map_err(|p| pfail("conjectured/panic", p))?;
    ensure!(lc as i64 == lc_model, "conjectured-differs-from-documented-formula", "{c:?}: honest proof reports {lc}, documented formula {lc_model}");
    let lp = catch(|| proof.security_level::<H>(false)).map_err(|p| pfail("proven/panic", p))?;
    if lc >= 80 {
        obs.label("conjectured>=80");
    }
    if lc == cr {
        obs.label("binding=collision-resistance");
    }
    obs.label(if lp == 0 { "proven=0" } else { "proven>0" });

    let mut accepted = false;
    let mut other_error = false;
    // minimum-security policies
    for conj in [true, false] {
        let level = if conj { lc } else { lp };
        let name = if conj { "conjectured" } else { "proven" };
        let mut mins = vec![level, level + 1, 0, u32::MAX, u32::MAX - 1];
        if level > 0 {
            mins.push(level - 1);
        }
        for s in mins {
            let acc = if conj { AcceptableOptions::MinConjecturedSecurity(s) } else { AcceptableOptions::MinProvenSecurity(s) };
            let r = ver(proof.clone(), &acc).map_err(|p| pfail("verify/panic", p))?;
            obs.comparisons += 1;
            let insufficient = match &r {
                Err(VerifierError::InsufficientConjecturedSecurity(m, l)) => {
                    ensure!(conj && *m == s && *l == level, "policy/error-payload", "{r:?} under {name} minimum {s}, level {level}");
                    true
                },
                Err(VerifierError::InsufficientProvenSecurity(m, l)) => {
                    ensure!(!conj && *m == s && *l == level, "policy/error-payload", "{r:?} under {name} minimum {s}, level {level}");
                    true
                },
                _ => false,
            };
            ensure!(
                insufficient == (level < s),
                if level < s { format!("policy/{name}-below-minimum-not-refused") } else { format!("policy/{name}-at-or-above-minimum-refused") },
                "{c:?}: {name} level {level}, minimum {s}: verify returned {r:?}"
            );
            match r {
                Ok(()) => accepted = true,
                Err(_) if insufficient => {},
                Err(e) => {
                    other_error = true;
                    obs.label(format!("admitted-by-policy-but:{}", err_name(&e)));
                },
            }
        }
    }
    // option sets
    let deviations: Vec<ProofOptions> = {
        let (q, g) = (c.q as usize, c.g);
        let mut v = vec![
            ProofOptions::new(if q < 255 { q + 1 } else { q - 1 }, b, g, ext_of(c.ext), c.fold, c.rem),
            ProofOptions::new(q, if b < 128 { b * 2 } else { b / 2 }, g, ext_of(c.ext), c.fold, c.rem),
            ProofOptions::new(q, b, if g < 32 { g + 1 } else { g - 1 }, ext_of(c.ext), c.fold, c.rem),
            ProofOptions::new(q, b, g, ext_of(c.ext % 3 + 1), c.fold, c.rem),
            ProofOptions::new(q, b, g, ext_of(c.ext), if c.fold < 16 { c.fold * 2 } else { 2 }, c.rem),
            ProofOptions::new(q, b, g, ext_of(c.ext), c.fold, if c.rem < 255 { c.rem * 2 + 1 } else { 127 }),
        ];
        v.rotate_left((c.q as usize + c.g as usize) % 6);
        v
    };
    let mut with = deviations.clone();
    with.insert((c.q as usize) % 7, opts.clone());
    let sets: Vec<(Vec<ProofOptions>, bool)> = vec![
        (vec![opts.clone()], true),
        (with, true),
        (deviations.clone(), false),
        (vec![], false),
        (vec![deviations[0].clone()], false),
        (vec![deviations[3].clone()], false),
    ];
    for (set, contains) in sets {
        let r = ver(proof.clone(), &AcceptableOptions::OptionSet(set)).map_err(|p| pfail("verify/panic", p))?;
        obs.comparisons += 1;
        let unacceptable = matches!(r, Err(VerifierError::UnacceptableProofOptions));
        ensure!(
            unacceptable == !contains,
            if contains { "policy/options-in-set-refused" } else { "policy/options-not-in-set-not-refused" },
            "{c:?}: option set {} the proof's options: verify returned {r:?}",
            if contains { "contains" } else { "does not contain" }
        );
        match r {
            Ok(()) => accepted = true,
            Err(VerifierError::UnacceptableProofOptions) => {},
            Err(e) => {
                other_error = true;
                obs.label(format!("admitted-by-policy-but:{}", err_name(&e)));
            },
        }
    }
    if accepted && !other_error {
        obs.label("honest-proof-accepted");
        obs.nontrivial();
    }

    // a proof whose claimed field is not the computation's: (i) one of the two other fields of the
    // library, (ii) modulus byte strings that are no field of the library at all (re-issued through
    // the context's own deserializer, as an untrusted prover would send them)
    let others: Vec<&str> = ["f62", "f64", "f128"].into_iter().filter(|f| *f != B::NAME).collect();
    let claimed = others[c.other % 2];
    let ti = proof.trace_info().clone();
    let ctx = match with_field!(claimed, O => catch(|| Context::new::<O>(ti.clone(), opts.clone()))) {
        Ok(c) => c,
        Err(p) => return Err(pfail("constructor-refuses", p)),
    };
    let mut forged_contexts: Vec<(String, Context)> = vec![(format!("the modulus of {claimed}"), ctx)];
    let own = B::FP.p.to_le_bytes()[..B::FP.elem_bytes].to_vec();
    let mut plus2 = own.clone();
    plus2[0] = plus2[0].wrapping_add(2);
    let mut top = own.clone();
    *top.last_mut().unwrap() ^= 0x40;
    let mut longer = own.clone();
    longer.push(1);
    for (what, bytes) in [("own modulus + 2", plus2), ("own modulus with a high bit flipped", top), ("own modulus with an extra byte", longer), ("the one-byte modulus 3", vec![3u8]), ("own modulus truncated", own[..own.len() - 1].to_vec())] {
        let mut raw = ti.to_bytes();
        raw.push(bytes.len() as u8);
        raw.extend_from_slice(&bytes);
        raw.extend_from_slice(&opts.to_bytes());
        match catch(|| Context::read_from_bytes(&raw)) {
            Ok(Ok(ctx)) => {
                ensure!(ctx.field_modulus_bytes() == &bytes[..] && ctx.options() == &opts, "harness/context-forgery", "context layout assumption broken");
                forged_contexts.push((what.to_string(), ctx));
            },
            Ok(Err(_)) => obs.label("wrong-field:context-refused-by-deserializer"),
            Err(_) => obs.label("wrong-field:deserializer-panic"),
        }
    }
    obs.label("wrong-field:tried");
    // the same forged contexts from a dishonest prover: the proof is computed under the seed the forged context
    // gives (context elements swapped inside the prover's coin), so everything but the claimed field is consistent
    {
        use winter_math::ToElements;
        let honest_elems: Vec<B> = ToElements::<B>::to_elements(&proof.context);
        for (what, ctx) in &forged_contexts {
            // (a claimed modulus wider than the field has no seed encoding over this field: nothing to be consistent with)
            let Ok(forged_elems) = catch(|| ToElements::<B>::to_elements(ctx).iter().map(|e| e.to_u128()).collect::<Vec<u128>>()) else {
                obs.label("wrong-field:no-seed-encoding");
                continue;
            };
            SEED_SWAP.with(|s| *s.borrow_mut() = Some((honest_elems.len(), forged_elems)));
            let dishonest = FibProver::<B, H, SeedSwapCoin<H>> { options: opts.clone(), _h: PhantomData };
            let r = catch(|| dishonest.prove(fib_trace::<B>(n)));
            SEED_SWAP.with(|s| *s.borrow_mut() = None);
            let Ok(Ok(mut p2)) = r else {
                obs.label("wrong-field:dishonest-prover-failed");
                continue;
            };
            p2.context = ctx.clone();
            obs.label("wrong-field:dishonest-prover");
            for acc in [AcceptableOptions::MinConjecturedSecurity(0), AcceptableOptions::MinProvenSecurity(0), AcceptableOptions::OptionSet(vec![opts.clone()])] {
                obs.comparisons += 1;
                if let Ok(Ok(())) = ver(p2.clone(), &acc) {
                    return Err(Fail::new(
                        "wrong-field-accepted/consistent-transcript",
                        format!("{c:?}: a proof for {} computed under the seed of a context that claims {what} was accepted with that context", B::NAME),
                    ));
                }
            }
        }
    }
    for (what, ctx) in forged_contexts {
        let mut forged = proof.clone();
        forged.context = ctx;
        let mut policies = vec![
            AcceptableOptions::MinConjecturedSecurity(0),
            AcceptableOptions::MinConjecturedSecurity(lc),
            AcceptableOptions::MinProvenSecurity(0),
            AcceptableOptions::OptionSet(vec![opts.clone()]),
        ];
        // the level the forged context claims (may itself be refused / panic for non-fields: then skipped)
        if let Ok(claimed_level) = catch(|| forged.security_level::<H>(true)) {
            policies.push(AcceptableOptions::MinConjecturedSecurity(claimed_level));
        }
        for acc in &policies {
            obs.comparisons += 1;
            match ver(forged.clone(), acc) {
                Ok(Ok(())) => {
                    return Err(Fail::new(
                        "wrong-field-accepted",
                        format!("{c:?}: proof for {} whose context claims {what} was accepted", B::NAME),
                    ))
                },
                Ok(Err(e)) => obs.label(format!("wrong-field:{}", err_name(&e))),
                // a panic is not an acceptance (hostile-input panics are C06's subject)
                Err(_) => obs.label("wrong-field:panic"),
            }
        }
    }
    Ok(())
}

// SELF-CHECK AGAINST THE REPOSITORY'S OWN TEST VECTORS
// ================================================================================================

/// the points pinned by /repo/air/src/proof/mod.rs tests (f64, 128-bit collision resistance,
/// grinding 20, folding 8, remainder 127): (ext, blowup, queries, trace_log, expected proven level)
const PROVEN_VECTORS: [(u32, usize, usize, u32, u32); 5] = [(3, 4, 80, 18, 97), (3, 8, 53, 18, 97), (3, 8, 85, 18, 128), (3, 16, 65, 18, 128), (2, 8, 85, 18, 67)];

fn selfcheck() -> Result<(), String> {
    for (ext, b, q, tl, want) in PROVEN_VECTORS {
        let p = synth::<B64>(tl, ProofOptions::new(q, b, 20, ext_of(ext), 8, 127)).map_err(|p| p.msg)?;
        let got = catch(|| p.security_level::<Blake3_256<B64>>(false)).map_err(|p| p.msg)?;
        if got != want {
            return Err(format!("proven security at the repository's own test point (ext {ext}, blowup {b}, queries {q}, 2^{tl}) is {got} through the harness, the repository's test expects {want}"));
        }
        if level_at(&p, false, 128) != want {
            return Err("custom 128-bit hasher disagrees with Blake3_256".into());
        }
    }
    // model sanity: hand-computed points of the documented formula
    // f64, no extension, n=2^10, b=8, q=27 (81 bits of query security), g=16: min(64-13, 81+16)-1 = 50
    if conj_model(64, 1, 10, 3, 27, 16, 128) != 50 || conj_model(128, 1, 10, 3, 26, 16, 128) != 77 || conj_model(128, 1, 10, 3, 27, 16, 96) != 96 {
        return Err("conjectured model self-test".into());
    }
    Ok(())
}

// DRIVER
// ================================================================================================

pub fn run(run: &mut Run) {
    run.assume("documented conjectured formula as transcribed in the module comment of vf-air/src/c18.rs (field bits x extension degree - log2(LDE size); queries x log2(blowup), plus grinding once that reaches 80; minus one; capped by the collision resistance)");
    run.assume("collision resistances other than 96/124/128 are exercised through a user-defined Hasher (public trait) with the stated constant");
    run.assume("the proven estimate has no independent oracle: only monotonicity, the collision-resistance cap, absence of panics and the repository's own five pinned values are checked");
    if let Err(e) = selfcheck() {
        run.inconclusive(format!("self-check failed: {e}"));
        return;
    }
    let tier = run.tier;
    let mut cases = vec![];
    for f in ["f62", "f64", "f128"] {
        for ext in 1..=3u32 {
            for bl in 1..=7u32 {
                for tl in 3..=32u32 {
                    // quick: FRI option pairs rotate along the lattice; thorough: additionally every pair fixed
                    let fris: Vec<u32> = tier.pick(vec![0], (0..=(FOLDS.len() * REMS.len()) as u32).collect());
                    for fri in fris {
                        if fri != 0 && tl + bl >= 32 {
                            continue;
                        }
                        cases.push(CCase { field: f.to_string(), ext, blowup_log: bl, trace_log: tl, fri });
                    }
                }
            }
        }
    }
    let rule = format!(
        "one enumerated case = (field in {{f62,f64,f128}}, extension 1..3, blowup 2^1..2^7, trace length 2^3..2^32, FRI mode); inside each case the complete grid queries 1..255 x grinding 0..32 x collision resistance 96..128 is compared with the documented formula and bound (oracle_comparisons / conjectured_grid_points count the grid points); trace lengths / LDE sizes above u32::MAX must be refused by Context::new (documented) and are outside the claim; {}; the minimum-security policy (AcceptableOptions::validate) is checked on a sub-lattice at s in {{level, level+1, 0, u32::MAX}}; every case non-trivial; distinct by case",
        tier.pick(
            "FRI mode: the 36 folding x remainder pairs rotate along the (queries, grinding) grid, i.e. the space queries x blowup x grinding x extension x trace length x field x collision resistance is complete, the FRI dimension is only rotated",
            "FRI mode: rotation along the grid plus each of the 36 folding x remainder pairs held fixed over the whole grid, i.e. the full product including FRI options is complete"
        )
    );
    run.enumerate(
        "conjectured/lattice",
        &rule,
        true,
        cases.into_iter(),
        |c: &CCase, obs: &mut Obs| with_field!(c.field.as_str(), B => check_conjectured::<B>(c, obs)),
    );
    run.note("conjectured_grid_points", serde_json::json!(GRID_POINTS.load(std::sync::atomic::Ordering::Relaxed)));
    run.sub(&Monotone { full_cr: tier == Tier::Thorough });
    run.sub(&Policy);
}
