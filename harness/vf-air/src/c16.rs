//! C16 — constraints are enforced on exactly the intended steps.
//!
//! Oracle: a *step-set model* written here. A transition divisor for (n, k) must vanish on the
//! domain points g^i with i < n-k and nowhere else on the trace domain; an assertion names a set of
//! steps (one step / every stride-th step from an offset / a strided sequence) and its divisor must
//! vanish on exactly those points; the value polynomial must reproduce the asserted value on every
//! named step; two assertions overlap iff they sit on the same column and their step sets meet.
//! Domain points are computed with the reference field (`vf_ref::Fp`) from the integer value of the
//! repository's published two-adic root constant; /repo's arithmetic is never used by the oracle.

use std::collections::BTreeMap;

use proptest::prelude::*;
use serde::{Deserialize, Serialize};
use vf_core::{catch, ensure, pick_index, CheckResult, Fail, Obs, Run, SubCheck, Tier};
use vf_repo::prelude::*;
use winter_air::{
    AirContext, Assertion, BoundaryConstraints, ConstraintDivisor, FieldExtension, ProofOptions, TraceInfo,
    TransitionConstraintDegree, TransitionConstraints,
};

pub const LENGTHS: [usize; 6] = [8, 16, 32, 64, 128, 256];
const WIDTH: usize = 2;

macro_rules! with_field {
    ($f:expr, $B:ident => $e:expr) => {
        match $f {
            "f62" => {
                type $B = B62;
                $e
            },
            "f64" => {
                type $B = B64;
                $e
            },
            _ => {
                type $B = B128;
                $e
            },
        }
    };
}

// MODEL
// ================================================================================================

#[derive(Serialize, Deserialize, Clone, Copy, Debug, PartialEq, Eq, Hash, PartialOrd, Ord)]
pub enum Kind {
    Single,
    Periodic,
    Sequence,
}

/// Description of an assertion exactly as handed to the public constructors.
#[derive(Serialize, Deserialize, Clone, Copy, Debug, PartialEq, Eq, Hash, PartialOrd, Ord)]
pub struct ADesc {
    pub kind: Kind,
    pub col: usize,
    pub first: usize,
    /// ignored for `Single`
    pub stride: usize,
    /// number of values handed to the constructor (1 for `Single` / `Periodic`)
    pub nvals: usize,
}

pub type StepSet = [u64; 4];

fn pow2(x: usize) -> bool {
    x != 0 && x & (x - 1) == 0
}

impl ADesc {
    /// accepted by the constructor according to the documentation
    pub fn constructible(&self) -> bool {
        match self.kind {
            Kind::Single => true,
            Kind::Periodic => pow2(self.stride) && self.stride >= 2 && self.first < self.stride,
            Kind::Sequence => {
                pow2(self.stride) && self.stride >= 2 && self.first < self.stride && self.nvals >= 1 && pow2(self.nvals)
            },
        }
    }
    /// a one-value sequence is documented to be a single-cell assertion
    fn single_like(&self) -> bool {
        self.kind == Kind::Single || (self.kind == Kind::Sequence && self.nvals == 1)
    }
    /// valid against a trace of n steps (documented rules of validate_trace_length)
    pub fn fits_length(&self, n: usize) -> bool {
        if !pow2(n) {
            return false;
        }
        if self.single_like() {
            self.first < n
        } else if self.kind == Kind::Periodic {
            self.stride <= n
        } else {
            self.stride * self.nvals == n
        }
    }
    pub fn fits_width(&self, width: usize) -> bool {
        self.col < width
    }
    /// the steps named by the assertion on a trace of n steps, in ascending order
    pub fn steps(&self, n: usize) -> Vec<usize> {
        if self.single_like() {
            vec![self.first]
        } else if self.kind == Kind::Periodic {
            (0..n / self.stride).map(|i| self.first + self.stride * i).collect()
        } else {
            (0..self.nvals).map(|i| self.first + self.stride * i).collect()
        }
    }
    pub fn stepset(&self, n: usize) -> StepSet {
        let mut s = [0u64; 4];
        for st in self.steps(n) {
            s[st / 64] |= 1u64 << (st % 64);
        }
        s
    }
    /// index of the asserted value for the j-th named step
    fn value_index(&self, j: usize) -> usize {
        if self.kind == Kind::Sequence && self.nvals > 1 {
            j
        } else {
            0
        }
    }
}

fn meets(a: &StepSet, b: &StepSet) -> bool {
    (0..4).any(|i| a[i] & b[i] != 0)
}

fn splitmix(mut z: u64) -> u64 {
    z = z.wrapping_add(0x9e3779b97f4a7c15);
    z = (z ^ (z >> 30)).wrapping_mul(0xbf58476d1ce4e5b9);
    z = (z ^ (z >> 27)).wrapping_mul(0x94d049bb133111eb);
    z ^ (z >> 31)
}

/// asserted values are a fixed function of the description (no RNG): residue of a 128-bit mix
pub fn value(fp: Fp, d: &ADesc, idx: usize) -> u128 {
    let seed = (d.kind as u64) << 56 ^ (d.col as u64) << 48 ^ (d.first as u64) << 32 ^ (d.stride as u64) << 16 ^ d.nvals as u64;
    // value lists with structure (a representation chosen from the values must still reproduce them):
    // all equal, equal in consecutive pairs, alternating, all equal but the last; otherwise unrelated values
    let idx = if d.kind == Kind::Sequence && d.nvals >= 2 {
        match splitmix(seed) % 7 {
            1 => 0,
            2 => idx & !1,
            3 => idx & 1,
            4 => {
                if idx + 1 == d.nvals {
                    idx
                } else {
                    0
                }
            },
            _ => idx,
        }
    } else {
        idx
    };
    let lo = splitmix(seed ^ splitmix(idx as u64 + 1));
    let hi = splitmix(lo ^ seed.rotate_left(29));
    let v = ((hi as u128) << 64 | lo as u128) % fp.p;
    // make sure 0, 1 and p-1 appear as asserted values too
    // (kept off the structured lists, whose point is which entries are equal)
    let structured = d.kind == Kind::Sequence && d.nvals >= 2 && (1..=4).contains(&(splitmix(seed) % 7));
    match if structured { 28 } else { (seed.wrapping_add(idx as u64)) % 29 } {
        0 => 0,
        1 => 1,
        2 => fp.p - 1,
        _ => v,
    }
}

pub fn build<B: FA>(d: &ADesc) -> Assertion<B> {
    let v = |i: usize| B::from_u128(value(B::FP, d, i));
    match d.kind {
        Kind::Single => Assertion::single(d.col, d.first, v(0)),
        Kind::Periodic => Assertion::periodic(d.col, d.first, d.stride, v(0)),
        Kind::Sequence => Assertion::sequence(d.col, d.first, d.stride, (0..d.nvals).map(v).collect()),
    }
}

/// every assertion (kind x column x first step x stride x number of values) that is valid for a
/// trace of n steps and WIDTH columns
pub fn all_assertions(n: usize) -> Vec<ADesc> {
    let mut v = vec![];
    for col in 0..WIDTH {
        for first in 0..n {
            v.push(ADesc { kind: Kind::Single, col, first, stride: 0, nvals: 1 });
        }
        let mut stride = 2;
        while stride <= n {
            for first in 0..stride {
                v.push(ADesc { kind: Kind::Periodic, col, first, stride, nvals: 1 });
            }
            stride *= 2;
        }
        // one-value sequences (documented to degenerate into single assertions)
        let mut stride = 2;
        while stride <= n {
            for first in 0..stride {
                v.push(ADesc { kind: Kind::Sequence, col, first, stride, nvals: 1 });
            }
            stride *= 2;
        }
        let mut len = 2;
        while len <= n / 2 {
            let stride = n / len;
            for first in 0..stride {
                v.push(ADesc { kind: Kind::Sequence, col, first, stride, nvals: len });
            }
            len *= 2;
        }
    }
    v
}

/// g^i for i in 0..n, g = published two-adic root ^ (2^(s - log2 n)), reference arithmetic only
pub fn domain<B: FA>(n: usize) -> Vec<u128> {
    let fp = B::FP;
    let w = B::TWO_ADIC_ROOT_OF_UNITY.to_u128();
    let g = fp.pow(w, 1u128 << (fp.two_adicity - n.trailing_zeros()));
    let mut out = Vec::with_capacity(n);
    let mut x = 1u128;
    for _ in 0..n {
        out.push(x);
        x = fp.mul(x, g);
    }
    out
}

fn context<B: FA>(n: usize, num_assertions: usize) -> AirContext<B> {
    AirContext::new(
        TraceInfo::new(WIDTH, n),
        vec![TransitionConstraintDegree::new(1)],
        num_assertions,
        ProofOptions::new(32, 8, 0, FieldExtension::None, 4, 31),
    )
}

fn pfail(what: &str, p: vf_core::PanicSig) -> Fail {
    Fail::new(format!("{what}/{}", p.key()), format!("{what}: unexpected panic: {} at {}:{}", p.msg, p.file, p.line))
}

// 1. TRANSITION DIVISOR
// ================================================================================================

#[derive(Serialize, Deserialize, Clone, Debug)]
pub struct TCase {
    pub field: String,
    pub n: usize,
    pub k: usize,
}

fn check_transition<B: FA>(c: &TCase, obs: &mut Obs) -> CheckResult {
    let fp = B::FP;
    let (n, k) = (c.n, c.k);
    obs.nontrivial();
    obs.label(format!("n={n}"));
    let dom = domain::<B>(n);
    ensure!(fp.pow(dom[1], n as u128) == 1 && fp.pow(dom[1], n as u128 / 2) == fp.p - 1, "harness/domain", "g is not of order n");

    let d = catch(|| ConstraintDivisor::<B>::from_transition(n, k)).map_err(|p| pfail("from_transition", p))?;
    // the same divisor must reach the constraint system through the context
    let (k_ctx, d_ctx) = catch(|| {
        let ctx = context::<B>(n, 1).set_num_transition_exemptions(k);
        let t = TransitionConstraints::<B>::new(&ctx, &[B::ONE]);
        (ctx.num_transition_exemptions(), t.divisor().clone())
    })
    .map_err(|p| pfail("set_num_transition_exemptions", p))?;
    ensure!(k_ctx == k, "context/exemptions", "n={n}: context reports {k_ctx} exemptions after setting {k}");
    ensure!(d_ctx == d, "context/divisor", "n={n} k={k}: divisor built by TransitionConstraints differs from from_transition");
    if k == 1 {
        // default context: one exemption
        let d_def = catch(|| TransitionConstraints::<B>::new(&context::<B>(n, 1), &[B::ONE]).divisor().clone())
            .map_err(|p| pfail("default-context", p))?;
        ensure!(d_def == d, "context/default-divisor", "n={n}: default divisor is not the one-exemption divisor");
    }

    ensure!(d.degree() == n - k, "degree", "n={n} k={k}: degree() = {} but the zero set has {} points", d.degree(), n - k);
    obs.comparisons += 1;

    // on the trace domain
    for (i, &xi) in dom.iter().enumerate() {
        let x = B::from_u128(xi);
        let exempt = i >= n - k;
        let den = d.evaluate_exemptions_at(x).to_u128();
        ensure!(
            (den == 0) == exempt,
            if exempt { "exempt-step-not-cancelled" } else { "enforced-step-cancelled" },
            "{} n={n} k={k}: step {i}: exemption product is {den}, model says step is {}",
            B::NAME,
            if exempt { "exempt" } else { "enforced" }
        );
        if !exempt {
            let z = d.evaluate_at(x).to_u128();
            ensure!(z == 0, "enforced-step-not-a-root", "{} n={n} k={k}: divisor is {z} (non-zero) on enforced step {i}", B::NAME);
        }
        obs.comparisons += 2;
    }

    // off the trace domain the divisor must be the polynomial prod_{i<n-k}(x - g^i) (n+1 points with
    // non-zero denominator decide the identity of two rational functions of these degrees), so it is
    // non-zero on the exempt points, and the denominator must be prod_{i>=n-k}(x - g^i)
    let mut pts: Vec<u128> = dom.iter().map(|&x| fp.mul(x, fp.generator)).collect();
    pts.push(fp.mul(fp.generator, fp.generator));
    pts.push(fp.p - 2);
    for &xi in &pts {
        if fp.pow(xi, n as u128) == 1 {
            continue;
        }
        let mut num = 1u128;
        let mut den = 1u128;
        for (i, &gi) in dom.iter().enumerate() {
            let t = fp.sub(xi, gi);
            if i < n - k {
                num = fp.mul(num, t);
            } else {
                den = fp.mul(den, t);
            }
        }
        let x = B::from_u128(xi);
        let got = d.evaluate_at(x).to_u128();
        ensure!(got == num, "off-domain-value", "{} n={n} k={k}: z({xi}) = {got}, product over the enforced steps gives {num}", B::NAME);
        let gden = d.evaluate_exemptions_at(x).to_u128();
        ensure!(gden == den, "off-domain-exemptions", "{} n={n} k={k}: exemption product at {xi} = {gden}, model {den}", B::NAME);
        obs.comparisons += 2;
    }
    Ok(())
}

// exemption bounds (documented panics of set_num_transition_exemptions)
#[derive(Serialize, Deserialize, Clone, Debug)]
pub struct ECase {
    pub field: String,
    pub n: usize,
    pub k: usize,
    /// degree of the single transition constraint of the context (1 when absent: cases saved earlier)
    #[serde(default = "one")]
    pub degree: usize,
}
fn one() -> usize {
    1
}

/// the documented third bound: the quotient of a degree-d constraint by the divisor with k exemptions has degree
/// d(n-1) - (n-k), which must stay below the constraint evaluation domain n * max(2, next_pow2(d-1))
fn max_exemptions_by_degree(n: usize, d: usize) -> usize {
    let ce_blowup = (d.max(1) - 1).max(2).next_power_of_two();
    (n * ce_blowup - 1 + n).saturating_sub(d * (n - 1))
}

fn check_exemption_bounds<B: FA>(c: &ECase, obs: &mut Obs) -> CheckResult {
    let (n, k) = (c.n, c.k);
    obs.nontrivial();
    let d = c.degree;
    let r = catch(|| {
        AirContext::<B>::new(TraceInfo::new(WIDTH, n), vec![TransitionConstraintDegree::new(d)], 1, ProofOptions::new(32, 8, 0, FieldExtension::None, 4, 31))
            .set_num_transition_exemptions(k)
            .num_transition_exemptions()
    });
    let ok = k >= 1 && k <= n / 2 + 1 && k <= max_exemptions_by_degree(n, d);
    obs.label(if ok { "accepted" } else { "refused" });
    obs.label(if k >= 1 && k <= n / 2 + 1 && !ok { "refused:by-constraint-degree".to_string() } else { format!("degree={d}") });
    match r {
        Ok(v) => {
            ensure!(ok, "out-of-range-exemptions-accepted", "n={n}, constraint degree {d}: {k} exemptions accepted (documented: 1..=n/2+1 and small enough for the composition polynomial to fit the constraint evaluation domain, here at most {})", max_exemptions_by_degree(n, d));
            ensure!(v == k, "context/exemptions", "n={n}: context reports {v} after setting {k}");
        },
        Err(p) => {
            ensure!(!ok, format!("in-range-exemptions-refused/{}", p.key()), "n={n}: {k} exemptions refused: {}", p.msg);
        },
    }
    Ok(())
}

// 2. ASSERTION DIVISOR AND VALUE POLYNOMIAL
// ================================================================================================

#[derive(Serialize, Deserialize, Clone, Debug)]
pub struct ACase {
    pub field: String,
    pub n: usize,
    pub a: ADesc,
}

fn kind_label(d: &ADesc) -> String {
    let k = match d.kind {
        Kind::Single => "single".to_string(),
        Kind::Periodic => "periodic".to_string(),
        Kind::Sequence => {
            if d.nvals >= 64 {
                "sequence>=64".to_string()
            } else if d.nvals == 1 {
                "sequence-of-1".to_string()
            } else {
                "sequence".to_string()
            }
        },
    };
    format!("{k}{}", if d.first != 0 { ",first!=0" } else { ",first=0" })
}

fn check_assertion<B: FA>(c: &ACase, obs: &mut Obs) -> CheckResult {
    let fp = B::FP;
    let (n, d) = (c.n, &c.a);
    ensure!(d.constructible() && d.fits_length(n) && d.fits_width(WIDTH), "harness/invalid-case", "generator produced an ill-formed assertion");
    obs.nontrivial();
    obs.label(kind_label(d));
    let steps = d.steps(n);
    let dom = domain::<B>(n);

    let a = catch(|| build::<B>(d)).map_err(|p| pfail("well-formed-assertion-refused", p))?;
    ensure!(a.validate_trace_length(n).is_ok(), "validate_trace_length/refuses-valid", "{d:?} refused for n={n}");
    ensure!(a.validate_trace_width(WIDTH).is_ok(), "validate_trace_width/refuses-valid", "{d:?} refused for width {WIDTH}");
    ensure!(a.column() == d.col && a.first_step() == d.first, "accessors", "column/first_step differ from the constructor arguments");
    let single_like = d.kind == Kind::Single || (d.kind == Kind::Sequence && d.nvals == 1);
    ensure!(
        a.is_single() == single_like && a.is_periodic() == (d.kind == Kind::Periodic) && a.is_sequence() == (d.kind == Kind::Sequence && d.nvals > 1),
        "kind-predicates",
        "{d:?}: is_single/is_periodic/is_sequence = {}/{}/{}",
        a.is_single(),
        a.is_periodic(),
        a.is_sequence()
    );

    // get_num_steps / apply enumerate exactly the model set, with the asserted values
    let ns = catch(|| a.get_num_steps(n)).map_err(|p| pfail("get_num_steps", p))?;
    ensure!(ns == steps.len(), "get_num_steps", "{d:?} n={n}: get_num_steps = {ns}, model names {} steps", steps.len());
    let applied = catch(|| {
        let mut v = vec![];
        a.apply(n, |s, val: B| v.push((s, val.to_u128())));
        v
    })
    .map_err(|p| pfail("apply", p))?;
    let want: Vec<(usize, u128)> = steps.iter().enumerate().map(|(j, &s)| (s, value(fp, d, d.value_index(j)))).collect();
    ensure!(applied == want, "apply", "{d:?} n={n}: apply visits {:?}…, model {:?}…", &applied[..applied.len().min(4)], &want[..want.len().min(4)]);
    obs.comparisons += 1 + steps.len() as u64;

    // divisor: zero exactly on the named steps
    let div = catch(|| ConstraintDivisor::<B>::from_assertion(&a, n)).map_err(|p| pfail("from_assertion", p))?;
    ensure!(div.degree() == steps.len(), "divisor/degree", "{d:?} n={n}: degree() = {}, {} steps named", div.degree(), steps.len());
    ensure!(div.exemptions().is_empty(), "divisor/exemptions", "assertion divisor has exemption points");
    let set = d.stepset(n);
    for (i, &xi) in dom.iter().enumerate() {
        let z = div.evaluate_at(B::from_u128(xi)).to_u128();
        let named = set[i / 64] >> (i % 64) & 1 == 1;
        ensure!(
            (z == 0) == named,
            if named { "divisor/named-step-not-a-root" } else { "divisor/extra-root" },
            "{} {d:?} n={n}: divisor at step {i} is {z}; model: step is {}",
            B::NAME,
            if named { "named" } else { "not named" }
        );
        obs.comparisons += 1;
    }

    // the boundary constraint built through the public entry point
    let cc = B::from_u128(3);
    let bc = catch(|| BoundaryConstraints::<B>::new(&context::<B>(n, 1), vec![a.clone()], vec![], &[cc])).map_err(|p| pfail("BoundaryConstraints::new", p))?;
    let groups = bc.main_constraints();
    ensure!(groups.len() == 1 && groups[0].constraints().len() == 1 && bc.aux_constraints().is_empty(), "constraints/count", "one assertion must give one constraint in one group");
    ensure!(*groups[0].divisor() == div, "constraints/divisor", "{d:?} n={n}: group divisor differs from from_assertion");
    let con = &groups[0].constraints()[0];
    ensure!(con.column() == d.col, "constraints/column", "constraint column {} != {}", con.column(), d.col);
    let nv = if single_like || d.kind == Kind::Periodic { 1 } else { d.nvals };
    // (the number of coefficients is a matter of representation: the property asks for the values on the named
    // steps, which the loop below checks; a shorter polynomial that reproduces them is not a violation)
    if con.poly().len() != nv {
        obs.label("value-polynomial:length-differs-from-number-of-values");
    }
    for (j, &s) in steps.iter().enumerate() {
        let val = value(fp, d, d.value_index(j));
        let x = B::from_u128(dom[s]);
        for tv in [0u128, val, fp.sub(val, 1), 0x1234_5678_9abc_def0u128 % fp.p] {
            let got = con.evaluate_at(x, B::from_u128(tv)).to_u128();
            let exp = fp.sub(tv, val);
            ensure!(
                got == exp,
                format!("value-polynomial/{}", kind_label(d)),
                "{} {d:?} n={n}: evaluate_at(g^{s}, {tv}) = {got}, expected trace value minus asserted value {val} = {exp}",
                B::NAME
            );
            obs.comparisons += 1;
        }
    }
    Ok(())
}

// 3./4. PAIRS
// ================================================================================================

pub struct Table<B: FA> {
    pub descs: Vec<ADesc>,
    pub asserts: Vec<Assertion<B>>,
    pub sets: Vec<StepSet>,
}

fn table<B: FA>(n: usize) -> Table<B> {
    let descs = all_assertions(n);
    let asserts = descs.iter().map(build::<B>).collect();
    let sets = descs.iter().map(|d| d.stepset(n)).collect();
    Table { descs, asserts, sets }
}

#[derive(Serialize, Deserialize, Clone, Debug)]
pub struct PCase {
    pub field: String,
    pub n: usize,
    pub a: ADesc,
}

fn check_overlaps<B: FA>(c: &PCase, t: &Table<B>, obs: &mut Obs) -> CheckResult {
    let n = c.n;
    obs.nontrivial();
    let a = build::<B>(&c.a);
    let sa = c.a.stepset(n);
    let mut any = false;
    for (j, b) in t.asserts.iter().enumerate() {
        let want = c.a.col == t.descs[j].col && meets(&sa, &t.sets[j]);
        any |= want && t.descs[j] != c.a;
        let ab = a.overlaps_with(b);
        let ba = b.overlaps_with(&a);
        obs.comparisons += 2;
        ensure!(
            ab == want,
            if want { "overlap-missed" } else { "overlap-invented" },
            "n={n}: {:?}.overlaps_with({:?}) = {ab}; step sets on a common column {}",
            c.a,
            t.descs[j],
            if want { "intersect" } else { "are disjoint" }
        );
        ensure!(
            ba == want,
            if want { "overlap-missed" } else { "overlap-invented" },
            "n={n}: {:?}.overlaps_with({:?}) = {ba}; step sets on a common column {}",
            t.descs[j],
            c.a,
            if want { "intersect" } else { "are disjoint" }
        );
    }
    obs.label(if any { "overlaps-another-assertion" } else { "overlaps-only-itself" });
    Ok(())
}

/// both assertions handed to BoundaryConstraints::new: refused iff they overlap; otherwise every
/// assertion must come back as a constraint whose divisor is its own and whose value polynomial
/// reproduces its values on its steps
fn check_pair<B: FA>(n: usize, da: &ADesc, a: &Assertion<B>, db: &ADesc, b: &Assertion<B>, dom: &[u128], ctx: &AirContext<B>, obs: &mut Obs) -> CheckResult {
    let fp = B::FP;
    let overlap = da.col == db.col && meets(&da.stepset(n), &db.stepset(n));
    let ccs = [B::from_u128(5), B::from_u128(7)];
    let r = catch(|| BoundaryConstraints::<B>::new(ctx, vec![a.clone(), b.clone()], vec![], &ccs));
    obs.comparisons += 1;
    let bc = match r {
        Err(p) => {
            ensure!(
                overlap,
                format!("disjoint-pair-refused/{}", p.key()),
                "n={n}: {da:?} and {db:?} name no common cell but were refused: {}",
                p.msg
            );
            ensure!(p.msg.contains("overlaps with"), format!("overlap-refused-for-other-reason/{}", p.key()), "{}", p.msg);
            return Ok(());
        },
        Ok(bc) => bc,
    };
    ensure!(!overlap, "overlapping-pair-accepted", "n={n}: {da:?} and {db:?} name a common cell but BoundaryConstraints::new accepted both");
    let cands = [(da, catch(|| ConstraintDivisor::<B>::from_assertion(a, n))), (db, catch(|| ConstraintDivisor::<B>::from_assertion(b, n)))];
    let mut used = [false; 2];
    let mut total = 0;
    for g in bc.main_constraints() {
        for con in g.constraints() {
            total += 1;
            let mut hit = None;
            for (i, (d, div)) in cands.iter().enumerate() {
                if used[i] || d.col != con.column() {
                    continue;
                }
                // (two accepted assertions on one column never share a divisor: equal zero sets overlap)
                if let Ok(div) = div {
                    if div == g.divisor() {
                        hit = Some(i);
                        break;
                    }
                }
            }
            let Some(i) = hit else {
                return Err(Fail::new(
                    "pair/constraint-matches-no-assertion",
                    format!("n={n}: {da:?} + {db:?}: a constraint on column {} with divisor {} belongs to neither assertion", con.column(), g.divisor()),
                ));
            };
            used[i] = true;
            let d = cands[i].0;
            for (j, &s) in d.steps(n).iter().enumerate() {
                let val = value(fp, d, d.value_index(j));
                let tv = fp.add(val, 9);
                let got = con.evaluate_at(B::from_u128(dom[s]), B::from_u128(tv)).to_u128();
                obs.comparisons += 1;
                ensure!(got == 9, "pair/value-polynomial", "n={n}: {d:?} (with {:?}): evaluate_at(g^{s}, value+9) = {got}", if i == 0 { db } else { da });
            }
        }
    }
    ensure!(total == 2 && used[0] && used[1], "pair/constraint-count", "n={n}: {da:?} + {db:?}: {total} constraints built");
    Ok(())
}

fn check_pairs_row<B: FA>(c: &PCase, t: &Table<B>, obs: &mut Obs) -> CheckResult {
    let n = c.n;
    obs.nontrivial();
    let a = build::<B>(&c.a);
    let dom = domain::<B>(n);
    let ctx = context::<B>(n, 2);
    for (j, b) in t.asserts.iter().enumerate() {
        check_pair::<B>(n, &c.a, &a, &t.descs[j], b, &dom, &ctx, obs)?;
    }
    Ok(())
}

// sampled pairs (all lengths; carries the longer traces in the quick tier)
#[derive(Serialize, Deserialize, Clone, Debug)]
pub struct SCase {
    pub field: String,
    pub n: usize,
    pub a: ADesc,
    pub b: ADesc,
}

pub struct SampledPairs;

impl SubCheck for SampledPairs {
    type Case = SCase;
    fn name(&self) -> String {
        "pairs/sampled".into()
    }
    fn cases(&self, tier: Tier) -> u64 {
        tier.pick(150_000, 1_500_000)
    }
    fn watchdog_secs(&self) -> u64 {
        20
    }
    fn rule(&self) -> String {
        "field uniform from the three base fields, n from {64,128,256} (3/4) or {8,16,32} (1/4), a and b drawn independently and uniformly from the complete list of assertions valid for n (b forced onto a's column half of the time); each ordered pair goes through overlaps_with (both orders) and BoundaryConstraints::new; non-trivial = every case (n >= 8, both assertions well-formed); distinct by (field,n,a,b)".into()
    }
    fn required_labels(&self, _t: Tier) -> Vec<String> {
        vec!["overlap=yes".into(), "overlap=no".into(), "n=256".into(), "n=64".into(), "has-sequence>=64".into()]
    }
    fn strategy(&self, _tier: Tier) -> BoxedStrategy<SCase> {
        let lists: Vec<Vec<ADesc>> = LENGTHS.iter().map(|&n| all_assertions(n)).collect();
        (0usize..3, prop_oneof![1 => 0usize..3, 3 => 3usize..6], any::<u16>(), any::<u16>(), any::<bool>())
            .prop_map(move |(f, ni, sa, sb, same_col)| {
                let n = LENGTHS[ni];
                let l = &lists[ni];
                let a = l[pick_index(sa, l.len())];
                let mut b = l[pick_index(sb, l.len())];
                if same_col {
                    b.col = a.col;
                }
                SCase { field: ["f62", "f64", "f128"][f].to_string(), n, a, b }
            })
            .boxed()
    }
    fn check(&self, c: &SCase, obs: &mut Obs) -> CheckResult {
        with_field!(c.field.as_str(), B => check_sampled::<B>(c, obs))
    }
}

fn check_sampled<B: FA>(c: &SCase, obs: &mut Obs) -> CheckResult {
    let n = c.n;
    for d in [&c.a, &c.b] {
        ensure!(d.constructible() && d.fits_length(n) && d.fits_width(WIDTH), "harness/invalid-case", "ill-formed assertion generated");
    }
    obs.nontrivial();
    obs.label(format!("n={n}"));
    let overlap = c.a.col == c.b.col && meets(&c.a.stepset(n), &c.b.stepset(n));
    obs.label(if overlap { "overlap=yes" } else { "overlap=no" });
    if c.a.nvals >= 64 || c.b.nvals >= 64 {
        obs.label("has-sequence>=64");
    }
    let a = build::<B>(&c.a);
    let b = build::<B>(&c.b);
    obs.comparisons += 2;
    ensure!(a.overlaps_with(&b) == overlap, if overlap { "overlap-missed" } else { "overlap-invented" }, "n={n}: {:?}.overlaps_with({:?}) = {}", c.a, c.b, !overlap);
    ensure!(b.overlaps_with(&a) == overlap, if overlap { "overlap-missed" } else { "overlap-invented" }, "n={n}: {:?}.overlaps_with({:?}) = {}", c.b, c.a, !overlap);
    let dom = domain::<B>(n);
    let ctx = context::<B>(n, 2);
    check_pair::<B>(n, &c.a, &a, &c.b, &b, &dom, &ctx, obs)
}

// 5. ILL-FORMED ASSERTIONS
// ================================================================================================

#[derive(Serialize, Deserialize, Clone, Debug)]
pub struct ICase {
    pub field: String,
    pub n: usize,
    pub a: ADesc,
    pub why: String,
}

fn ill_formed_cases() -> Vec<(usize, ADesc, &'static str)> {
    let mut v = vec![];
    let bad_strides = [0usize, 1, 3, 5, 6, 7, 9, 10, 12, 15, 17, 24, 31, 33, 48, 63, 65, 96, 100, 127, 129, 255, 257];
    let bad_lens = [0usize, 3, 5, 6, 7, 9, 10, 12, 15, 17, 24, 31, 33, 63, 65, 100, 127, 129];
    for &n in &LENGTHS {
        for col in 0..WIDTH {
            // constructor level
            for &s in &bad_strides {
                if s > 2 * n {
                    continue;
                }
                let why = if s < 2 { "stride<2" } else { "stride-not-power-of-two" };
                v.push((n, ADesc { kind: Kind::Periodic, col, first: 0, stride: s, nvals: 1 }, why));
                v.push((n, ADesc { kind: Kind::Sequence, col, first: 0, stride: s, nvals: 2 }, why));
                if s >= 2 {
                    v.push((n, ADesc { kind: Kind::Periodic, col, first: s - 1, stride: s, nvals: 1 }, why));
                }
            }
            let mut s = 2;
            while s <= n {
                for first in [s, s + 1, 2 * s, n, n + 1] {
                    if first >= s {
                        v.push((n, ADesc { kind: Kind::Periodic, col, first, stride: s, nvals: 1 }, "first>=stride"));
                        v.push((n, ADesc { kind: Kind::Sequence, col, first, stride: s, nvals: (n / s).max(1) }, "first>=stride"));
                    }
                }
                for &l in &bad_lens {
                    if l <= 2 * n {
                        let why = if l == 0 { "no-values" } else { "values-not-power-of-two" };
                        v.push((n, ADesc { kind: Kind::Sequence, col, first: 0, stride: s, nvals: l }, why));
                        v.push((n, ADesc { kind: Kind::Sequence, col, first: s - 1, stride: s, nvals: l }, why));
                    }
                }
                s *= 2;
            }
            // trace-length level (constructible, but not for this n)
            for first in [n, n + 1, 2 * n - 1, 2 * n, 4 * n + 3] {
                v.push((n, ADesc { kind: Kind::Single, col, first, stride: 0, nvals: 1 }, "step>=trace-length"));
            }
            for s in [2 * n, 4 * n, 16 * n] {
                for first in [0, 1, n - 1, n, s - 1] {
                    v.push((n, ADesc { kind: Kind::Periodic, col, first, stride: s, nvals: 1 }, "stride>trace-length"));
                    v.push((n, ADesc { kind: Kind::Sequence, col, first: first.max(n), stride: s, nvals: 1 }, "step>=trace-length"));
                }
            }
            let mut s = 2;
            while s <= 4 * n {
                let mut l = 2;
                while l <= 4 * n {
                    if s * l != n {
                        for first in [0, s - 1] {
                            v.push((n, ADesc { kind: Kind::Sequence, col, first, stride: s, nvals: l }, "stride*values!=trace-length"));
                        }
                    }
                    l *= 2;
                }
                s *= 2;
            }
        }
        // column out of range (otherwise valid)
        for col in [WIDTH, WIDTH + 1, 255, 1 << 20] {
            v.push((n, ADesc { kind: Kind::Single, col, first: n - 1, stride: 0, nvals: 1 }, "column-out-of-range"));
            v.push((n, ADesc { kind: Kind::Periodic, col, first: 1, stride: 4, nvals: 1 }, "column-out-of-range"));
            v.push((n, ADesc { kind: Kind::Sequence, col, first: 1, stride: 2, nvals: n / 2 }, "column-out-of-range"));
        }
    }
    // the loops above meet some inputs more than once
    let mut seen = std::collections::BTreeSet::new();
    v.retain(|(n, d, _)| seen.insert((*n, *d)));
    v
}

fn check_ill_formed<B: FA>(c: &ICase, obs: &mut Obs) -> CheckResult {
    let (n, d) = (c.n, &c.a);
    obs.nontrivial();
    obs.label(c.why.clone());
    ensure!(!(d.constructible() && d.fits_length(n) && d.fits_width(WIDTH)), "harness/valid-case", "case {d:?} is well-formed for n={n}");
    let built = catch(|| build::<B>(d));
    obs.comparisons += 1;
    if !d.constructible() {
        ensure!(built.is_err(), format!("constructor-accepts/{}", c.why), "{d:?}: constructor accepted an assertion the documentation says it refuses");
        return Ok(());
    }
    let a = built.map_err(|p| pfail("constructible-assertion-refused", p))?;
    if !d.fits_length(n) {
        ensure!(a.validate_trace_length(n).is_err(), format!("validate_trace_length-accepts/{}", c.why), "{d:?} accepted for n={n}");
        ensure!(catch(|| a.get_num_steps(n)).is_err(), format!("get_num_steps-accepts/{}", c.why), "{d:?}: get_num_steps({n}) did not panic as documented");
        ensure!(catch(|| a.apply(n, |_, _| {})).is_err(), format!("apply-accepts/{}", c.why), "{d:?}: apply({n}) did not panic as documented");
        ensure!(catch(|| ConstraintDivisor::<B>::from_assertion(&a, n)).is_err(), format!("from_assertion-accepts/{}", c.why), "{d:?}: from_assertion({n}) did not panic as documented");
        obs.comparisons += 4;
    } else {
        ensure!(a.validate_trace_length(n).is_ok(), "validate_trace_length/refuses-valid", "{d:?} refused for n={n}");
    }
    if !d.fits_width(WIDTH) {
        ensure!(a.validate_trace_width(WIDTH).is_err(), format!("validate_trace_width-accepts/{}", c.why), "{d:?} accepted for width {WIDTH}");
        obs.comparisons += 1;
    } else {
        ensure!(a.validate_trace_width(WIDTH).is_ok(), "validate_trace_width/refuses-valid", "{d:?} refused for width {WIDTH}");
    }
    let r = catch(|| BoundaryConstraints::<B>::new(&context::<B>(n, 1), vec![a.clone()], vec![], &[B::ONE]).main_constraints().len());
    ensure!(r.is_err(), format!("BoundaryConstraints-accepts/{}", c.why), "{d:?}: BoundaryConstraints::new accepted an assertion that is invalid for n={n}, width={WIDTH}");
    obs.comparisons += 1;
    Ok(())
}

// DRIVER
// ================================================================================================

fn run_pairs<B: FA>(run: &mut Run) {
    let tier = run.tier;
    let lens: Vec<usize> = LENGTHS.to_vec();
    let tables: BTreeMap<usize, Table<B>> = match catch(|| lens.iter().map(|&n| (n, table::<B>(n))).collect()) {
        Ok(t) => t,
        Err(p) => {
            run.inconclusive(format!("cannot build the assertion tables: {}", p.msg));
            return;
        },
    };
    let cases = |ls: &[usize]| -> Vec<PCase> {
        ls.iter().flat_map(|&n| tables[&n].descs.iter().map(move |&a| PCase { field: B::NAME.to_string(), n, a })).collect()
    };
    run.enumerate(
        &format!("overlap/all-pairs/{}", B::NAME),
        "every ordered pair (a,b) of assertions valid for n, for every n in {8,16,32,64,128,256} (one enumerated case = one a against the complete list of b, both argument orders of overlaps_with): overlaps_with == same column and step sets intersect; all cases non-trivial (well-formed, n>=8); distinct by (n,a)",
        true,
        cases(&lens).into_iter(),
        |c: &PCase, obs: &mut Obs| check_overlaps::<B>(c, &tables[&c.n], obs),
    );
    let pair_lens: Vec<usize> = tier.pick(vec![8, 16, 32, 64, 128], lens.clone());
    run.enumerate(
        &format!("pairs/constraints/{}", B::NAME),
        &format!(
            "every ordered pair (a,b) of assertions valid for n in {:?} handed to BoundaryConstraints::new (one enumerated case = one a against every b): refused iff the pair names a common cell; otherwise two constraints whose divisors are the assertions' own and whose value polynomials reproduce the values on the named steps; all cases non-trivial; distinct by (n,a)",
            pair_lens
        ),
        true,
        cases(&pair_lens).into_iter(),
        |c: &PCase, obs: &mut Obs| check_pairs_row::<B>(c, &tables[&c.n], obs),
    );
}

// 6. SEGMENT WIDTHS: main assertions are judged by the main width, auxiliary ones by the auxiliary width
// ================================================================================================

#[derive(Serialize, Deserialize, Clone, Debug)]
pub struct WCase {
    pub field: String,
    pub main_w: usize,
    pub aux_w: usize,
    /// the assertion is handed in as an auxiliary-segment assertion
    pub in_aux: bool,
    pub col: usize,
    pub kind: u8,
}

fn check_widths<B: FA>(c: &WCase, obs: &mut Obs) -> CheckResult {
    let n = 16usize;
    let ctx = AirContext::<B>::new_multi_segment(
        TraceInfo::new_multi_segment(c.main_w, c.aux_w, 1, n, vec![]),
        vec![TransitionConstraintDegree::new(1)],
        vec![TransitionConstraintDegree::new(1)],
        1,
        1,
        None,
        ProofOptions::new(32, 8, 0, FieldExtension::None, 4, 31),
    );
    let v = B::from_u128(7);
    let mk = |col: usize| match c.kind {
        0 => Assertion::single(col, 3, v),
        1 => Assertion::periodic(col, 1, 4, v),
        _ => Assertion::sequence(col, 0, 8, vec![v, B::from_u128(9)]),
    };
    // the other segment gets a well-formed assertion on its column 0
    let (main, aux) = if c.in_aux { (vec![mk(0)], vec![mk(c.col)]) } else { (vec![mk(c.col)], vec![mk(0)]) };
    let width = if c.in_aux { c.aux_w } else { c.main_w };
    let well_formed = c.col < width;
    obs.label(if well_formed { "column-inside-its-segment" } else { "column-outside-its-segment" });
    if c.col >= c.main_w.min(c.aux_w) && c.col < c.main_w.max(c.aux_w) {
        obs.label("column-between-the-two-widths");
    }
    obs.nontrivial();
    let cc = [B::from_u128(3), B::from_u128(5)];
    let r = catch(|| BoundaryConstraints::<B>::new(&ctx, main.clone(), aux.clone(), &cc));
    match (r, well_formed) {
        (Ok(bc), true) => {
            let groups = if c.in_aux { bc.aux_constraints() } else { bc.main_constraints() };
            ensure!(
                groups.iter().flat_map(|g| g.constraints().iter()).any(|k| k.column() == c.col),
                "segment-width/constraint-missing",
                "{c:?}: the assertion was accepted but no constraint on column {} exists in its segment",
                c.col
            );
            Ok(())
        },
        (Err(_), false) => Ok(()),
        (Ok(_), false) => Err(Fail::new("segment-width/ill-formed-accepted", format!("{c:?}: an assertion against column {} was accepted although its segment has {width} columns", c.col))),
        (Err(p), true) => Err(Fail::new("segment-width/well-formed-refused", format!("{c:?}: an assertion against column {} of a segment with {width} columns was refused: {}", c.col, p.msg))),
    }
}

pub fn run(run: &mut Run) {
    run.assume("trace-domain points are computed by the harness' integer reference field from the integer value of the published TWO_ADIC_ROOT_OF_UNITY constant (that constant's order is established by C07)");
    run.assume("x^n - 1 has exactly the n trace-domain points as simple roots (used to turn 'z(x) equals the product over the enforced steps at n+1 off-domain points' into 'z is non-zero on the exempt points')");
    if let Err(e) = vf_ref::field::selfcheck() {
        run.inconclusive(format!("reference self-check failed: {e}"));
        return;
    }
    let fields = ["f62", "f64", "f128"];

    // 1. transition divisors
    let mut tc = vec![];
    let mut ec = vec![];
    for f in fields {
        for &n in &LENGTHS {
            for k in 1..=n / 2 + 1 {
                tc.push(TCase { field: f.to_string(), n, k });
            }
            for k in [0, 1, n / 2 + 1, n / 2 + 2, n - 1, n, n + 1] {
                ec.push(ECase { field: f.to_string(), n, k, degree: 1 });
            }
            // constraint degrees 2..9 (blowup 8 admits them all): around the bound the degree imposes
            for degree in 2..=9usize {
                let m = max_exemptions_by_degree(n, degree);
                let mut ks = vec![1, 2, n / 2, n / 2 + 1, n / 2 + 2, m.saturating_sub(1), m, m + 1, m + 2];
                ks.sort();
                ks.dedup();
                for k in ks {
                    ec.push(ECase { field: f.to_string(), n, k, degree });
                }
            }
        }
    }
    run.enumerate(
        "transition-divisor",
        "all (field, n, k): n in {8,16,32,64,128,256}, k = 1..=n/2+1, three base fields; divisor from from_transition and through AirContext::set_num_transition_exemptions + TransitionConstraints; evaluated on all n domain points and n+2 off-domain points; all cases non-trivial",
        true,
        tc.into_iter(),
        |c: &TCase, obs: &mut Obs| with_field!(c.field.as_str(), B => check_transition::<B>(c, obs)),
    );
    run.enumerate(
        "exemption-bounds",
        "set_num_transition_exemptions at and around the documented bounds (0, 1, n/2+1, n/2+2, n-1, n, n+1) for every n and field, and for constraint degrees 2..9 around the bound the degree imposes (quotient degree d(n-1) - (n-k) below the constraint evaluation domain): accepted iff 1 <= k <= n/2+1 and within that bound (documented panics otherwise)",
        true,
        ec.into_iter(),
        |c: &ECase, obs: &mut Obs| with_field!(c.field.as_str(), B => check_exemption_bounds::<B>(c, obs)),
    );

    // 2. single assertions: step set, divisor, value polynomial
    let mut ac = vec![];
    for f in fields {
        for &n in &LENGTHS {
            for a in all_assertions(n) {
                ac.push(ACase { field: f.to_string(), n, a });
            }
        }
    }
    run.enumerate(
        "assertion",
        "all (field, n, assertion): every single / periodic / sequence assertion (column in {0,1}, every first step, every power-of-two stride, every admissible number of values incl. one-value sequences) valid for n in {8,..,256}; get_num_steps/apply vs the model step list, divisor evaluated on all n domain points, BoundaryConstraint::evaluate_at on every named step with 4 trace values; all cases non-trivial (well-formed, n>=8)",
        true,
        ac.into_iter(),
        |c: &ACase, obs: &mut Obs| with_field!(c.field.as_str(), B => check_assertion::<B>(c, obs)),
    );

    // 3./4. pairs
    run_pairs::<B62>(run);
    run_pairs::<B64>(run);
    run_pairs::<B128>(run);
    run.sub(&SampledPairs);

    // 5. ill-formed
    let mut ic = vec![];
    for f in fields {
        for (n, a, why) in ill_formed_cases() {
            ic.push(ICase { field: f.to_string(), n, a, why: why.to_string() });
        }
    }
    run.enumerate(
        "ill-formed",
        "hand-enumerated ill-formed assertions for every n and field: strides 0,1 and non powers of two, first step >= stride, empty / non-power-of-two value lists (constructor must panic as documented); step >= n, stride > n, stride*values != n (validate_trace_length must fail, get_num_steps/apply/from_assertion/BoundaryConstraints::new must panic as documented); column >= width (validate_trace_width / BoundaryConstraints::new); every case is a distinct ill-formed input",
        true,
        ic.into_iter(),
        |c: &ICase, obs: &mut Obs| with_field!(c.field.as_str(), B => check_ill_formed::<B>(c, obs)),
    );

    // 6. segment widths
    let mut wc = vec![];
    for f in fields {
        for (main_w, aux_w) in [(1usize, 1usize), (1, 3), (3, 1), (2, 2), (4, 2), (2, 5), (8, 3), (3, 8)] {
            for in_aux in [false, true] {
                for col in 0..=main_w.max(aux_w) {
                    for kind in 0u8..3 {
                        wc.push(WCase { field: f.to_string(), main_w, aux_w, in_aux, col, kind });
                    }
                }
            }
        }
    }
    run.enumerate(
        "segment-widths",
        "two-segment contexts with main / auxiliary widths (1,1) (1,3) (3,1) (2,2) (4,2) (2,5) (8,3) (3,8), one single / periodic / sequence assertion against column 0..max(width) handed in as main or as auxiliary assertion: BoundaryConstraints::new must accept it exactly when the column exists in ITS segment, and the constraint must then sit in that segment's groups; all cases non-trivial",
        true,
        wc.into_iter(),
        |c: &WCase, obs: &mut Obs| with_field!(c.field.as_str(), B => check_widths::<B>(c, obs)),
    );
}
