mod c16;
mod c18;

fn main() {
    let args = vf_core::parse_args();
    let mut run = vf_core::Run::new(&args, "exploration");
    match args.property.as_str() {
        "C16" => c16::run(&mut run),
        "C18" => c18::run(&mut run),
        other => {
            eprintln!("vf-air does not serve {other}");
            std::process::exit(2);
        },
    }
    run.finish_and_exit();
}
