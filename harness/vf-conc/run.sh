#!/bin/bash
# builds vf-conc twice (feature `concurrent` off = reference, on = subject) and runs the supervisor
set -u
ROOT="${VERIF_ROOT:-/verif}"
TGT="${CARGO_TARGET_DIR:-$ROOT/target}"
BIN="$TGT/vf-conc-bin"   # beside the build output, so that runs with different target dirs do not share binaries
mkdir -p "$BIN"
cd "$ROOT/harness"
LOG="$ROOT/work/build-vf-conc.log"
cargo build --profile vf -p vf-conc >"$LOG" 2>&1 || { echo "INCONCLUSIVE: serial build failed (see $LOG)"; tail -20 "$LOG"; exit 2; }
cp "$TGT/vf/vf-conc" "$BIN/vf-conc-serial" || exit 2
cargo build --profile vf -p vf-conc --features concurrent >>"$LOG" 2>&1 || { echo "INCONCLUSIVE: concurrent build failed (see $LOG)"; tail -20 "$LOG"; exit 2; }
cp "$TGT/vf/vf-conc" "$BIN/vf-conc-par" || exit 2
export VF_CONC_PAR="$BIN/vf-conc-par"
if [ "${1:-}" = "--build-only" ]; then
  exit 0
fi
if [ "${1:-}" = "--replay" ]; then
  exec "$BIN/vf-conc-serial" --replay "$2"
fi
exec "$BIN/vf-conc-serial" "$1" "${2:-quick}"
