//! C14 — multi-threaded execution produces the same results as single-threaded.
//!
//! The same sources are built twice: without the repository's `concurrent` feature (reference, also
//! the supervisor) and with it (subject, worker mode). For every generated workload item the
//! supervisor computes digests of all deterministic outputs serially, then asks the concurrent build
//! to compute them inside rayon pools of many sizes, several times, and compares byte for byte.
//! Schedules are sampled (pool sizes x repetitions), not enumerated: rayon's scheduler cannot be
//! controlled from outside.

use std::io::Write;
use std::process::{Command, Stdio};
use std::sync::Arc;

use proptest::prelude::*;
use serde::{Deserialize, Serialize};
use vf_core::{CheckResult, Fail, Obs, Run, SubCheck, Tier};
use vf_repo::{B128, B62, B64, C, FA, Q};
use vf_stark::common::*;
use vf_stark::gen::{realize, shape_strategy, GenParams, Shape};
use winter_crypto::hashers::{Blake3_256, Rp62_248, Rp64_256, Sha3_256};
use winter_crypto::{DefaultRandomCoin, ElementHasher, MerkleTree};
use winter_math::{fft, FieldElement, StarkField};
use winter_prover::matrix::{ColMatrix, RowMatrix};
use winter_prover::StarkDomain;
use winter_utils::Serializable;

const POOLS: [usize; 13] = [1, 2, 3, 4, 5, 7, 8, 12, 16, 24, 32, 48, 64];

#[derive(Serialize, Deserialize, Clone, Debug)]
pub enum Item {
    /// kind: 0 evaluate_poly, 1 evaluate_poly_with_offset, 2 interpolate_poly, 3 interpolate_poly_with_offset, 4 twiddles
    Fft { field: u8, ext: u8, log_n: u32, kind: u8, log_blowup: u32, seed: u64 },
    /// get_power_series / with_offset / batch_inversion (zeros at positions) / add_in_place / mul_acc
    Vector { field: u8, ext: u8, n: usize, zeros: Vec<u16>, seed: u64 },
    Transpose { n_rows: usize, width_sel: u8, seed: u64 },
    Merkle { hasher: u8, log_leaves: u32, seed: u64 },
    /// RowMatrix::evaluate_polys_over::<N> + commit_to_rows, ColMatrix::commit_to_rows
    Matrix { field: u8, ext: u8, log_rows: u32, cols: usize, log_blowup: u32, seg: u8, seed: u64 },
    /// fri::folding::apply_drp + fri::utils::hash_values
    Fri { field: u8, ext: u8, log_n: u32, log_folding: u8, seed: u64 },
    /// a whole proof of a GenAir instance
    Proof { shape: Box<Shape> },
}

fn splitmix(state: &mut u64) -> u64 {
    *state = state.wrapping_add(0x9e3779b97f4a7c15);
    let mut z = *state;
    z = (z ^ (z >> 30)).wrapping_mul(0xbf58476d1ce4e5b9);
    z = (z ^ (z >> 27)).wrapping_mul(0x94d049bb133111eb);
    z ^ (z >> 31)
}

/// deterministic element stream from a seed (a pure function of the generated case)
fn elems<E: FieldElement>(seed: u64, n: usize) -> Vec<E>
where
    E::BaseField: FA,
{
    let mut st = seed;
    let p = <E::BaseField as FA>::FP.p;
    (0..n)
        .map(|_| {
            let mut c = [0u128; 3];
            for x in c.iter_mut().take(E::EXTENSION_DEGREE) {
                let v = ((splitmix(&mut st) as u128) << 64) | splitmix(&mut st) as u128;
                *x = v % p;
            }
            vf_repo::from_el::<E>(&c)
        })
        .collect()
}

fn digest<T: Serializable>(v: &[T]) -> String {
    let mut bytes = Vec::new();
    for x in v {
        x.write_into(&mut bytes);
    }
    blake3::hash(&bytes).to_hex().to_string()
}

type Parts = Vec<(String, String)>;

fn item_fft<E: FieldElement>(log_n: u32, kind: u8, log_blowup: u32, seed: u64) -> Parts
where
    E::BaseField: FA,
{
    type B<E> = <E as FieldElement>::BaseField;
    let n = 1usize << log_n;
    let p: Vec<E> = elems(seed, n);
    let tw = fft::get_twiddles::<B<E>>(n);
    let itw = fft::get_inv_twiddles::<B<E>>(n);
    let off = B::<E>::GENERATOR;
    let mut out = vec![];
    match kind {
        0 => {
            let mut v = p.clone();
            fft::evaluate_poly(&mut v, &tw);
            out.push(("evaluate_poly".into(), digest(&v)));
        },
        1 => {
            let v = fft::evaluate_poly_with_offset(&p, &tw, off, 1 << log_blowup);
            out.push(("evaluate_poly_with_offset".into(), digest(&v)));
            // other cosets: the subgroup itself (offset 1) and a coset the prover never uses
            for (name, o) in [("evaluate_poly_with_offset(offset=1)", B::<E>::ONE), ("evaluate_poly_with_offset(offset=1/g)", B::<E>::GENERATOR.inv())] {
                let v = fft::evaluate_poly_with_offset(&p, &tw, o, 1 << log_blowup);
                out.push((name.into(), digest(&v)));
            }
        },
        2 => {
            let mut v = p.clone();
            fft::interpolate_poly(&mut v, &itw);
            out.push(("interpolate_poly".into(), digest(&v)));
        },
        3 => {
            let mut v = p.clone();
            fft::interpolate_poly_with_offset(&mut v, &itw, off);
            out.push(("interpolate_poly_with_offset".into(), digest(&v)));
            for (name, o) in [("interpolate_poly_with_offset(offset=1)", B::<E>::ONE), ("interpolate_poly_with_offset(offset=1/g)", B::<E>::GENERATOR.inv())] {
                let mut v = p.clone();
                fft::interpolate_poly_with_offset(&mut v, &itw, o);
                out.push((name.into(), digest(&v)));
            }
        },
        _ => {
            out.push(("get_twiddles".into(), digest(&tw)));
            out.push(("get_inv_twiddles".into(), digest(&itw)));
        },
    }
    out
}

fn item_vector<E: FieldElement>(n: usize, zeros: &[u16], seed: u64) -> Parts
where
    E::BaseField: FA,
{
    let mut v: Vec<E> = elems(seed, n);
    for z in zeros {
        let i = vf_core::pick_index(*z, n);
        v[i] = E::ZERO;
    }
    let b: E = elems::<E>(seed ^ 1, 1)[0];
    let s: E = elems::<E>(seed ^ 2, 1)[0];
    let mut out = vec![];
    out.push(("get_power_series".into(), digest(&winter_math::get_power_series(b, n))));
    out.push(("get_power_series_with_offset".into(), digest(&winter_math::get_power_series_with_offset(b, s, n))));
    out.push(("batch_inversion".into(), digest(&winter_math::batch_inversion(&v))));
    let w: Vec<E> = elems(seed ^ 3, n);
    let mut a = v.clone();
    winter_math::add_in_place(&mut a, &w);
    out.push(("add_in_place".into(), digest(&a)));
    let bs: Vec<E::BaseField> = elems(seed ^ 4, n);
    let mut a = v.clone();
    winter_math::mul_acc(&mut a, &bs, s);
    out.push(("mul_acc".into(), digest(&a)));
    out
}

fn item_transpose(n_rows: usize, width_sel: u8, seed: u64) -> Parts {
    fn go<const N: usize>(n_rows: usize, seed: u64) -> String {
        let src: Vec<B64> = elems(seed, n_rows * N);
        let t = winter_utils::transpose_slice::<B64, N>(&src);
        digest(&t.iter().flat_map(|r| r.iter().copied()).collect::<Vec<_>>())
    }
    let d = match width_sel % 4 {
        0 => go::<2>(n_rows, seed),
        1 => go::<4>(n_rows, seed),
        2 => go::<8>(n_rows, seed),
        _ => go::<16>(n_rows, seed),
    };
    vec![("transpose_slice".into(), d)]
}

fn item_merkle<H: ElementHasher>(log_leaves: u32, seed: u64) -> Parts
where
    H::BaseField: FA,
{
    let n = 1usize << log_leaves;
    let vals: Vec<H::BaseField> = elems(seed, n);
    let leaves: Vec<H::Digest> = vals.iter().map(|v| H::hash_elements(&[*v])).collect();
    let tree = MerkleTree::<H>::new(leaves).expect("tree");
    let mut out = vec![("merkle_root".into(), digest(&[*tree.root()]))];
    let idx: Vec<usize> = (0..n.min(64)).map(|i| (i * 2654435761) % n).collect::<std::collections::BTreeSet<_>>().into_iter().collect();
    let proof = tree.prove_batch(&idx).expect("batch proof");
    out.push(("merkle_batch_proof".into(), blake3::hash(&proof.serialize_nodes()).to_hex().to_string()));
    out
}

fn item_matrix<E: FieldElement>(log_rows: u32, cols: usize, log_blowup: u32, seg: u8, seed: u64) -> Parts
where
    E::BaseField: FA,
{
    type B<E> = <E as FieldElement>::BaseField;
    let n = 1usize << log_rows;
    let columns: Vec<Vec<E>> = (0..cols).map(|j| elems(seed.wrapping_add(j as u64), n)).collect();
    let polys = ColMatrix::new(columns);
    let tw = fft::get_twiddles::<B<E>>(n);
    let domain = StarkDomain::from_twiddles(tw, 1 << log_blowup, B::<E>::GENERATOR);
    let rm: RowMatrix<E> = match seg % 5 {
        0 => RowMatrix::evaluate_polys_over::<1>(&polys, &domain),
        1 => RowMatrix::evaluate_polys_over::<2>(&polys, &domain),
        2 => RowMatrix::evaluate_polys_over::<4>(&polys, &domain),
        3 => RowMatrix::evaluate_polys_over::<8>(&polys, &domain),
        _ => RowMatrix::evaluate_polys_over::<16>(&polys, &domain),
    };
    let mut out = vec![];
    // only the documented content of the matrix (rows x columns), not padding
    let mut flat: Vec<E> = Vec::with_capacity(rm.num_rows() * rm.num_cols());
    for r in 0..rm.num_rows() {
        flat.extend_from_slice(rm.row(r));
    }
    out.push(("row_matrix".into(), digest(&flat)));
    let tree = rm.commit_to_rows::<Blake3_256<B<E>>>();
    out.push(("row_matrix_commitment".into(), digest(&[*tree.root()])));
    let ev = polys.evaluate_columns_over(&domain);
    out.push(("col_matrix_commitment".into(), digest(&[*ev.commit_to_rows::<Blake3_256<B<E>>>().root()])));
    out
}

fn item_fri<E: FieldElement>(log_n: u32, log_folding: u8, seed: u64) -> Parts
where
    E::BaseField: FA,
{
    type B<E> = <E as FieldElement>::BaseField;
    fn go<E: FieldElement, const N: usize>(evals: &[E], alpha: E) -> Parts
    where
        E::BaseField: FA,
    {
        let t = winter_utils::transpose_slice::<E, N>(evals);
        let folded = winter_fri::folding::apply_drp(&t, <E::BaseField as StarkField>::GENERATOR, alpha);
        let hashes = winter_fri::utils::hash_values::<Blake3_256<E::BaseField>, E, N>(&t);
        let folded1 = winter_fri::folding::apply_drp(&t, <E::BaseField as FieldElement>::ONE, alpha);
        vec![("apply_drp".into(), digest(&folded)), ("apply_drp(offset=1)".into(), digest(&folded1)), ("hash_values".into(), digest(&hashes))]
    }
    let n = 1usize << log_n;
    let evals: Vec<E> = elems(seed, n);
    let alpha: E = elems::<E>(seed ^ 9, 1)[0];
    let _ = B::<E>::ONE;
    match log_folding % 4 {
        0 => go::<E, 2>(&evals, alpha),
        1 => go::<E, 4>(&evals, alpha),
        2 => go::<E, 8>(&evals, alpha),
        _ => go::<E, 16>(&evals, alpha),
    }
}

fn item_proof<B: FA, H: ElementHasher<BaseField = B> + Send + Sync>(shape: &Shape) -> Result<Parts, String> {
    let budget: usize = std::env::var("VF_CONC_BUDGET").ok().and_then(|s| s.parse().ok()).unwrap_or(1 << 20);
    let inst = realize::<B>(shape, budget);
    let desc = Arc::new(inst.desc.clone());
    let options = make_options(&inst.opts).map_err(|f| f.msg)?;
    let proof = match prove_with::<B, H, DefaultRandomCoin<H>>(&desc, &inst.trace, options, None) {
        ProveOutcome::Proof(p) => p,
        ProveOutcome::Err(e) => return Err(format!("prover error: {e}")),
        ProveOutcome::Panic(p) => return Err(format!("prover panic: {} at {}:{}", p.msg, p.file, p.line)),
    };
    let verified = matches!(verify_with::<B, H, DefaultRandomCoin<H>>(proof.clone(), &desc, &min_sec0()), VerifyOutcome::Ok);
    Ok(vec![
        ("proof.context".into(), blake3::hash(&proof.context.to_bytes()).to_hex().to_string()),
        // trace, constraint and FRI layer commitments
        ("proof.commitments".into(), blake3::hash(&proof.commitments.to_bytes()).to_hex().to_string()),
        ("proof.ood_frame".into(), blake3::hash(&proof.ood_frame.to_bytes()).to_hex().to_string()),
        ("proof.verifies".into(), format!("{verified}")),
    ])
}

macro_rules! with_elem {
    ($field:expr, $ext:expr, $f:ident, $($args:expr),*) => {
        match ($field % 3, $ext % 3) {
            (0, 0) => $f::<B62>($($args),*),
            (0, 1) => $f::<Q<B62>>($($args),*),
            (0, _) => $f::<C<B62>>($($args),*),
            (1, 0) => $f::<B64>($($args),*),
            (1, 1) => $f::<Q<B64>>($($args),*),
            (1, _) => $f::<C<B64>>($($args),*),
            (_, 0) => $f::<B128>($($args),*),
            (_, _) => $f::<Q<B128>>($($args),*),
        }
    };
}

pub fn run_item(item: &Item) -> Result<Parts, String> {
    Ok(match item {
        Item::Fft { field, ext, log_n, kind, log_blowup, seed } => with_elem!(*field, *ext, item_fft, *log_n, *kind, *log_blowup, *seed),
        Item::Vector { field, ext, n, zeros, seed } => with_elem!(*field, *ext, item_vector, *n, zeros, *seed),
        Item::Transpose { n_rows, width_sel, seed } => item_transpose(*n_rows, *width_sel, *seed),
        Item::Merkle { hasher, log_leaves, seed } => match hasher % 4 {
            0 => item_merkle::<Blake3_256<B128>>(*log_leaves, *seed),
            1 => item_merkle::<Sha3_256<B64>>(*log_leaves, *seed),
            2 => item_merkle::<Rp64_256>(*log_leaves, *seed),
            _ => item_merkle::<Rp62_248>(*log_leaves, *seed),
        },
        Item::Matrix { field, ext, log_rows, cols, log_blowup, seg, seed } => with_elem!(*field, *ext, item_matrix, *log_rows, *cols, *log_blowup, *seg, *seed),
        Item::Fri { field, ext, log_n, log_folding, seed } => with_elem!(*field, *ext, item_fri, *log_n, *log_folding, *seed),
        Item::Proof { shape } => {
            let s: &Shape = shape;
            return vf_stark::dispatch!(s.field, s.hasher, item_proof, s);
        },
    })
}

// WORKER (concurrent build)
// ================================================================================================

#[cfg(feature = "concurrent")]
fn worker(path: &str) {
    vf_core::panics::install_hook();
    vf_core::panics::set_quiet(true);
    let item: Item = serde_json::from_str(&std::fs::read_to_string(path).expect("item file")).expect("item json");
    let reps: usize = std::env::var("VF_CONC_REPS").ok().and_then(|s| s.parse().ok()).unwrap_or(3);
    let out = std::io::stdout();
    let pools: Vec<usize> = std::env::var("VF_CONC_POOLS").ok().map(|s| s.split(',').filter_map(|x| x.parse().ok()).collect()).unwrap_or_else(|| POOLS.to_vec());
    for k in pools {
        let pool = rayon::ThreadPoolBuilder::new().num_threads(k).build().expect("pool");
        // the fixed sizes are repeated, the additional ones run once
        let reps = if POOLS.contains(&k) { reps } else { 1 };
        for rep in 0..reps {
            let r = pool.install(|| vf_core::catch(|| run_item(&item)));
            let mut o = out.lock();
            match r {
                Ok(Ok(parts)) => {
                    for (name, d) in parts {
                        writeln!(o, "OK {k} {rep} {name} {d}").unwrap();
                    }
                },
                Ok(Err(e)) => writeln!(o, "ERR {k} {rep} {}", e.replace('\n', " ")).unwrap(),
                Err(p) => writeln!(o, "PANIC {k} {rep} {} at {}:{}", p.msg.replace('\n', " "), p.file, p.line).unwrap(),
            }
        }
    }
}

#[cfg(not(feature = "concurrent"))]
fn worker(_path: &str) {
    eprintln!("this build has no concurrent feature; worker mode unavailable");
    std::process::exit(2);
}

/// Thread-pool sizes an item is computed under: every size 1..=64 for the library-level items (they are
/// cheap), the thirteen fixed sizes plus five more derived from the item for whole proofs.
fn pools_for(item: &Item, json: &str) -> Vec<usize> {
    match item {
        // tiny traces: cheap, and the interesting pool sizes are the ones above the trace length
        Item::Proof { shape } if shape.log_n <= 5 || (shape.log_n <= 8 && shape.opts.log_blowup >= 5 && shape.aux.is_none() && shape.rules.len() <= 3) => (1..=64).collect(),
        Item::Proof { .. } => {
            let mut v = POOLS.to_vec();
            // five more sizes from a stream seeded by the item (splitmix64: the earlier `h / 64 + c` recurrence
            // has a fixed point, so for some items it proposed one size forever)
            let mut st = vf_core::hash_str(json) as u64;
            while v.len() < POOLS.len() + 5 {
                let k = (splitmix(&mut st) % 64) as usize + 1;
                if !v.contains(&k) {
                    v.push(k);
                }
            }
            v
        },
        _ => (1..=64).collect(),
    }
}

// SUPERVISOR (serial build)
// ================================================================================================

pub struct Conc {
    pub tier: Tier,
}

fn item_strategy(tier: Tier) -> BoxedStrategy<Item> {
    let fe = || (0u8..3, 0u8..3);
    let p = GenParams { max_log_n: tier.pick(12, 14), max_grinding: 4, fixed: None, allow_aux: true, allow_degenerate: false };
    prop_oneof![
        3 => (fe(), prop::sample::select(vec![9u32, 10, 11, 13]), 0u8..5, 0u32..3, any::<u64>())
            .prop_map(|((field, ext), log_n, kind, log_blowup, seed)| Item::Fft { field, ext, log_n, kind, log_blowup, seed }),
        3 => (fe(), prop::sample::select(vec![1usize, 1023, 1024, 1025, 2047, 2048, 4096, 10_000]), prop::collection::vec(any::<u16>(), 0..4), any::<u64>())
            .prop_map(|((field, ext), n, zeros, seed)| Item::Vector { field, ext, n, zeros, seed }),
        1 => (prop::sample::select(vec![1usize, 512, 1023, 1024, 1025, 4096]), any::<u8>(), any::<u64>())
            .prop_map(|(n_rows, width_sel, seed)| Item::Transpose { n_rows, width_sel, seed }),
        2 => (0u8..4, prop::sample::select(vec![1u32, 9, 10, 11, 12]), any::<u64>()).prop_map(|(hasher, log_leaves, seed)| Item::Merkle { hasher, log_leaves, seed }),
        4 => (fe(), 3u32..=10, prop::sample::select(vec![1usize, 2, 7, 8, 9, 16, 17, 64, 100, 254, 255]), 1u32..=4, 0u8..5, any::<u64>())
            .prop_map(|((field, ext), log_rows, cols, log_blowup, seg, seed)| {
                // keep the LDE matrix below 2^21 cells
                let mut log_rows = log_rows;
                while (1usize << (log_rows + log_blowup)) * cols > (1 << 21) && log_rows > 3 {
                    log_rows -= 1;
                }
                Item::Matrix { field, ext, log_rows, cols, log_blowup, seg, seed }
            }),
        2 => (fe(), prop::sample::select(vec![6u32, 10, 11, 12, 13]), 0u8..4, any::<u64>())
            .prop_map(|((field, ext), log_n, log_folding, seed)| Item::Fri { field, ext, log_n, log_folding, seed }),
        3 => shape_strategy(&p).prop_map(|mut s| {
            // Rescue hashers make big instances slow: keep them on small traces
            if s.hasher >= 3 {
                s.log_n = s.log_n.min(8);
            }
            Item::Proof { shape: Box::new(s) }
        }),
        // tiny traces under the largest blowup with a constraint of degree > 64 (constraint-evaluation blowup
        // 128): batches of the row-parallel loops are then shorter than the blowup, and pools larger than the trace
        1 => (shape_strategy(&p), 3u32..=5).prop_map(|(mut s, log_n)| {
            s.log_n = log_n;
            s.opts.log_blowup = 7;
            s.degenerate = false;
            s.rules.truncate(4);
            if let Some(r) = s.rules.first_mut() {
                r.kind = 0;
                r.d_sel = 40001;
            }
            if s.hasher >= 3 {
                s.hasher = 0;
            }
            Item::Proof { shape: Box::new(s) }
        }),
        // short traces under a large LDE blowup with low-degree constraints: the LDE domain is at or above the
        // sizes at which work is split (8192) while the constraint evaluation domain is 16..64 times smaller
        1 => (shape_strategy(&p), 6u32..=8, 5u8..=7).prop_map(|(mut s, log_n, log_blowup)| {
            s.log_n = log_n;
            s.opts.log_blowup = log_blowup;
            s.degenerate = false;
            s.aux = None;
            s.rules.truncate(3);
            for r in s.rules.iter_mut() {
                r.d_sel %= 1000;
            }
            if s.hasher >= 3 {
                s.hasher = 0;
            }
            Item::Proof { shape: Box::new(s) }
        }),
    ]
    .boxed()
}

fn label_of(item: &Item) -> String {
    match item {
        Item::Fft { log_n, kind, .. } => format!("fft:kind{kind}:n=2^{log_n}"),
        Item::Vector { n, .. } => format!("vector:n={n}"),
        Item::Transpose { n_rows, .. } => format!("transpose:rows={n_rows}"),
        Item::Merkle { log_leaves, .. } => format!("merkle:leaves=2^{log_leaves}"),
        Item::Matrix { log_rows, log_blowup, cols, .. } => format!("matrix:lde-rows=2^{}:cols{}", log_rows + log_blowup, if *cols >= 100 { ">=100" } else { "<100" }),
        Item::Fri { log_n, .. } => format!("fri:n=2^{log_n}"),
        Item::Proof { shape } => format!("proof:log_n={}{}", shape.log_n, if shape.log_n <= 5 && shape.opts.log_blowup == 7 { ":blowup128" } else if shape.log_n <= 8 && shape.opts.log_blowup >= 5 { ":short-trace-large-blowup" } else { "" }),
    }
}

fn above_threshold(item: &Item) -> bool {
    match item {
        Item::Fft { log_n, .. } => *log_n >= 10,
        Item::Vector { n, .. } => *n >= 1024,
        Item::Transpose { n_rows, .. } => *n_rows >= 1024,
        Item::Merkle { log_leaves, .. } => *log_leaves > 10,
        Item::Matrix { log_rows, log_blowup, .. } => log_rows + log_blowup >= 7,
        Item::Fri { log_n, .. } => *log_n >= 10,
        Item::Proof { shape } => shape.log_n >= 9 || (shape.log_n <= 5 && shape.opts.log_blowup == 7),
    }
}

impl SubCheck for Conc {
    type Case = Item;
    fn name(&self) -> String {
        "serial-vs-concurrent".into()
    }
    fn cases(&self, tier: Tier) -> u64 {
        tier.pick(260, 3_000)
    }
    fn watchdog_secs(&self) -> u64 {
        900
    }
    fn shrink_iters(&self) -> usize {
        6
    }
    fn max_failures(&self) -> usize {
        1
    }
    fn parallelism(&self) -> usize {
        // every case spawns a worker that itself uses up to 64 (mostly idle) threads
        6
    }
    fn rule(&self) -> String {
        format!(
            "workload items on both sides of every concurrency threshold: FFT evaluate/interpolate (with offset generator, 1 and 1/generator, and blowup)/twiddles at n in {{512,1024,2048,8192}}, power series / batch inversion with zeros / add_in_place / mul_acc at lengths {{1,1023,1024,1025,2047,2048,4096,10000}}, transpose_slice, Merkle trees of 2..4096 leaves (4 hashers), RowMatrix::evaluate_polys_over::<1|2|4|8|16> + row commitments for 1..255 columns x 8..16384 LDE rows (base and extension), apply_drp + hash_values, whole GenAir proofs up to 2^12 (quick) / 2^14 rows (constraint evaluation domains on both sides of 8192) and of 8..32 rows under blowup 128 with a constraint of degree > 64, and of 64..256 rows under blowup 32..128 with constraints of degree 1..2 (LDE domain >= 8192 points, constraint evaluation domain 16..64 times smaller) (every pool size 1..64); each item is computed serially (build without the feature) and in the concurrent build inside rayon pools of {:?} threads, 2 (quick) / 3 (thorough) repetitions each, and once in pools of every other size 1..64 (whole proofs: five other sizes derived from the item); all digests must be equal (for proofs: context, all commitments, OOD frame; both proofs must verify; nonce and query data exempt); non-trivial = item at or above its concurrency threshold; schedules are sampled, not enumerated",
            POOLS
        )
    }
    fn strategy(&self, tier: Tier) -> BoxedStrategy<Item> {
        item_strategy(tier)
    }
    fn check(&self, item: &Item, obs: &mut Obs) -> CheckResult {
        obs.label(label_of(item));
        obs.nontrivial_if(above_threshold(item));
        let serial = match vf_core::catch(|| run_item(item)) {
            Ok(Ok(p)) => p,
            Ok(Err(e)) => {
                if is_coin_exhaustion(&e) {
                    obs.label("outside-claim:coin-exhaustion");
                    return Ok(());
                }
                return Err(Fail::new("serial/error", e));
            },
            Err(p) => {
                if is_coin_exhaustion(&p.msg) {
                    obs.label("outside-claim:coin-exhaustion");
                    return Ok(());
                }
                return Err(Fail::new(format!("serial/{}", p.key()), format!("the serial build panicked: {}", p.msg)));
            },
        };
        let par = std::env::var("VF_CONC_PAR").map_err(|_| Fail::new("harness/no-worker", "VF_CONC_PAR not set"))?;
        let root = std::env::var("VERIF_ROOT").unwrap_or_else(|_| "/verif".into());
        let dir = format!("{root}/work/conc");
        let _ = std::fs::create_dir_all(&dir);
        let json = serde_json::to_string(item).unwrap();
        let path = format!("{dir}/item-{:016x}-{:?}.json", vf_core::hash_str(&json), std::thread::current().id()).replace(['(', ')'], "");
        std::fs::write(&path, &json).map_err(|e| Fail::new("harness/io", e.to_string()))?;
        let pools = pools_for(item, &json);
        obs.label(if pools.len() == 64 { "pools=all-1..64" } else { "pools=13-fixed+5" });
        let outp = Command::new(&par)
            .arg("--worker")
            .arg(&path)
            .env("VF_CONC_REPS", self.tier.pick("2", "3"))
            .env("VF_CONC_POOLS", pools.iter().map(|k| k.to_string()).collect::<Vec<_>>().join(","))
            .stdout(Stdio::piped())
            .stderr(Stdio::null())
            .output();
        let _ = std::fs::remove_file(&path);
        let outp = outp.map_err(|e| Fail::new("harness/spawn", e.to_string()))?;
        if !outp.status.success() {
            return Err(Fail::new("concurrent/worker-died", format!("the concurrent build terminated abnormally: {:?}", outp.status)));
        }
        let text = String::from_utf8_lossy(&outp.stdout);
        let mut seen = 0usize;
        for line in text.lines() {
            let f: Vec<&str> = line.splitn(5, ' ').collect();
            match f.first().copied() {
                Some("OK") if f.len() == 5 => {
                    let (k, name, d) = (f[1], f[3], f[4]);
                    let want = serial.iter().find(|(n, _)| n == name).map(|(_, d)| d.as_str());
                    obs.comparisons += 1;
                    seen += 1;
                    if want != Some(d) {
                        return Err(Fail::new(
                            format!("differs/{name}"),
                            format!("{name}: the concurrent build (pool of {k} threads, repetition {}) produced a different result than the serial build for {}", f[2], label_of(item)),
                        ));
                    }
                },
                Some("PANIC") => {
                    let msg = line.splitn(4, ' ').nth(3).unwrap_or("");
                    if is_coin_exhaustion(msg) {
                        continue;
                    }
                    return Err(Fail::new(
                        format!("concurrent-panic/{}", vf_core::panics::normalise(msg.split(" at ").next().unwrap_or(msg))),
                        format!("the concurrent build panicked (pool of {} threads): {msg}", f.get(1).unwrap_or(&"?")),
                    ));
                },
                Some("ERR") => return Err(Fail::new("concurrent/error", line.to_string())),
                _ => {},
            }
        }
        if seen < serial.len() * pools.len() {
            return Err(Fail::new("harness/worker-output", format!("worker reported {seen} results, expected at least {}", serial.len() * pools.len())));
        }
        Ok(())
    }
}

fn main() {
    let a: Vec<String> = std::env::args().collect();
    if a.len() >= 3 && a[1] == "--worker" {
        worker(&a[2]);
        return;
    }
    let args = vf_core::parse_args();
    let mut run = Run::new(&args, "exploration");
    if args.property != "C14" {
        eprintln!("vf-conc serves C14 only");
        std::process::exit(2);
    }
    if cfg!(feature = "concurrent") {
        eprintln!("the supervisor must be the build without the concurrent feature");
        std::process::exit(2);
    }
    run.assume("rayon's scheduler is not controllable: schedules are sampled through pool sizes (all of 1..64 for library-level items, 18 for proofs) x 1-3 repetitions per item; a divergence that needs a rare interleaving can be missed");
    run.assume("only the proof-of-work nonce and the query data selected through it may differ between builds; they are excluded from the comparison");
    let tier = run.tier;
    std::env::set_var("VF_CONC_BUDGET", tier.pick("1048576", "4194304"));
    run.sub(&Conc { tier });
    run.finish_and_exit();
}
