//! vf-ref: reference models with no dependency on /repo.
pub mod coin;
pub mod field;
pub mod hashes;
pub mod merkle;
pub mod poly;
pub mod rescue;
pub mod rescue_consts;
pub use field::{El, Field, Fp, F128, F62, F64};
