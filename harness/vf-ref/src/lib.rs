//! vf-ref: reference models with no dependency on /repo.
pub mod field;
pub mod poly;
pub use field::{El, Field, Fp, F128, F62, F64};
