//! Reference definitions of the six hashers (independent of the library under test).
//!
//! * Blake3_256 / Blake3_192 / Sha3_256: the plain `blake3` / `sha3` crates over the canonical
//!   little-endian byte layout: hash(bytes) = H(bytes) (192-bit: first 24 bytes of the 256-bit
//!   output); merge(a, b) = H(a || b); merge_with_int(seed, v) = H(seed || LE64(v));
//!   hash_elements(e_0..e_n) = H(LE(e_0) || .. || LE(e_n)) where LE is the canonical fixed-width
//!   little-endian encoding of the residue (extension elements = their coefficients in order).
//! * Rp64_256 / Rp62_248 / RpJive64_256: `rescue::Rescue`.

use crate::field::{Fp, F62, F64};
use crate::rescue::Rescue;
use sha3::Digest as _;

#[derive(Clone, Copy, Debug, PartialEq, Eq, Hash)]
pub enum Kind {
    Blake3_256,
    Blake3_192,
    Sha3_256,
    Rp64_256,
    Rp62_248,
    RpJive64_256,
}

/// A reference digest: raw bytes for the byte hashers, four residues for the Rescue hashers.
#[derive(Clone, Debug, PartialEq, Eq, Hash, PartialOrd, Ord)]
pub enum Dg {
    Bytes(Vec<u8>),
    Elems([u128; 4]),
}

#[derive(Clone, Debug)]
pub struct RefH {
    pub kind: Kind,
    /// field of the elements given to `hash_elements` (fixed for the Rescue hashers)
    pub fp: Fp,
    rescue: Option<Rescue>,
}

impl RefH {
    pub fn new(kind: Kind, fp: Fp) -> RefH {
        let (fp, rescue) = match kind {
            Kind::Rp64_256 => (F64, Some(Rescue::rp64_256())),
            Kind::Rp62_248 => (F62, Some(Rescue::rp62_248())),
            Kind::RpJive64_256 => (F64, Some(Rescue::rp_jive64_256())),
            _ => (fp, None),
        };
        RefH { kind, fp, rescue }
    }

    pub fn name(&self) -> &'static str {
        match self.kind {
            Kind::Blake3_256 => "Blake3_256",
            Kind::Blake3_192 => "Blake3_192",
            Kind::Sha3_256 => "Sha3_256",
            Kind::Rp64_256 => "Rp64_256",
            Kind::Rp62_248 => "Rp62_248",
            Kind::RpJive64_256 => "RpJive64_256",
        }
    }

    pub fn is_rescue(&self) -> bool {
        self.rescue.is_some()
    }
    pub fn rescue(&self) -> Option<&Rescue> {
        self.rescue.as_ref()
    }

    /// digest size in bytes when serialized
    pub fn digest_bytes(&self) -> usize {
        match self.kind {
            Kind::Blake3_192 => 24,
            Kind::Rp62_248 => 31,
            _ => 32,
        }
    }

    fn raw(&self, data: &[u8]) -> Dg {
        match self.kind {
            Kind::Blake3_256 => Dg::Bytes(blake3::hash(data).as_bytes().to_vec()),
            Kind::Blake3_192 => Dg::Bytes(blake3::hash(data).as_bytes()[..24].to_vec()),
            Kind::Sha3_256 => Dg::Bytes(sha3::Sha3_256::digest(data).to_vec()),
            _ => unreachable!(),
        }
    }

    pub fn hash(&self, bytes: &[u8]) -> Dg {
        match &self.rescue {
            Some(r) => Dg::Elems(r.hash_bytes(bytes)),
            None => self.raw(bytes),
        }
    }

    pub fn merge(&self, a: &Dg, b: &Dg) -> Dg {
        match (&self.rescue, a, b) {
            (Some(r), Dg::Elems(a), Dg::Elems(b)) => Dg::Elems(r.merge(a, b)),
            (None, Dg::Bytes(a), Dg::Bytes(b)) => {
                let mut v = a.clone();
                v.extend_from_slice(b);
                self.raw(&v)
            },
            _ => panic!("digest kind mismatch"),
        }
    }

    pub fn merge_with_int(&self, seed: &Dg, v: u64) -> Dg {
        match (&self.rescue, seed) {
            (Some(r), Dg::Elems(s)) => Dg::Elems(r.merge_with_int(s, v)),
            (None, Dg::Bytes(s)) => {
                let mut d = s.clone();
                d.extend_from_slice(&v.to_le_bytes());
                self.raw(&d)
            },
            _ => panic!("digest kind mismatch"),
        }
    }

    /// residues (each < p of `self.fp`), extension elements flattened to their coefficients
    pub fn hash_elements(&self, residues: &[u128]) -> Dg {
        match &self.rescue {
            Some(r) => Dg::Elems(r.hash_elements(residues)),
            None => {
                let mut d = Vec::with_capacity(residues.len() * self.fp.elem_bytes);
                for r in residues {
                    assert!(*r < self.fp.p);
                    d.extend_from_slice(&self.fp.to_le_bytes(*r));
                }
                self.raw(&d)
            },
        }
    }

    /// The 32-byte view of a digest used by the random coin: byte digests padded with zeros; element
    /// digests as the little-endian bytes of the integer  e0 + e1*2^b + e2*2^2b + e3*2^3b  where b is
    /// the bit width of the field (64 for f64: four 8-byte words; 62 for f62: 248 bits + one zero byte)
    pub fn as_bytes32(&self, d: &Dg) -> [u8; 32] {
        let mut out = [0u8; 32];
        match d {
            Dg::Bytes(b) => out[..b.len()].copy_from_slice(b),
            Dg::Elems(e) => {
                let bits = self.fp.bits as usize;
                let mut pos = 0usize;
                for v in e {
                    for i in 0..bits {
                        if (v >> i) & 1 == 1 {
                            out[(pos + i) / 8] |= 1 << ((pos + i) % 8);
                        }
                    }
                    pos += bits;
                }
            },
        }
        out
    }

    /// serialized form: the first `digest_bytes()` bytes of the 32-byte view
    pub fn serialize(&self, d: &Dg) -> Vec<u8> {
        self.as_bytes32(d)[..self.digest_bytes()].to_vec()
    }
}

/// known-answer tests of the byte hashers' building blocks (guards against a mis-wired reference)
pub fn selfcheck() -> Result<(), String> {
    // BLAKE3 of the empty input (official test vector) and SHA3-256 of the empty input (FIPS 202)
    let b = RefH::new(Kind::Blake3_256, F64).hash(b"");
    let want_b = "af1349b9f5f9a1a6a0404dea36dcc9499bcb25c9adc112b7cc9a93cae41f3262";
    let s = RefH::new(Kind::Sha3_256, F64).hash(b"");
    let want_s = "a7ffc6f8bf1ed76651c14756a061d662f580ff4de43b49fa82d80a4b80f8434a";
    let hex = |d: &Dg| match d {
        Dg::Bytes(v) => v.iter().map(|b| format!("{b:02x}")).collect::<String>(),
        _ => String::new(),
    };
    if hex(&b) != want_b {
        return Err("blake3 empty-input vector".into());
    }
    if hex(&s) != want_s {
        return Err("sha3-256 empty-input vector".into());
    }
    let t = RefH::new(Kind::Blake3_192, F64).hash(b"");
    if hex(&t) != want_b[..48] {
        return Err("blake3-192 truncation".into());
    }
    // SHA3-256("abc")
    let s = RefH::new(Kind::Sha3_256, F64).hash(b"abc");
    if hex(&s) != "3a985da74fe225b2045c172d6bd390bd855f086e3e9d525b46bfe24511431532" {
        return Err("sha3-256 abc vector".into());
    }
    // 62-bit packing: [1, 1, 1, 1] -> bits 0, 62, 124, 186
    let r = RefH::new(Kind::Rp62_248, F62);
    let bytes = r.as_bytes32(&Dg::Elems([1, 1, 1, 1]));
    let mut want = [0u8; 32];
    for bit in [0usize, 62, 124, 186] {
        want[bit / 8] |= 1 << (bit % 8);
    }
    if bytes != want || bytes[31] != 0 {
        return Err("62-bit digest packing".into());
    }
    Ok(())
}
