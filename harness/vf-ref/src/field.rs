//! Reference prime fields and their extensions. Independent of /repo: plain integers (u128 with a
//! 256-bit product folded through p = 2^k - c for the 128-bit prime, cross-checked against
//! num-bigint in `selfcheck`), extension arithmetic as schoolbook polynomial multiplication followed
//! by reduction modulo the documented irreducible polynomial.

use num_bigint::BigUint;
use num_traits::{One, ToPrimitive, Zero};

#[derive(Clone, Copy, Debug, PartialEq, Eq)]
pub struct Fp {
    pub name: &'static str,
    pub p: u128,
    pub bits: u32,
    pub two_adicity: u32,
    /// documented multiplicative generator
    pub generator: u128,
    pub elem_bytes: usize,
}

/// 2^62 - 111 * 2^39 + 1
pub const F62: Fp = Fp {
    name: "f62",
    p: (1u128 << 62) - 111 * (1u128 << 39) + 1,
    bits: 62,
    two_adicity: 39,
    generator: 3,
    elem_bytes: 8,
};
/// 2^64 - 2^32 + 1
pub const F64: Fp = Fp {
    name: "f64",
    p: (1u128 << 64) - (1u128 << 32) + 1,
    bits: 64,
    two_adicity: 32,
    generator: 7,
    elem_bytes: 8,
};
/// 2^128 - 45 * 2^40 + 1
pub const F128: Fp = Fp {
    name: "f128",
    p: 0u128.wrapping_sub(45 * (1u128 << 40)).wrapping_add(1),
    bits: 128,
    two_adicity: 40,
    generator: 3,
    elem_bytes: 16,
};

fn mul_wide(a: u128, b: u128) -> (u128, u128) {
    let (a0, a1) = (a as u64 as u128, a >> 64);
    let (b0, b1) = (b as u64 as u128, b >> 64);
    let p00 = a0 * b0;
    let p01 = a0 * b1;
    let p10 = a1 * b0;
    let p11 = a1 * b1;
    let mid = (p00 >> 64) + (p01 as u64 as u128) + (p10 as u64 as u128);
    let lo = (p00 as u64 as u128) | (mid << 64);
    let hi = p11 + (p01 >> 64) + (p10 >> 64) + (mid >> 64);
    (hi, lo)
}

impl Fp {
    pub fn reduce(&self, a: u128) -> u128 {
        a % self.p
    }
    pub fn add(&self, a: u128, b: u128) -> u128 {
        debug_assert!(a < self.p && b < self.p);
        let (s, o) = a.overflowing_add(b);
        if o {
            // true sum = s + 2^128 ; subtract p once (sum < 2p)
            s.wrapping_sub(self.p)
        } else if s >= self.p {
            s - self.p
        } else {
            s
        }
    }
    pub fn neg(&self, a: u128) -> u128 {
        if a == 0 {
            0
        } else {
            self.p - a
        }
    }
    pub fn sub(&self, a: u128, b: u128) -> u128 {
        self.add(a, self.neg(b))
    }
    pub fn mul(&self, a: u128, b: u128) -> u128 {
        if self.p < (1u128 << 64) + 1 {
            // operands < 2^64: the product fits
            return (a * b) % self.p;
        }
        // p = 2^128 - c
        let c = 0u128.wrapping_sub(self.p);
        let (mut hi, mut lo) = mul_wide(a, b);
        while hi != 0 {
            // hi * 2^128 + lo == hi * c + lo (mod p)
            let (h2, l2) = mul_wide(hi, c);
            let (s, o) = l2.overflowing_add(lo);
            hi = h2 + o as u128;
            lo = s;
        }
        lo % self.p
    }
    pub fn mul_big(&self, a: u128, b: u128) -> u128 {
        ((BigUint::from(a) * BigUint::from(b)) % BigUint::from(self.p)).to_u128().unwrap()
    }
    pub fn pow(&self, a: u128, mut e: u128) -> u128 {
        let mut r = 1u128 % self.p;
        let mut b = a;
        while e > 0 {
            if e & 1 == 1 {
                r = self.mul(r, b);
            }
            b = self.mul(b, b);
            e >>= 1;
        }
        r
    }
    /// multiplicative inverse, 0 -> 0 (Fermat)
    pub fn inv(&self, a: u128) -> u128 {
        if a == 0 {
            0
        } else {
            self.pow(a, self.p - 2)
        }
    }
    pub fn div(&self, a: u128, b: u128) -> u128 {
        self.mul(a, self.inv(b))
    }
    /// generator^((p-1)/2^two_adicity)
    pub fn two_adic_root(&self) -> u128 {
        self.pow(self.generator, (self.p - 1) >> self.two_adicity)
    }
    /// principal root of unity of order 2^n derived from the documented generator
    pub fn root_of_unity(&self, n: u32) -> u128 {
        assert!(n <= self.two_adicity);
        self.pow(self.two_adic_root(), 1u128 << (self.two_adicity - n))
    }
    pub fn to_le_bytes(&self, a: u128) -> Vec<u8> {
        a.to_le_bytes()[..self.elem_bytes].to_vec()
    }
    pub fn from_le_bytes(&self, b: &[u8]) -> u128 {
        let mut buf = [0u8; 16];
        buf[..b.len()].copy_from_slice(b);
        u128::from_le_bytes(buf)
    }
}

pub type El = [u128; 3];

/// A base field (deg 1) or its documented quadratic / cubic extension.
#[derive(Clone, Copy, Debug, PartialEq, Eq)]
pub struct Field {
    pub fp: Fp,
    pub deg: usize,
    /// x^deg == red[0] + red[1] x + red[2] x^2  (residues)
    pub red: El,
}

impl Field {
    pub fn base(fp: Fp) -> Field {
        Field { fp, deg: 1, red: [0; 3] }
    }
    /// documented irreducibles: f62: x^2-x-1, x^3+2x+2 ; f64: x^2-x+2, x^3-x-1 ; f128: x^2-x-1
    pub fn ext(fp: Fp, deg: usize) -> Field {
        let p = fp.p;
        let red = match (fp.name, deg) {
            (_, 1) => [0, 0, 0],
            ("f62", 2) => [1, 1, 0],
            ("f62", 3) => [p - 2, p - 2, 0],
            ("f64", 2) => [p - 2, 1, 0],
            ("f64", 3) => [1, 1, 0],
            ("f128", 2) => [1, 1, 0],
            _ => panic!("unsupported extension"),
        };
        Field { fp, deg, red }
    }
    pub fn zero(&self) -> El {
        [0; 3]
    }
    pub fn one(&self) -> El {
        [1, 0, 0]
    }
    pub fn from_base(&self, a: u128) -> El {
        [a, 0, 0]
    }
    pub fn is_zero(&self, a: &El) -> bool {
        a.iter().all(|c| *c == 0)
    }
    pub fn add(&self, a: &El, b: &El) -> El {
        let mut r = [0; 3];
        for i in 0..self.deg {
            r[i] = self.fp.add(a[i], b[i]);
        }
        r
    }
    pub fn sub(&self, a: &El, b: &El) -> El {
        let mut r = [0; 3];
        for i in 0..self.deg {
            r[i] = self.fp.sub(a[i], b[i]);
        }
        r
    }
    pub fn neg(&self, a: &El) -> El {
        let mut r = [0; 3];
        for i in 0..self.deg {
            r[i] = self.fp.neg(a[i]);
        }
        r
    }
    pub fn mul(&self, a: &El, b: &El) -> El {
        let d = self.deg;
        if d == 1 {
            return [self.fp.mul(a[0], b[0]), 0, 0];
        }
        let mut prod = [0u128; 5];
        for i in 0..d {
            for j in 0..d {
                prod[i + j] = self.fp.add(prod[i + j], self.fp.mul(a[i], b[j]));
            }
        }
        for k in (d..=2 * d - 2).rev() {
            let c = prod[k];
            prod[k] = 0;
            for i in 0..d {
                prod[k - d + i] = self.fp.add(prod[k - d + i], self.fp.mul(c, self.red[i]));
            }
        }
        [prod[0], prod[1], if d == 3 { prod[2] } else { 0 }]
    }
    pub fn mul_base(&self, a: &El, b: u128) -> El {
        let mut r = [0; 3];
        for i in 0..self.deg {
            r[i] = self.fp.mul(a[i], b);
        }
        r
    }
    pub fn pow_big(&self, a: &El, e: &BigUint) -> El {
        let mut r = self.one();
        let bits = e.bits();
        for i in (0..bits).rev() {
            r = self.mul(&r, &r);
            if e.bit(i) {
                r = self.mul(&r, a);
            }
        }
        r
    }
    pub fn pow(&self, a: &El, mut e: u128) -> El {
        let mut r = self.one();
        let mut b = *a;
        while e > 0 {
            if e & 1 == 1 {
                r = self.mul(&r, &b);
            }
            b = self.mul(&b, &b);
            e >>= 1;
        }
        r
    }
    pub fn order(&self) -> BigUint {
        let p = BigUint::from(self.fp.p);
        let mut o = BigUint::one();
        for _ in 0..self.deg {
            o *= &p;
        }
        o
    }
    /// inverse via a^(q-2), 0 -> 0
    pub fn inv(&self, a: &El) -> El {
        if self.is_zero(a) {
            return self.zero();
        }
        if self.deg == 1 {
            return [self.fp.inv(a[0]), 0, 0];
        }
        let e = self.order() - BigUint::from(2u32);
        self.pow_big(a, &e)
    }
    pub fn div(&self, a: &El, b: &El) -> El {
        self.mul(a, &self.inv(b))
    }
    /// Frobenius x -> x^p, by definition
    pub fn frobenius(&self, a: &El) -> El {
        if self.deg == 1 {
            return *a;
        }
        self.pow(a, self.fp.p)
    }
    pub fn in_base(&self, a: &El) -> bool {
        a[1] == 0 && a[2] == 0
    }
    pub fn to_le_bytes(&self, a: &El) -> Vec<u8> {
        let mut v = vec![];
        for i in 0..self.deg {
            v.extend(self.fp.to_le_bytes(a[i]));
        }
        v
    }
}

/// self-test of the reference arithmetic itself (u128 folding vs num-bigint; irreducibility facts)
pub fn selfcheck() -> Result<(), String> {
    for fp in [F62, F64, F128] {
        let samples: Vec<u128> = vec![
            0,
            1,
            2,
            fp.p - 1,
            fp.p - 2,
            fp.p / 2,
            fp.p / 2 + 1,
            (1u128 << 32) % fp.p,
            ((1u128 << 64) - 1) % fp.p,
            0x1234_5678_9abc_def0_0fed_cba9_8765_4321u128 % fp.p,
            0xffff_ffff_ffff_ffff_ffff_ffff_0000_0000u128 % fp.p,
        ];
        for &a in &samples {
            for &b in &samples {
                if fp.mul(a, b) != fp.mul_big(a, b) {
                    return Err(format!("{}: mul({a},{b}) disagrees with bigint", fp.name));
                }
                let s = ((BigUint::from(a) + BigUint::from(b)) % BigUint::from(fp.p)).to_u128().unwrap();
                if fp.add(a, b) != s {
                    return Err(format!("{}: add({a},{b}) disagrees with bigint", fp.name));
                }
            }
            if a != 0 && fp.mul(a, fp.inv(a)) != 1 {
                return Err(format!("{}: inv({a})", fp.name));
            }
        }
        // p == k*2^s + 1 with k odd
        let k = (fp.p - 1) >> fp.two_adicity;
        if k & 1 != 1 || (k << fp.two_adicity) + 1 != fp.p {
            return Err(format!("{}: two-adicity", fp.name));
        }
        let w = fp.two_adic_root();
        if fp.pow(w, 1u128 << fp.two_adicity) != 1 || fp.pow(w, 1u128 << (fp.two_adicity - 1)) == 1 {
            return Err(format!("{}: two adic root order", fp.name));
        }
        if BigUint::from(fp.p).bits() != fp.bits as u64 {
            return Err(format!("{}: bits", fp.name));
        }
    }
    // the irreducibles have no root / are irreducible: x^(p^d) == x but x^p != x for the class of x
    for (fp, deg) in [(F62, 2), (F62, 3), (F64, 2), (F64, 3), (F128, 2)] {
        let f = Field::ext(fp, deg);
        let x: El = [0, 1, 0];
        let fx = f.frobenius(&x);
        if fx == x {
            return Err(format!("{} deg {deg}: x is fixed by Frobenius (polynomial has a root)", fp.name));
        }
        let mut y = x;
        for _ in 0..deg {
            y = f.frobenius(&y);
        }
        if y != x {
            return Err(format!("{} deg {deg}: Frobenius^deg != id", fp.name));
        }
        // every non-zero element invertible on samples
        for a in [[1, 1, 0], [fp.p - 1, 2, if deg == 3 { 5 } else { 0 }], [0, 0, if deg == 3 { 1 } else { 0 }]] {
            if f.is_zero(&a) {
                continue;
            }
            if f.mul(&a, &f.inv(&a)) != f.one() {
                return Err(format!("{} deg {deg}: inverse", fp.name));
            }
        }
    }
    let _ = BigUint::zero();
    Ok(())
}
