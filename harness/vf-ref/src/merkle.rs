//! Naive Merkle tree over an arbitrary digest type and a two-to-one hash closure: every level is
//! materialised, paths are read off the levels, roots are recomputed bottom-up. No node sharing, no
//! index tricks - this is the executable definition the openings of the library are compared with.

use std::collections::BTreeSet;

#[derive(Clone, Debug)]
pub struct NaiveTree<D> {
    /// levels[0] = leaves, levels[depth] = [root]
    pub levels: Vec<Vec<D>>,
}

impl<D: Clone + PartialEq> NaiveTree<D> {
    /// `leaves.len()` must be a power of two >= 2
    pub fn build(leaves: &[D], merge: &dyn Fn(&D, &D) -> D) -> NaiveTree<D> {
        assert!(leaves.len() >= 2 && leaves.len().is_power_of_two());
        let mut levels = vec![leaves.to_vec()];
        while levels.last().unwrap().len() > 1 {
            let prev = levels.last().unwrap();
            let next: Vec<D> = prev.chunks(2).map(|c| merge(&c[0], &c[1])).collect();
            levels.push(next);
        }
        NaiveTree { levels }
    }

    pub fn depth(&self) -> usize {
        self.levels.len() - 1
    }
    pub fn num_leaves(&self) -> usize {
        self.levels[0].len()
    }
    pub fn root(&self) -> &D {
        &self.levels[self.depth()][0]
    }
    pub fn leaf(&self, i: usize) -> &D {
        &self.levels[0][i]
    }

    /// authentication path in the documented layout: [leaf, sibling leaf, sibling at level 1, ...]
    /// (length depth + 1)
    pub fn path(&self, index: usize) -> Vec<D> {
        assert!(index < self.num_leaves());
        let mut p = vec![self.levels[0][index].clone()];
        let mut i = index;
        for lvl in 0..self.depth() {
            p.push(self.levels[lvl][i ^ 1].clone());
            i >>= 1;
        }
        p
    }

    /// is (position, leaf) a committed pair
    pub fn committed(&self, position: usize, leaf: &D) -> bool {
        position < self.num_leaves() && self.levels[0][position] == *leaf
    }

    /// the internal/leaf nodes a minimal batch opening for `positions` must carry: siblings of nodes
    /// on some queried path that are not themselves on a queried path; returned as (level, index)
    pub fn minimal_cover(&self, positions: &[usize]) -> Vec<(usize, usize)> {
        let mut on_path: BTreeSet<(usize, usize)> = BTreeSet::new();
        for &p in positions {
            let mut i = p;
            for lvl in 0..self.depth() {
                on_path.insert((lvl, i));
                i >>= 1;
            }
        }
        let mut need = BTreeSet::new();
        for &(lvl, i) in &on_path {
            if !on_path.contains(&(lvl, i ^ 1)) {
                need.insert((lvl, i ^ 1));
            }
        }
        need.into_iter().collect()
    }
}

/// root a single path resolves to for an in-range `index` of a tree of depth `path.len() - 1`;
/// None when the path is too short to be a path (fewer than 2 nodes) or the index is out of range
pub fn root_of_path<D: Clone>(index: usize, path: &[D], merge: &dyn Fn(&D, &D) -> D) -> Option<D> {
    if path.len() < 2 {
        return None;
    }
    let depth = path.len() - 1;
    if depth >= usize::BITS as usize || index >= (1usize << depth) {
        return None;
    }
    let mut v = path[0].clone();
    let mut i = index;
    for sib in &path[1..] {
        v = if i & 1 == 0 { merge(&v, sib) } else { merge(sib, &v) };
        i >>= 1;
    }
    Some(v)
}

pub fn selfcheck() -> Result<(), String> {
    // a toy "hash" that records structure: strings
    let merge = |a: &String, b: &String| format!("({a}{b})");
    let leaves: Vec<String> = "abcdefgh".chars().map(|c| c.to_string()).collect();
    let t = NaiveTree::build(&leaves, &merge);
    if t.root() != "(((ab)(cd))((ef)(gh)))" || t.depth() != 3 {
        return Err("naive tree root".into());
    }
    let p = t.path(5);
    if p != vec!["f".to_string(), "e".into(), "(gh)".into(), "((ab)(cd))".into()] {
        return Err("naive path".into());
    }
    if root_of_path(5, &p, &merge).as_deref() != Some(t.root().as_str()) {
        return Err("naive path root".into());
    }
    if root_of_path(4, &p, &merge).as_deref() == Some(t.root().as_str()) {
        return Err("naive path root for the wrong index".into());
    }
    if root_of_path(13, &p, &merge).is_some() || root_of_path(0, &p[..1], &merge).is_some() {
        return Err("naive path range".into());
    }
    // cover of {2,3,5} in 8 leaves: (0,4) sibling of 5, (1,0) sibling of (1,1), (1,3) sibling of (1,2)
    if t.minimal_cover(&[2, 3, 5]) != vec![(0, 4), (1, 0), (1, 3)] {
        return Err("minimal cover".into());
    }
    Ok(())
}
