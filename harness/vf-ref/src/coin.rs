//! Reference public coin on top of the reference hashers, following the documented construction:
//!
//! * state = (seed, counter); `new(elements)`: seed = hash_elements(elements), counter = 0;
//! * next value = hash(seed || ++counter)  (merge_with_int);
//! * `draw`: take the first ELEMENT_BYTES bytes of the next value; if every coefficient chunk is the
//!   little-endian encoding of an integer below p it is the element, otherwise try again, at most
//!   1000 times;
//! * `reseed(data)`: seed = hash(seed || data) (merge), counter = 0;
//! * `draw_integers(n, domain, nonce)`: seed = hash(seed || nonce), counter = 0; each of the n values
//!   is the first 8 bytes of the next value read little-endian, limited to the bits of the domain;
//! * proof-of-work measure of `v`: trailing zero bits of the first 8 bytes (little-endian) of
//!   hash(seed || v); the coin state is not changed.

use crate::hashes::{Dg, RefH};

#[derive(Clone, Debug)]
pub struct RefCoin {
    pub h: RefH,
    pub seed: Dg,
    pub counter: u64,
}

#[derive(Clone, Debug, PartialEq, Eq)]
pub struct FailedToDraw;

impl RefCoin {
    pub fn new(h: RefH, seed_residues: &[u128]) -> RefCoin {
        let seed = h.hash_elements(seed_residues);
        RefCoin { h, seed, counter: 0 }
    }

    fn next(&mut self) -> Dg {
        self.counter += 1;
        self.h.merge_with_int(&self.seed, self.counter)
    }

    pub fn reseed(&mut self, data: &Dg) {
        self.seed = self.h.merge(&self.seed, data);
        self.counter = 0;
    }

    /// draws an element of extension degree `deg` (1, 2, 3); coefficients returned as residues
    pub fn draw(&mut self, deg: usize) -> Result<[u128; 3], FailedToDraw> {
        let fp = self.h.fp;
        let eb = fp.elem_bytes;
        assert!(deg * eb <= 32);
        for _ in 0..1000 {
            let v = self.next();
            let bytes = self.h.as_bytes32(&v);
            let mut out = [0u128; 3];
            let mut ok = true;
            for c in 0..deg {
                let x = fp.from_le_bytes(&bytes[c * eb..(c + 1) * eb]);
                if x >= fp.p {
                    ok = false;
                    break;
                }
                out[c] = x;
            }
            if ok {
                return Ok(out);
            }
        }
        Err(FailedToDraw)
    }

    /// `domain` a power of two, `n < domain`
    pub fn draw_integers(&mut self, n: usize, domain: u64, nonce: u64) -> Vec<u64> {
        assert!(domain.is_power_of_two() && (n as u64) < domain);
        self.seed = self.h.merge_with_int(&self.seed, nonce);
        self.counter = 0;
        let mut out = Vec::with_capacity(n);
        for _ in 0..n {
            let v = self.next();
            let b = self.h.as_bytes32(&v);
            let x = u64::from_le_bytes(b[..8].try_into().unwrap());
            out.push(x & (domain - 1));
        }
        out
    }

    pub fn pow_measure(&self, value: u64) -> u32 {
        let d = self.h.merge_with_int(&self.seed, value);
        let b = self.h.as_bytes32(&d);
        let x = u64::from_le_bytes(b[..8].try_into().unwrap());
        x.trailing_zeros()
    }
}
