//! Textbook Rescue Prime (Rescue-XLIX) over plain integers modulo p, plus the three documented modes
//! of use (sponge with the element count in the capacity, sponge with Hirose-style padding, Jive
//! compression). Independent of the library under test: arithmetic is `Fp` (u128 `%`), the S-boxes are
//! `pow(x, alpha)` / `pow(x, alpha^-1 mod p-1)`, the linear layer is the plain matrix-vector product.
//!
//! Round function (algorithm 3 of eprint 2020/1143, as restated in the module docs of the hashers):
//!   state <- MDS * sbox(state) + ARK1[r];  state <- MDS * inv_sbox(state) + ARK2[r]      (7 rounds)

use crate::field::{Fp, F62, F64};
use crate::rescue_consts as k;

#[derive(Clone, Copy, Debug, PartialEq, Eq)]
pub enum Mode {
    /// element count in one capacity element, zero padding (Rp64_256, Rp62_248)
    LengthInCapacity,
    /// capacity flag + "append 1 then zeros" (RpJive64_256 sponge); merge / merge_with_int use Jive
    HiroseJive,
}

#[derive(Clone, Debug)]
pub struct Rescue {
    pub name: &'static str,
    pub fp: Fp,
    pub width: usize,
    pub rate_start: usize,
    pub rate_width: usize,
    /// index of the capacity element that receives the length / the flag
    pub cap_index: usize,
    pub digest_start: usize,
    pub alpha: u128,
    pub inv_alpha: u128,
    pub rounds: usize,
    pub mds: Vec<Vec<u128>>,
    pub inv_mds: Option<Vec<Vec<u128>>>,
    pub ark1: Vec<Vec<u128>>,
    pub ark2: Vec<Vec<u128>>,
    pub mode: Mode,
}

fn tab<const W: usize, const N: usize>(t: &[[u64; W]; N]) -> Vec<Vec<u128>> {
    t.iter().map(|r| r.iter().map(|v| *v as u128).collect()).collect()
}

impl Rescue {
    /// Rp64_256: state 12, capacity 0..4 (count in element 0), rate 4..12, digest 4..8, alpha 7
    pub fn rp64_256() -> Rescue {
        Rescue {
            name: "Rp64_256",
            fp: F64,
            width: 12,
            rate_start: 4,
            rate_width: 8,
            cap_index: 0,
            digest_start: 4,
            alpha: 7,
            inv_alpha: 10540996611094048183,
            rounds: 7,
            mds: tab(&k::RP64_MDS),
            inv_mds: Some(tab(&k::RP64_INV_MDS)),
            ark1: tab(&k::RP64_ARK1),
            ark2: tab(&k::RP64_ARK2),
            mode: Mode::LengthInCapacity,
        }
    }
    /// Rp62_248: state 12, rate 0..8, capacity 8..12 (count in the last element), digest 0..4, alpha 3
    pub fn rp62_248() -> Rescue {
        Rescue {
            name: "Rp62_248",
            fp: F62,
            width: 12,
            rate_start: 0,
            rate_width: 8,
            cap_index: 11,
            digest_start: 0,
            alpha: 3,
            inv_alpha: 3074416663688030891,
            rounds: 7,
            mds: tab(&k::RP62_MDS),
            inv_mds: None,
            ark1: tab(&k::RP62_ARK1),
            ark2: tab(&k::RP62_ARK2),
            mode: Mode::LengthInCapacity,
        }
    }
    /// RpJive64_256: state 8, capacity 0..4 (flag in element 0), rate 4..8, digest 4..8, alpha 7
    pub fn rp_jive64_256() -> Rescue {
        Rescue {
            name: "RpJive64_256",
            fp: F64,
            width: 8,
            rate_start: 4,
            rate_width: 4,
            cap_index: 0,
            digest_start: 4,
            alpha: 7,
            inv_alpha: 10540996611094048183,
            rounds: 7,
            mds: tab(&k::JIVE_MDS),
            inv_mds: Some(tab(&k::JIVE_INV_MDS)),
            ark1: tab(&k::JIVE_ARK1),
            ark2: tab(&k::JIVE_ARK2),
            mode: Mode::HiroseJive,
        }
    }

    pub fn mat_vec(&self, m: &[Vec<u128>], v: &[u128]) -> Vec<u128> {
        let fp = self.fp;
        m.iter()
            .map(|row| row.iter().zip(v).fold(0u128, |acc, (a, b)| fp.add(acc, fp.mul(*a % fp.p, *b))))
            .collect()
    }

    pub fn sbox(&self, s: &mut [u128]) {
        for x in s.iter_mut() {
            *x = self.fp.pow(*x, self.alpha);
        }
    }
    pub fn inv_sbox(&self, s: &mut [u128]) {
        for x in s.iter_mut() {
            *x = self.fp.pow(*x, self.inv_alpha);
        }
    }
    pub fn mds_mul(&self, s: &mut [u128]) {
        let r = self.mat_vec(&self.mds, s);
        s.copy_from_slice(&r);
    }
    pub fn add_consts(&self, s: &mut [u128], c: &[u128]) {
        for (x, c) in s.iter_mut().zip(c) {
            *x = self.fp.add(*x, *c % self.fp.p);
        }
    }

    /// one full round (both halves)
    pub fn round(&self, s: &mut [u128], r: usize) {
        assert_eq!(s.len(), self.width);
        self.sbox(s);
        self.mds_mul(s);
        self.add_consts(s, &self.ark1[r]);
        self.inv_sbox(s);
        self.mds_mul(s);
        self.add_consts(s, &self.ark2[r]);
    }

    pub fn permutation(&self, s: &mut [u128]) {
        for r in 0..self.rounds {
            self.round(s, r);
        }
    }

    fn digest_of(&self, s: &[u128]) -> [u128; 4] {
        [s[self.digest_start], s[self.digest_start + 1], s[self.digest_start + 2], s[self.digest_start + 3]]
    }

    /// Sponge over a list of residues, as the module docs describe it.
    ///
    /// * `LengthInCapacity`: one capacity element is initialised to the number of elements, the
    ///   sequence is padded with zeros only, elements are *added* into the rate, the permutation is
    ///   applied after every full block and once more if a partial block remains.
    /// * `HiroseJive`: the first capacity element is 1 iff the count is not a multiple of the rate;
    ///   a partial last block is padded by a 1 followed by zeros. (The padding values are *written*
    ///   into the rate positions rather than added; the docs do not decide between the two and the
    ///   behaviour is pinned as observed - recorded as an assumption by the checks.)
    pub fn hash_elements(&self, els: &[u128]) -> [u128; 4] {
        let fp = self.fp;
        let mut s = vec![0u128; self.width];
        match self.mode {
            Mode::LengthInCapacity => s[self.cap_index] = (els.len() as u128) % fp.p,
            Mode::HiroseJive => {
                if els.len() % self.rate_width != 0 {
                    s[self.cap_index] = 1
                }
            },
        }
        let mut blocks = els.chunks(self.rate_width).peekable();
        while let Some(block) = blocks.next() {
            for (i, e) in block.iter().enumerate() {
                s[self.rate_start + i] = fp.add(s[self.rate_start + i], *e % fp.p);
            }
            if block.len() < self.rate_width && self.mode == Mode::HiroseJive {
                s[self.rate_start + block.len()] = 1;
                for i in block.len() + 1..self.rate_width {
                    s[self.rate_start + i] = 0;
                }
            }
            self.permutation(&mut s);
        }
        self.digest_of(&s)
    }

    /// Documented byte mode: the string is cut into 7-byte chunks (every 7-byte chunk maps to a field
    /// element), a byte with value 1 is appended to the end of the string (i.e. after the last
    /// chunk's bytes, inside its 8-byte little-endian word), each chunk is read as a little-endian
    /// integer, and the resulting ceil(len/7) elements are absorbed like an element list.
    pub fn bytes_to_elements(&self, bytes: &[u8]) -> Vec<u128> {
        let n = bytes.len().div_ceil(7);
        bytes
            .chunks(7)
            .enumerate()
            .map(|(i, c)| {
                let mut buf = [0u8; 8];
                buf[..c.len()].copy_from_slice(c);
                if i == n - 1 {
                    buf[c.len()] = 1;
                }
                (u64::from_le_bytes(buf) as u128) % self.fp.p
            })
            .collect()
    }

    pub fn hash_bytes(&self, bytes: &[u8]) -> [u128; 4] {
        self.hash_elements(&self.bytes_to_elements(bytes))
    }

    fn jive(&self, init: &[u128]) -> [u128; 4] {
        let fp = self.fp;
        let mut s = init.to_vec();
        self.permutation(&mut s);
        let mut r = [0u128; 4];
        for i in 0..4 {
            r[i] = fp.add(fp.add(init[i], init[4 + i]), fp.add(s[i], s[4 + i]));
        }
        r
    }

    /// merge of two digests: sponge modes hash the 8 elements; Jive compresses the 8-element state
    pub fn merge(&self, a: &[u128; 4], b: &[u128; 4]) -> [u128; 4] {
        let mut v = a.to_vec();
        v.extend_from_slice(b);
        match self.mode {
            Mode::LengthInCapacity => self.hash_elements(&v),
            Mode::HiroseJive => self.jive(&v),
        }
    }

    /// elements an integer is split into: [v mod p] if v < p, else [v mod p, v div p]
    pub fn int_elements(&self, v: u64) -> Vec<u128> {
        let p = self.fp.p;
        let v = v as u128;
        if v < p {
            vec![v]
        } else {
            vec![v % p, v / p]
        }
    }

    /// hash(seed || value): sponge modes hash seed || int_elements(value) (5 or 6 elements); Jive puts
    /// the seed in elements 0..4, the integer element(s) in 4 (and 5) and the element count (5 or 6)
    /// in the last state element, then compresses.
    pub fn merge_with_int(&self, seed: &[u128; 4], v: u64) -> [u128; 4] {
        let ie = self.int_elements(v);
        match self.mode {
            Mode::LengthInCapacity => {
                let mut els = seed.to_vec();
                els.extend_from_slice(&ie);
                self.hash_elements(&els)
            },
            Mode::HiroseJive => {
                let mut s = vec![0u128; 8];
                s[..4].copy_from_slice(seed);
                for (i, e) in ie.iter().enumerate() {
                    s[4 + i] = *e;
                }
                s[7] = 4 + ie.len() as u128;
                self.jive(&s)
            },
        }
    }
}

fn gcd(a: u128, b: u128) -> u128 {
    if b == 0 {
        a
    } else {
        gcd(b, a % b)
    }
}

/// Verifies the algebraic facts the construction relies on and the published permutation vectors
/// ("expected values are obtained by executing sage reference implementation code").
pub fn selfcheck() -> Result<(), String> {
    let vec64: [u128; 12] = [
        11084501481526603421,
        6291559951628160880,
        13626645864671311919,
        18397438323058963117,
        7443014167353970324,
        17930833023906771425,
        4275355080008025761,
        7676681476902901785,
        3460534574143792217,
        11912731278641497187,
        8104899243369883110,
        674509706691634438,
    ];
    let vec62: [u128; 12] = [
        2176593392043442589,
        3663362000910009411,
        2446978550600442325,
        4214718471639678996,
        4179776369445579812,
        2274316532403536457,
        2336761070419368662,
        3192888412646553651,
        4092565229845701133,
        753437048204208885,
        4067414342325289862,
        3516613610105678931,
    ];
    let vecj: [u128; 8] = [
        16940713730596720799,
        16218555904323712189,
        11042680722444601138,
        5370396747047489939,
        6349480890410006944,
        1551053614279730715,
        3995941143622927528,
        9350074312471431779,
    ];
    for (r, want) in [(Rescue::rp64_256(), &vec64[..]), (Rescue::rp62_248(), &vec62[..]), (Rescue::rp_jive64_256(), &vecj[..])] {
        let fp = r.fp;
        // exponents
        if gcd(r.alpha, fp.p - 1) != 1 {
            return Err(format!("{}: alpha is not coprime to p-1", r.name));
        }
        // alpha * inv_alpha == 1 mod p-1   (256-bit product avoided: both < 2^64)
        if (r.alpha * r.inv_alpha) % (fp.p - 1) != 1 {
            return Err(format!("{}: alpha * inv_alpha != 1 mod p-1", r.name));
        }
        for x in [2u128, 3, fp.p - 1, fp.p - 2, 0x1234_5678_9abc_def0 % fp.p] {
            if fp.pow(fp.pow(x, r.alpha), r.inv_alpha) != x {
                return Err(format!("{}: inverse S-box does not invert the S-box on {x}", r.name));
            }
        }
        // tables are reduced residues of the right shape
        let w = r.width;
        if r.mds.len() != w || r.ark1.len() != r.rounds || r.ark2.len() != r.rounds {
            return Err(format!("{}: table shape", r.name));
        }
        for row in r.mds.iter().chain(r.ark1.iter()).chain(r.ark2.iter()) {
            if row.len() != w || row.iter().any(|v| *v >= fp.p) {
                return Err(format!("{}: table entry out of range", r.name));
            }
        }
        // MDS * INV_MDS = I (published inverse) or invertibility by elimination
        match &r.inv_mds {
            Some(inv) => {
                for i in 0..w {
                    for j in 0..w {
                        let mut acc = 0u128;
                        for t in 0..w {
                            acc = fp.add(acc, fp.mul(r.mds[i][t], inv[t][j]));
                        }
                        if acc != (i == j) as u128 {
                            return Err(format!("{}: MDS * INV_MDS != I at ({i},{j})", r.name));
                        }
                    }
                }
            },
            None => {
                let mut m = r.mds.clone();
                for c in 0..w {
                    let Some(pr) = (c..w).find(|&i| m[i][c] != 0) else {
                        return Err(format!("{}: MDS matrix is singular", r.name));
                    };
                    m.swap(c, pr);
                    let inv = fp.inv(m[c][c]);
                    for i in c + 1..w {
                        let f = fp.mul(m[i][c], inv);
                        for j in c..w {
                            let t = fp.mul(f, m[c][j]);
                            m[i][j] = fp.sub(m[i][j], t);
                        }
                    }
                }
            },
        }
        // circulant structure documented for the two f64 matrices
        if r.fp.name == "f64" {
            for i in 0..w {
                for j in 0..w {
                    if r.mds[i][j] != r.mds[0][(j + w - i) % w] {
                        return Err(format!("{}: MDS is not the documented circulant matrix", r.name));
                    }
                }
            }
            let first: Vec<u128> = if w == 12 {
                vec![7, 23, 8, 26, 13, 10, 9, 7, 6, 22, 21, 8]
            } else {
                vec![23, 8, 13, 10, 7, 6, 21, 8]
            };
            if r.mds[0] != first {
                return Err(format!("{}: first MDS row differs from the documented one", r.name));
            }
        }
        // published vector
        let mut s: Vec<u128> = (0..w as u128).collect();
        r.permutation(&mut s);
        if s != want {
            return Err(format!("{}: reference permutation disagrees with the published test vector", r.name));
        }
    }
    Ok(())
}
