//! Schoolbook polynomial arithmetic over a reference `Field` (coefficients in ascending order).

use crate::field::{El, Field};

pub type Poly = Vec<El>;

pub fn degree(f: &Field, p: &[El]) -> usize {
    for i in (0..p.len()).rev() {
        if !f.is_zero(&p[i]) {
            return i;
        }
    }
    0
}

pub fn is_zero(f: &Field, p: &[El]) -> bool {
    p.iter().all(|c| f.is_zero(c))
}

pub fn trim(f: &Field, p: &[El]) -> Poly {
    let mut v = p.to_vec();
    while v.len() > 1 && f.is_zero(v.last().unwrap()) {
        v.pop();
    }
    v
}

/// equality as polynomials (ignoring leading zeros)
pub fn eq(f: &Field, a: &[El], b: &[El]) -> bool {
    let n = a.len().max(b.len());
    for i in 0..n {
        let x = a.get(i).copied().unwrap_or([0; 3]);
        let y = b.get(i).copied().unwrap_or([0; 3]);
        if x != y {
            return false;
        }
    }
    let _ = f;
    true
}

pub fn eval(f: &Field, p: &[El], x: &El) -> El {
    let mut acc = f.zero();
    for c in p.iter().rev() {
        acc = f.add(&f.mul(&acc, x), c);
    }
    acc
}

pub fn add(f: &Field, a: &[El], b: &[El]) -> Poly {
    let n = a.len().max(b.len());
    (0..n)
        .map(|i| f.add(&a.get(i).copied().unwrap_or([0; 3]), &b.get(i).copied().unwrap_or([0; 3])))
        .collect()
}

pub fn sub(f: &Field, a: &[El], b: &[El]) -> Poly {
    let n = a.len().max(b.len());
    (0..n)
        .map(|i| f.sub(&a.get(i).copied().unwrap_or([0; 3]), &b.get(i).copied().unwrap_or([0; 3])))
        .collect()
}

pub fn mul(f: &Field, a: &[El], b: &[El]) -> Poly {
    if a.is_empty() || b.is_empty() {
        return vec![];
    }
    let mut r = vec![f.zero(); a.len() + b.len() - 1];
    for (i, x) in a.iter().enumerate() {
        if f.is_zero(x) {
            continue;
        }
        for (j, y) in b.iter().enumerate() {
            r[i + j] = f.add(&r[i + j], &f.mul(x, y));
        }
    }
    r
}

pub fn scale(f: &Field, a: &[El], k: &El) -> Poly {
    a.iter().map(|c| f.mul(c, k)).collect()
}

/// long division: returns (quotient, remainder) with deg r < deg b; b must be non-zero
pub fn divrem(f: &Field, a: &[El], b: &[El]) -> (Poly, Poly) {
    let b = trim(f, b);
    assert!(!is_zero(f, &b));
    let db = b.len() - 1;
    let mut r = a.to_vec();
    if r.len() <= db {
        return (vec![f.zero()], r);
    }
    let mut q = vec![f.zero(); r.len() - db];
    let lead_inv = f.inv(&b[db]);
    for i in (db..r.len()).rev() {
        let c = f.mul(&r[i], &lead_inv);
        if f.is_zero(&c) {
            continue;
        }
        q[i - db] = c;
        for j in 0..=db {
            r[i - db + j] = f.sub(&r[i - db + j], &f.mul(&c, &b[j]));
        }
    }
    r.truncate(db.max(1));
    if db == 0 {
        r = vec![f.zero()];
    }
    (q, r)
}

/// monic polynomial vanishing exactly on `roots` (with multiplicity)
pub fn from_roots(f: &Field, roots: &[El]) -> Poly {
    let mut p = vec![f.one()];
    for r in roots {
        p = mul(f, &p, &[f.neg(r), f.one()]);
    }
    p
}

/// Lagrange interpolation through distinct xs
pub fn lagrange(f: &Field, xs: &[El], ys: &[El]) -> Poly {
    let n = xs.len();
    let mut res = vec![f.zero(); n.max(1)];
    for i in 0..n {
        let mut num = vec![f.one()];
        let mut den = f.one();
        for j in 0..n {
            if i == j {
                continue;
            }
            num = mul(f, &num, &[f.neg(&xs[j]), f.one()]);
            den = f.mul(&den, &f.sub(&xs[i], &xs[j]));
        }
        let k = f.mul(&ys[i], &f.inv(&den));
        let term = scale(f, &num, &k);
        res = add(f, &res, &term);
    }
    res.truncate(n.max(1));
    res
}

/// naive evaluation over the coset offset * w^i, i = 0..n
pub fn eval_domain(f: &Field, p: &[El], w: u128, offset: u128, n: usize) -> Vec<El> {
    let mut x = offset;
    let mut out = Vec::with_capacity(n);
    for _ in 0..n {
        out.push(eval(f, p, &f.from_base(x)));
        x = f.fp.mul(x, w);
    }
    out
}
