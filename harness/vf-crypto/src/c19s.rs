//! C19, scripted candidates: the rejection sampling of `DefaultRandomCoin::draw` driven with chosen
//! candidate bytes. A real hash function reaches the interesting candidates (the modulus itself, the
//! values just above it, the top of the byte range) with probability 2^-60 or less, so the coin is run
//! over a scripted `Hasher` whose `merge_with_int` returns the next digest of a list.
//!
//! Oracle (documented construction): the drawn element is the first candidate all of whose coefficient
//! chunks (ELEMENT_BYTES little-endian bytes each) encode integers below the modulus; every earlier
//! candidate is skipped, nothing after it is consumed, the element is canonical.

use std::cell::RefCell;
use std::collections::VecDeque;
use std::marker::PhantomData;

use proptest::prelude::*;
use serde::{Deserialize, Serialize};
use vf_core::{catch, ensure, CheckResult, Fail, Obs, SubCheck, Tier, X};
use vf_repo::prelude::*;
use winter_crypto::hashers::Blake3_256;
use winter_crypto::{DefaultRandomCoin, ElementHasher, Hasher, RandomCoin};
use winter_math::fields::{CubeExtension, QuadExtension};
use winter_math::FieldElement;
use winter_utils::Deserializable;

thread_local! {
    static SCRIPT: RefCell<VecDeque<[u8; 32]>> = const { RefCell::new(VecDeque::new()) };
}

pub struct ScriptedHasher<B>(PhantomData<B>);

type D<B> = <Blake3_256<B> as Hasher>::Digest;

fn dg<B: FA>(b: [u8; 32]) -> D<B> {
    D::<B>::read_from_bytes(&b).expect("32-byte digest")
}

impl<B: FA> Hasher for ScriptedHasher<B> {
    type Digest = D<B>;
    const COLLISION_RESISTANCE: u32 = 128;
    fn hash(_bytes: &[u8]) -> Self::Digest {
        dg::<B>([0; 32])
    }
    fn merge(_values: &[Self::Digest; 2]) -> Self::Digest {
        dg::<B>([0; 32])
    }
    fn merge_with_int(_seed: Self::Digest, _value: u64) -> Self::Digest {
        // past the end of the script every candidate is the zero element
        dg::<B>(SCRIPT.with(|s| s.borrow_mut().pop_front()).unwrap_or([0; 32]))
    }
}

impl<B: FA> ElementHasher for ScriptedHasher<B> {
    type BaseField = B;
    fn hash_elements<E: FieldElement<BaseField = B>>(_elements: &[E]) -> Self::Digest {
        dg::<B>([0; 32])
    }
}

#[derive(Serialize, Deserialize, Clone, Debug)]
pub struct CandCase {
    /// extension degree of the drawn element (1, 2, 3; reduced to what the field supports)
    pub deg: u8,
    /// candidates: per coefficient (class, raw); class selects a boundary value, raw feeds the random classes
    pub cands: Vec<[(u8, X); 3]>,
    pub filler: u8,
}

pub struct Scripted<B>(pub PhantomData<B>);

/// candidate coefficient (an integer below 2^(8 * ELEMENT_BYTES)) for a class
fn coefficient(fp: &Fp, class: u8, raw: u128) -> (u128, &'static str) {
    let top: u128 = if fp.elem_bytes == 16 { u128::MAX } else { (1u128 << (8 * fp.elem_bytes)) - 1 };
    let p = fp.p;
    match class % 12 {
        0 => (0, "0"),
        1 => (1, "1"),
        2 => (p - 1, "p-1"),
        3 => (p, "p"),
        4 => (p.saturating_add(1).min(top), "p+1"),
        5 => (top, "top-of-byte-range"),
        6 => ((1u128 << (fp.bits - 1)).wrapping_shl(1).wrapping_sub(1).min(top), "2^bits-1"),
        7 => (p.checked_mul(2).map(|v| v.min(top)).unwrap_or(top), "2p"),
        8 => (p.checked_mul(2).map(|v| (v - 1).min(top)).unwrap_or(top - 1), "2p-1"),
        9 => (p + (raw % (top - p + 1)), "random>=p"),
        _ => (raw % p, "random<p"),
    }
}

fn play<B: FA, E: FieldElement<BaseField = B>>(c: &CandCase, deg: usize, obs: &mut Obs) -> CheckResult {
    let fp = B::FP;
    let eb = fp.elem_bytes;
    let name = format!("{}^{deg}", fp.name);
    let mut script: VecDeque<[u8; 32]> = VecDeque::new();
    let mut expected: Option<(usize, Vec<u128>)> = None;
    for (i, cand) in c.cands.iter().enumerate() {
        let mut bytes = [c.filler; 32];
        let mut coeffs = vec![];
        for k in 0..deg {
            let (v, class) = coefficient(&fp, cand[k].0, cand[k].1 .0);
            obs.label(format!("candidate={class}"));
            bytes[k * eb..(k + 1) * eb].copy_from_slice(&v.to_le_bytes()[..eb]);
            coeffs.push(v);
        }
        if expected.is_none() && coeffs.iter().all(|v| *v < fp.p) {
            expected = Some((i, coeffs));
        }
        script.push_back(bytes);
    }
    let (idx, want) = expected.unwrap_or((c.cands.len(), vec![0; deg]));
    obs.label(format!("rejected-before-accept={}", idx.min(4)));
    let total = script.len();
    SCRIPT.with(|s| *s.borrow_mut() = script);
    let mut coin = DefaultRandomCoin::<ScriptedHasher<B>>::new(&[]);
    let r = catch(|| coin.draw::<E>());
    let left = SCRIPT.with(|s| std::mem::take(&mut *s.borrow_mut())).len();
    let e = match r {
        Err(p) => return Err(Fail::new(format!("scripted/{}", p.key()), format!("{name}: draw panicked: {}", p.msg))),
        Ok(Err(err)) => return Err(Fail::new("scripted/draw-failed", format!("{name}: draw failed although candidate {idx} is valid: {err}"))),
        Ok(Ok(e)) => e,
    };
    obs.nontrivial_if(idx > 0);
    let f = ref_field::<E>();
    let mut want_el: El = [0; 3];
    want_el[..deg].copy_from_slice(&want);
    let bytes = e.to_bytes();
    ensure!(
        bytes == f.to_le_bytes(&want_el),
        "scripted/wrong-candidate-or-non-canonical",
        "{name}: candidates {:?}: the documented construction draws {:?} (candidate {idx}); the coin returned an element with bytes {:?}",
        c.cands.iter().map(|cd| (0..deg).map(|k| coefficient(&fp, cd[k].0, cd[k].1 .0).0).collect::<Vec<_>>()).collect::<Vec<_>>(),
        want,
        bytes
    );
    ensure!(e == from_el::<E>(&want_el) && e + E::ZERO == e, "scripted/not-the-canonical-element", "{name}: drawn element is not equal to the element built from its residues {want:?}");
    // proof-of-work measure of a chosen digest: the number of trailing zero bits of its first eight bytes read
    // little-endian (as implemented and as used by prover and verifier alike), for every count 0..=64
    {
        let z = (c.filler as u32 * 7 + c.cands.len() as u32) % 66;
        let noise = c.cands[0][0].1 .0 as u64;
        let head: u64 = match z {
            64.. => 0,
            63 => 1u64 << 63,
            _ => (1u64 << z) | (noise << (z + 1)),
        };
        let mut d = [c.filler; 32];
        d[..8].copy_from_slice(&head.to_le_bytes());
        SCRIPT.with(|s| *s.borrow_mut() = VecDeque::from(vec![d]));
        let m = catch(|| coin.check_leading_zeros(noise)).map_err(|p| Fail::new(format!("scripted/pow/{}", p.key()), p.msg.clone()))?;
        SCRIPT.with(|s| s.borrow_mut().clear());
        obs.label(match head.trailing_zeros() {
            0..=31 => "pow-zeros<32",
            32 => "pow-zeros=32",
            33..=63 => "pow-zeros=33..63",
            _ => "pow-zeros=64",
        });
        ensure!(
            m == head.trailing_zeros(),
            "scripted/pow-measure",
            "{name}: proof-of-work measure {m} for a digest whose first eight bytes (little-endian) have {} trailing zero bits",
            head.trailing_zeros()
        );
    }
    let used = total - left;
    ensure!(
        if idx < total { used == idx + 1 } else { left == 0 },
        "scripted/candidates-consumed",
        "{name}: {used} candidates were consumed, the first valid one is number {idx}"
    );
    Ok(())
}

impl<B: FA> SubCheck for Scripted<B> {
    type Case = CandCase;
    fn name(&self) -> String {
        format!("scripted-candidates/{}", B::FP.name)
    }
    fn cases(&self, tier: Tier) -> u64 {
        tier.pick(200_000, 4_000_000)
    }
    fn rule(&self) -> String {
        "DefaultRandomCoin over a scripted hasher: 1..6 candidate digests whose coefficient chunks are drawn from {0, 1, p-1, p, p+1, 2p-1, 2p, 2^bits-1, top of the byte range, random >= p, random < p}; base, quadratic and cubic draws; oracle = first candidate with every coefficient below p, canonical, nothing consumed after it; plus the proof-of-work measure of a scripted digest with 0..64 trailing zero bits in its first eight bytes; non-trivial = at least one candidate had to be rejected".into()
    }
    fn required_labels(&self, _t: Tier) -> Vec<String> {
        ["candidate=p", "candidate=p+1", "candidate=p-1", "candidate=top-of-byte-range", "rejected-before-accept=0", "rejected-before-accept=2", "pow-zeros<32", "pow-zeros=32", "pow-zeros=33..63", "pow-zeros=64"].iter().map(|s| s.to_string()).collect()
    }
    fn strategy(&self, _tier: Tier) -> BoxedStrategy<CandCase> {
        let coef = (0u8..12, any::<u128>().prop_map(X));
        (1u8..=3, prop::collection::vec([coef.clone(), coef.clone(), coef], 1..=6), any::<u8>())
            .prop_map(|(deg, cands, filler)| CandCase { deg, cands, filler })
            .boxed()
    }
    fn check(&self, c: &CandCase, obs: &mut Obs) -> CheckResult {
        let max_deg = if B::cubic_supported() && 3 * B::FP.elem_bytes <= 32 { 3 } else { 2 };
        let deg = (c.deg as usize).clamp(1, max_deg);
        obs.label(format!("degree={deg}"));
        match deg {
            1 => play::<B, B>(c, 1, obs),
            2 => play::<B, QuadExtension<B>>(c, 2, obs),
            _ => play::<B, CubeExtension<B>>(c, 3, obs),
        }
    }
}
