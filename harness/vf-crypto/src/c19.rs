//! C19 — public coin contract (stateful).
//!
//! Histories over {new, reseed, draw<base|quad|cube>, draw_integers, check_leading_zeros} are run on
//! two real coins (one fed with the generated elements / digests in whatever internal representation
//! they have, one with the same residues rebuilt canonically) and on `vf_ref::coin::RefCoin` (the
//! documented construction on top of the reference hashers). Then minimally different histories are
//! run on fresh real coins and the next four base-field draws must differ.

use std::marker::PhantomData;

use proptest::prelude::*;
use serde::{Deserialize, Serialize};
use vf_core::{catch, ensure, CheckResult, Fail, Obs, Run, SubCheck, Tier};
use vf_ref::coin::RefCoin;
use vf_ref::hashes::Dg;
use vf_repo::prelude::*;
use winter_crypto::hashers::{Blake3_192, Blake3_256, Rp62_248, Rp64_256, RpJive64_256, Sha3_256};
use winter_crypto::{DefaultRandomCoin, RandomCoin, RandomCoinError};
use winter_math::FieldElement;

use crate::ha::{digest_from_words, pkey, HA};

#[derive(Serialize, Deserialize, Clone, Debug)]
pub enum Op {
    Reseed([Src; 4]),
    DrawBase,
    DrawQuad,
    DrawCube,
    /// count < 2^log_domain (accepted request)
    Ints { count: u16, log_domain: u8, nonce: u64 },
    /// a request the docs refuse (count >= domain, or a domain that is not a power of two): documented panic
    BadInts { count: u16, domain: u32, nonce: u64 },
    Pow(u64),
    /// the prover's grinding loop: first nonce 0, 1, 2, .. whose measure reaches the factor
    Grind(u8),
}

#[derive(Serialize, Deserialize, Clone, Debug)]
pub struct CoinCase {
    pub seed: Vec<Src>,
    pub ops: Vec<Op>,
    /// selector for the place where a minimally different history deviates
    pub vsel: u16,
}

#[derive(Clone, Debug, PartialEq, Eq)]
pub enum Out {
    Elem(Vec<u128>),
    DrawFailed,
    Ints(Vec<u64>),
    Pow(u32),
    Nonce(u64),
    DocPanic,
    None,
}

pub struct History<B, H> {
    small_counts: bool,
    cases_q: u64,
    cases_t: u64,
    _p: PhantomData<(B, H)>,
}

type Coin<H> = DefaultRandomCoin<H>;

fn draw_typed<B: FA, H: HA<B>, E: FieldElement<BaseField = B>>(coin: &mut Coin<H>, what: &str) -> Result<Out, Fail> {
    let name = H::full_name();
    let r = catch(|| coin.draw::<E>()).map_err(|p| Fail::new(format!("{what}/{}", pkey(&p)), format!("{name}: {what} panicked: {}", p.msg)))?;
    match r {
        Ok(e) => {
            let el = to_el(&e);
            let f = ref_field::<E>();
            let bytes = e.to_bytes();
            // (iv) canonical serialization, accepted by Deserializable, round trip
            ensure!(
                bytes == f.to_le_bytes(&el),
                format!("{what}/non-canonical-bytes"),
                "{name}: {what}: drawn element serializes to {:?}, canonical little-endian bytes of its coefficients {:?} are different",
                bytes,
                &el[..f.deg]
            );
            for c in 0..f.deg {
                ensure!(el[c] < B::FP.p, format!("{what}/coefficient-range"), "{name}: {what}: coefficient {c} = {} is not below the modulus", el[c]);
            }
            let back = E::read_from_bytes(&bytes)
                .map_err(|err| Fail::new(format!("{what}/deserialize-refused"), format!("{name}: {what}: Deserializable refuses the bytes of a drawn element: {err}")))?;
            ensure!(back == e && e == back, format!("{what}/roundtrip"), "{name}: {what}: drawn element does not round-trip through its bytes");
            Ok(Out::Elem(el[..f.deg].to_vec()))
        },
        Err(RandomCoinError::FailedToDrawFieldElement(n)) => {
            ensure!(n == 1000, format!("{what}/tries"), "{name}: {what}: reported {n} tries, documented 1000");
            Ok(Out::DrawFailed)
        },
        Err(e) => Err(Fail::new(format!("{what}/unexpected-error"), format!("{name}: {what}: {e}"))),
    }
}

fn apply_real<B: FA, H: HA<B>>(coin: &mut Coin<H>, op: &Op, digest: Option<H::Digest>, obs: &mut Obs) -> Result<Out, Fail> {
    let name = H::full_name();
    match op {
        Op::Reseed(_) => {
            let d = digest.expect("digest for reseed");
            catch(|| coin.reseed(d)).map_err(|p| Fail::new(format!("reseed/{}", pkey(&p)), format!("{name}: reseed panicked: {}", p.msg)))?;
            Ok(Out::None)
        },
        Op::DrawBase => draw_typed::<B, H, B>(coin, "draw-base"),
        Op::DrawQuad => draw_typed::<B, H, Q<B>>(coin, "draw-quad"),
        Op::DrawCube => {
            if B::cubic_supported() {
                draw_typed::<B, H, C<B>>(coin, "draw-cube")
            } else {
                Ok(Out::None)
            }
        },
        Op::Ints { count, log_domain, nonce } => {
            let (count, domain) = (*count as usize, 1usize << *log_domain);
            let r = catch(|| coin.draw_integers(count, domain, *nonce))
                .map_err(|p| Fail::new(format!("draw_integers/{}", pkey(&p)), format!("{name}: draw_integers({count}, {domain}, {nonce}) panicked: {}", p.msg)))?;
            let v = r.map_err(|e| Fail::new("draw_integers/error", format!("{name}: draw_integers({count}, {domain}, {nonce}) failed: {e}")))?;
            obs.comparisons += 1;
            // (v) exactly count values, each below the domain size
            ensure!(v.len() == count, "draw_integers/count", "{name}: draw_integers({count}, {domain}, _) returned {} values", v.len());
            ensure!(v.iter().all(|x| *x < domain), "draw_integers/range", "{name}: draw_integers({count}, {domain}, _) returned a value outside the domain");
            Ok(Out::Ints(v.into_iter().map(|x| x as u64).collect()))
        },
        Op::BadInts { count, domain, nonce } => {
            let r = catch(|| coin.draw_integers(*count as usize, *domain as usize, *nonce));
            ensure!(r.is_err(), "draw_integers/doc-panic-missing", "{name}: draw_integers({count}, {domain}, _) must panic as documented");
            Ok(Out::DocPanic)
        },
        Op::Pow(v) => {
            let z = catch(|| coin.check_leading_zeros(*v)).map_err(|p| Fail::new(format!("pow/{}", pkey(&p)), format!("{name}: check_leading_zeros panicked: {}", p.msg)))?;
            Ok(Out::Pow(z))
        },
        Op::Grind(f) => {
            let n = catch(|| (0u64..1 << 20).find(|n| coin.check_leading_zeros(*n) >= *f as u32))
                .map_err(|p| Fail::new(format!("pow/{}", pkey(&p)), format!("{name}: check_leading_zeros panicked: {}", p.msg)))?
                .ok_or_else(|| Fail::new("harness/grind", "no nonce below 2^20"))?;
            Ok(Out::Nonce(n))
        },
    }
}

fn apply_ref<B: FA>(coin: &mut RefCoin, op: &Op, digest: Option<&Dg>) -> Out {
    match op {
        Op::Reseed(_) => {
            coin.reseed(digest.expect("digest"));
            Out::None
        },
        Op::DrawBase => coin.draw(1).map(|e| Out::Elem(e[..1].to_vec())).unwrap_or(Out::DrawFailed),
        Op::DrawQuad => coin.draw(2).map(|e| Out::Elem(e[..2].to_vec())).unwrap_or(Out::DrawFailed),
        Op::DrawCube => {
            if B::cubic_supported() {
                coin.draw(3).map(|e| Out::Elem(e[..3].to_vec())).unwrap_or(Out::DrawFailed)
            } else {
                Out::None
            }
        },
        Op::Ints { count, log_domain, nonce } => Out::Ints(coin.draw_integers(*count as usize, 1u64 << *log_domain, *nonce)),
        Op::BadInts { .. } => Out::DocPanic,
        Op::Pow(v) => Out::Pow(coin.pow_measure(*v)),
        Op::Grind(f) => Out::Nonce((0u64..1 << 20).find(|n| coin.pow_measure(*n) >= *f as u32).unwrap_or(u64::MAX)),
    }
}

fn op_is_valid(op: &Op) -> bool {
    match op {
        Op::Ints { count, log_domain, .. } => (1..=32).contains(log_domain) && *count >= 1 && *count <= 255 && (*count as u64) < (1u64 << log_domain),
        Op::BadInts { count, domain, .. } => !domain.is_power_of_two() || *count as u32 >= *domain,
        Op::Grind(f) => *f <= 10,
        _ => true,
    }
}

fn tail<B: FA, H: HA<B>>(coin: &mut Coin<H>, obs: &mut Obs) -> Result<Vec<u128>, Fail> {
    let mut v = vec![];
    for _ in 0..4 {
        match draw_typed::<B, H, B>(coin, "draw-base")? {
            Out::Elem(e) => v.push(e[0]),
            _ => return Err(Fail::new("tail/draw-failed", format!("{}: a base-field draw failed after 1000 tries", H::full_name()))),
        }
    }
    obs.comparisons += 1;
    Ok(v)
}

/// runs a history on a fresh real coin, digests rebuilt canonically; returns the next four base draws
fn tail_of<B: FA, H: HA<B>>(seed: &[u128], ops: &[Op], digests: &[Option<Dg>], obs: &mut Obs) -> Result<Vec<u128>, Fail> {
    let s: Vec<B> = seed.iter().map(|v| B::from_u128(*v)).collect();
    let mut coin = Coin::<H>::new(&s);
    let mut scratch = Obs::default();
    for (op, d) in ops.iter().zip(digests) {
        apply_real::<B, H>(&mut coin, op, d.as_ref().map(|d| H::from_ref(d)), &mut scratch)?;
    }
    tail::<B, H>(&mut coin, obs)
}

fn bump(d: &Dg, p: u128) -> Dg {
    match d {
        Dg::Bytes(b) => {
            let mut b = b.clone();
            b[0] ^= 1;
            Dg::Bytes(b)
        },
        Dg::Elems(e) => {
            let mut e = *e;
            e[0] = (e[0] + 1) % p;
            Dg::Elems(e)
        },
    }
}

fn op_strategy<B: FA>(small_counts: bool) -> BoxedStrategy<Op> {
    let count = if small_counts {
        prop_oneof![
            15 => 1u16..=8,
            4 => 1u16..=64,
            1 => prop::sample::select(vec![127u16, 128, 254, 255]),
        ]
        .boxed()
    } else {
        prop_oneof![
            5 => 1u16..=8,
            4 => 1u16..=255,
            1 => prop::sample::select(vec![127u16, 128, 254, 255]),
        ]
        .boxed()
    };
    let nonce = prop_oneof![
        2 => prop::sample::select(crate::c11::int_classes()),
        2 => any::<u64>(),
        1 => 0u64..16,
    ];
    let ints = (count, 1u8..=32, nonce, any::<bool>()).prop_map(|(count, lg, nonce, tight)| {
        // smallest domain that admits the request, or the drawn one if it is larger
        let need = (16 - (count.leading_zeros() as u8)).max(1); // 2^need > count
        let log_domain = if tight { need } else { lg.max(need) };
        Op::Ints { count, log_domain, nonce }
    });
    let bad = prop_oneof![
        (1u32..=8, 0u16..=8).prop_map(|(lg, extra)| Op::BadInts { count: ((1u32 << lg) as u16).saturating_add(extra), domain: 1 << lg, nonce: 0 }),
        (3u32..1000, 1u16..3).prop_filter("not a power of two", |(d, _)| !d.is_power_of_two()).prop_map(|(domain, count)| Op::BadInts { count, domain, nonce: 1 }),
    ];
    let words = [src_strategy::<B>(), src_strategy::<B>(), src_strategy::<B>(), src_strategy::<B>()];
    prop_oneof![
        8 => words.prop_map(Op::Reseed),
        12 => Just(Op::DrawBase),
        8 => Just(Op::DrawQuad),
        4 => Just(Op::DrawCube),
        8 => ints,
        1 => bad,
        8 => prop_oneof![prop::sample::select(crate::c11::int_classes()), any::<u64>(), 0u64..64].prop_map(Op::Pow),
        2 => (0u8..=if small_counts { 3 } else { 8 }).prop_map(Op::Grind),
    ]
    .boxed()
}

impl<B: FA, H: HA<B> + Sync> SubCheck for History<B, H> {
    type Case = CoinCase;
    fn name(&self) -> String {
        format!("history/{}", H::full_name())
    }
    fn cases(&self, tier: Tier) -> u64 {
        tier.pick(self.cases_q, self.cases_t)
    }
    fn watchdog_secs(&self) -> u64 {
        60
    }
    fn rule(&self) -> String {
        "seed of 0..20 elements (C07's operand sources: boundary residues, non-canonical internal values, uniform) and 1..30 operations from {reseed(digest), draw base / quadratic / cubic, draw_integers(count 1..255 < domain 2^1..2^32, nonce from u64 classes), documented-panic requests (count >= domain, domain not a power of two), check_leading_zeros(v), the grinding loop (first nonce 0,1,2,.. whose measure reaches a factor 0..8; 0..3 for the Rescue coins)}; two real coins (given representation / canonical rebuild) and the reference coin step by step; then up to four minimally different histories (seed element +1, reseed digest one bit / one element +1, nonce +1, one extra base draw right before the observed draws) whose next four base draws must differ; non-trivial = at least one reseed and two different draw kinds; distinct by case".into()
    }
    fn required_labels(&self, _t: Tier) -> Vec<String> {
        vec!["variant=seed-element".into(), "variant=reseed-data".into(), "variant=nonce".into(), "variant=extra-draw".into(), "seed-len=0".into()]
    }
    fn strategy(&self, _tier: Tier) -> BoxedStrategy<CoinCase> {
        let seed = prop_oneof![
            1 => Just(vec![]),
            8 => prop::collection::vec(src_strategy::<B>(), 0..=20),
        ];
        (seed, prop::collection::vec(op_strategy::<B>(self.small_counts), 1..=30), any::<u16>())
            .prop_map(|(seed, ops, vsel)| CoinCase { seed, ops, vsel })
            .boxed()
    }
    fn check(&self, c: &CoinCase, obs: &mut Obs) -> CheckResult {
        let name = H::full_name();
        let r = H::refh();
        ensure!(c.ops.iter().all(op_is_valid) && c.seed.len() <= 20 && !c.ops.is_empty(), "harness/case", "malformed case");
        // operands
        let seed_raw: Vec<B> = c.seed.iter().map(realise::<B>).collect();
        let seed_res: Vec<u128> = seed_raw.iter().map(|e| e.to_u128()).collect();
        let seed_canon: Vec<B> = seed_res.iter().map(|v| B::from_u128(*v)).collect();
        let raw_digests: Vec<Option<H::Digest>> = c.ops.iter().map(|op| if let Op::Reseed(w) = op { Some(digest_from_words::<B, H>(w)) } else { None }).collect();
        let digests: Vec<Option<Dg>> = raw_digests.iter().map(|d| d.as_ref().map(|d| H::to_ref(d))).collect();
        obs.label(format!("seed-len={}", if c.seed.is_empty() { "0" } else if c.seed.len() < 8 { "1-7" } else { "8-20" }));
        let n_reseed = c.ops.iter().filter(|o| matches!(o, Op::Reseed(_))).count();
        let mut kinds = std::collections::BTreeSet::new();
        for o in &c.ops {
            match o {
                Op::DrawBase => kinds.insert(1),
                Op::DrawQuad => kinds.insert(2),
                Op::DrawCube if B::cubic_supported() => kinds.insert(3),
                Op::Ints { .. } => kinds.insert(4),
                _ => false,
            };
        }
        obs.nontrivial_if(n_reseed >= 1 && kinds.len() >= 2);

        // (i) + (ii): step by step
        let mut c1 = Coin::<H>::new(&seed_raw);
        let mut c2 = Coin::<H>::new(&seed_canon);
        let mut rc = RefCoin::new(r.clone(), &seed_res);
        for (i, op) in c.ops.iter().enumerate() {
            let o1 = apply_real::<B, H>(&mut c1, op, raw_digests[i], obs)?;
            let o2 = apply_real::<B, H>(&mut c2, op, digests[i].as_ref().map(|d| H::from_ref(d)), obs)?;
            let or = apply_ref::<B>(&mut rc, op, digests[i].as_ref());
            obs.comparisons += 2;
            let what = match op {
                Op::Reseed(_) => "reseed",
                Op::DrawBase => "draw-base",
                Op::DrawQuad => "draw-quad",
                Op::DrawCube => "draw-cube",
                Op::Ints { .. } => "draw_integers",
                Op::BadInts { .. } => "draw_integers-doc-panic",
                Op::Pow(_) => "pow",
                Op::Grind(_) => "grind",
            };
            obs.label(format!("op={what}"));
            ensure!(o1 == o2, format!("{what}/equal-histories-differ"), "{name}: step {i} ({op:?}): two coins with equal histories returned {o1:?} and {o2:?}");
            ensure!(o1 == or, format!("{what}/differs-from-reference"), "{name}: step {i} ({op:?}): coin returned {o1:?}, the documented construction gives {or:?}");
            if o1 == Out::DrawFailed {
                obs.label("draw-failed-after-1000");
                ensure!(B::NAME == "f62" && matches!(op, Op::DrawCube), format!("{what}/draw-failed"), "{name}: step {i}: no element after 1000 tries");
            }
            if let Op::BadInts { .. } = op {
                obs.label("doc-panic-request");
            }
        }
        // next four base draws
        let t1 = tail::<B, H>(&mut c1, obs)?;
        let t2 = tail::<B, H>(&mut c2, obs)?;
        let mut tr = vec![];
        for _ in 0..4 {
            match rc.draw(1) {
                Ok(e) => tr.push(e[0]),
                Err(_) => return Err(Fail::new("harness/ref-tail", "reference tail draw failed")),
            }
        }
        ensure!(t1 == t2, "tail/equal-histories-differ", "{name}: equal histories, different continuations {t1:?} / {t2:?}");
        ensure!(t1 == tr, "tail/differs-from-reference", "{name}: continuation {t1:?}, reference {tr:?}");

        // (iii) minimally different histories
        let p = B::FP.p;
        // a) one seed element changed (or one element appended to an empty seed)
        {
            let mut s = seed_res.clone();
            if s.is_empty() {
                s.push(0);
            } else {
                let j = vf_core::pick_index(c.vsel, s.len());
                s[j] = (s[j] + 1) % p;
            }
            obs.label("variant=seed-element");
            let t = tail_of::<B, H>(&s, &c.ops, &digests, obs)?;
            ensure!(t != t1, "variant/seed-element", "{name}: changing one seed element does not change the next four draws");
        }
        // b) reseed data changed
        let reseeds: Vec<usize> = (0..c.ops.len()).filter(|i| matches!(c.ops[*i], Op::Reseed(_))).collect();
        if !reseeds.is_empty() {
            let at = reseeds[vf_core::pick_index(c.vsel, reseeds.len())];
            let mut d2 = digests.clone();
            d2[at] = Some(bump(digests[at].as_ref().unwrap(), if r.is_rescue() { r.fp.p } else { p }));
            obs.label("variant=reseed-data");
            let t = tail_of::<B, H>(&seed_res, &c.ops, &d2, obs)?;
            ensure!(t != t1, "variant/reseed-data", "{name}: changing the reseed data at step {at} does not change the next four draws");
        }
        // c) nonce + 1
        let ints: Vec<usize> = (0..c.ops.len()).filter(|i| matches!(c.ops[*i], Op::Ints { .. })).collect();
        if !ints.is_empty() {
            let at = ints[vf_core::pick_index(c.vsel, ints.len())];
            let mut ops2 = c.ops.clone();
            if let Op::Ints { count, log_domain, nonce } = ops2[at].clone() {
                ops2[at] = Op::Ints { count, log_domain, nonce: if c.vsel & 1 == 0 { nonce.wrapping_add(1) } else { nonce.wrapping_sub(1) } };
            }
            obs.label("variant=nonce");
            let t = tail_of::<B, H>(&seed_res, &ops2, &digests, obs)?;
            ensure!(t != t1, "variant/nonce", "{name}: changing the nonce at step {at} by one does not change the next four draws");
        }
        // d) one extra base draw immediately before the observed draws. (An extra draw placed earlier,
        // in front of draws of another type, can re-synchronise on fields with rejection sampling: the
        // first valid quadratic value after counter j is the same for every j below it. That follows
        // from the documented construction; it is measured with a label, not asserted.)
        {
            let mut ops2 = c.ops.clone();
            let mut d2 = digests.clone();
            ops2.push(Op::DrawBase);
            d2.push(None);
            obs.label("variant=extra-draw");
            let t = tail_of::<B, H>(&seed_res, &ops2, &d2, obs)?;
            ensure!(t != t1, "variant/extra-draw", "{name}: one extra base draw before the observed draws does not change them");
            let last_reset = (0..c.ops.len()).rev().find(|i| matches!(c.ops[*i], Op::Reseed(_) | Op::Ints { .. }));
            let lo = last_reset.map(|i| i + 1).unwrap_or(0);
            if lo < c.ops.len() {
                let at = lo + vf_core::pick_index(c.vsel, c.ops.len() - lo);
                let mut ops3 = c.ops.clone();
                let mut d3 = digests.clone();
                ops3.insert(at, Op::DrawBase);
                d3.insert(at, None);
                let t = tail_of::<B, H>(&seed_res, &ops3, &d3, obs)?;
                obs.label(if t != t1 { "extra-draw-mid-history=changes-continuation" } else { "extra-draw-mid-history=resynchronised" });
            }
        }
        obs.label(format!("len={}", if c.ops.len() < 10 { "1-9" } else if c.ops.len() < 20 { "10-19" } else { "20-30" }));
        Ok(())
    }
}

fn h<B: FA, H: HA<B>>(small_counts: bool, cases_q: u64, cases_t: u64) -> History<B, H> {
    History { small_counts, cases_q, cases_t, _p: PhantomData }
}

pub fn run(run: &mut Run) {
    run.assume("reference coin: documented construction (seed = hash_elements(seed elements); value = hash(seed || ++counter); reseed = hash(seed || data), counter 0; integers = first 8 bytes little-endian masked to the domain) on the reference hashers of C11");
    run.assume("proof-of-work measure as implemented and used by prover and verifier: trailing zero bits of the first 8 digest bytes read little-endian (the doc comment words it as leading zeros of a big-endian integer; both sides of the protocol call the same function)");
    run.assume("32-byte view of an element digest: little-endian packing of the four residues at the field's bit width (64 bits for f64, 62 bits for f62 = 248 bits + a zero byte)");
    run.assume("no hash collisions among generated inputs; 'outputs differ' compares four base-field draws (>= 247 bits)");
    for (what, r) in [
        ("field", vf_ref::field::selfcheck()),
        ("rescue", vf_ref::rescue::selfcheck()),
        ("hashes", vf_ref::hashes::selfcheck()),
    ] {
        if let Err(e) = r {
            run.inconclusive(format!("reference self-check failed ({what}): {e}"));
            return;
        }
    }
    run.sub(&h::<B62, Blake3_256<B62>>(false, 24_000, 400_000));
    run.sub(&h::<B64, Blake3_256<B64>>(false, 24_000, 400_000));
    run.sub(&h::<B128, Blake3_256<B128>>(false, 24_000, 400_000));
    run.sub(&h::<B62, Blake3_192<B62>>(false, 24_000, 400_000));
    run.sub(&h::<B64, Blake3_192<B64>>(false, 24_000, 400_000));
    run.sub(&h::<B128, Blake3_192<B128>>(false, 24_000, 400_000));
    run.sub(&h::<B62, Sha3_256<B62>>(false, 24_000, 400_000));
    run.sub(&h::<B64, Sha3_256<B64>>(false, 24_000, 400_000));
    run.sub(&h::<B128, Sha3_256<B128>>(false, 24_000, 400_000));
    run.sub(&h::<B64, Rp64_256>(true, 5_000, 80_000));
    run.sub(&h::<B64, RpJive64_256>(true, 5_000, 80_000));
    run.sub(&h::<B62, Rp62_248>(true, 2_000, 30_000));
    run.sub(&crate::c19s::Scripted::<B62>(PhantomData));
    run.sub(&crate::c19s::Scripted::<B64>(PhantomData));
    run.sub(&crate::c19s::Scripted::<B128>(PhantomData));
}
