mod c10;
mod c11;
mod c19;
mod c19s;
mod ha;

fn main() {
    let args = vf_core::parse_args();
    let level = "exploration";
    let mut run = vf_core::Run::new(&args, level);
    match args.property.as_str() {
        "C10" => c10::run(&mut run),
        "C11" => c11::run(&mut run),
        "C19" => c19::run(&mut run),
        other => {
            eprintln!("vf-crypto does not serve {other}");
            std::process::exit(2);
        },
    }
    run.finish_and_exit();
}
