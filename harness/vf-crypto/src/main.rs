fn main() {
    let args = vf_core::parse_args();
    let mut run = vf_core::Run::new(&args, "exploration");
    match args.property.as_str() {
        other => {
            eprintln!("vf-crypto does not serve {other} yet (planned: C10 C11 C19)");
            std::process::exit(2);
        },
    }
    #[allow(unreachable_code)]
    run.finish_and_exit();
}
