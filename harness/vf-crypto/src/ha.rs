//! Adapters between the hashers of /repo and the reference hashers of vf-ref, plus small shared
//! helpers (hex-encoded byte strings for case files, stable panic keys).

use serde::{Deserialize, Serialize};
use vf_core::PanicSig;
use vf_ref::hashes::{Dg, Kind, RefH};
use vf_repo::prelude::*;
use winter_crypto::hashers::{Blake3_192, Blake3_256, Rp62_248, Rp64_256, RpJive64_256, Sha3_256};
use winter_crypto::{Digest, ElementHasher, Hasher};
use winter_math::StarkField;

/// bytes carried through JSON as a hex string
#[derive(Clone, PartialEq, Eq, Hash, Default)]
pub struct Hx(pub Vec<u8>);
impl std::fmt::Debug for Hx {
    fn fmt(&self, f: &mut std::fmt::Formatter<'_>) -> std::fmt::Result {
        write!(f, "hex:{}", vf_core::hex(&self.0))
    }
}
impl Serialize for Hx {
    fn serialize<S: serde::Serializer>(&self, s: S) -> Result<S::Ok, S::Error> {
        s.serialize_str(&vf_core::hex(&self.0))
    }
}
impl<'de> Deserialize<'de> for Hx {
    fn deserialize<D: serde::Deserializer<'de>>(d: D) -> Result<Self, D::Error> {
        let s = String::deserialize(d)?;
        Ok(Hx(vf_core::unhex(&s)))
    }
}

/// stable key of a panic: repo-relative file (toolchain paths collapsed to "core") + normalised message
pub fn pkey(p: &PanicSig) -> String {
    let file = if let Some(f) = p.file.strip_prefix("/repo/") {
        f.to_string()
    } else if p.file.contains("/library/") || p.file.starts_with("/rustc") {
        "core".to_string()
    } else {
        p.file.clone()
    };
    format!("panic@{}:{}", file, vf_core::panics::normalise(&p.msg))
}

/// Adapter for a hasher of /repo over base field `B`.
pub trait HA<B: FA>: ElementHasher<BaseField = B> + 'static {
    const KIND: Kind;
    fn hname() -> &'static str;
    /// "Blake3_256<f62>" / "Rp64_256"
    fn full_name() -> String {
        if Self::refh().is_rescue() {
            Self::hname().to_string()
        } else {
            format!("{}<{}>", Self::hname(), B::NAME)
        }
    }
    fn refh() -> RefH {
        RefH::new(Self::KIND, B::FP)
    }
    fn to_ref(d: &Self::Digest) -> Dg;
    fn from_ref(d: &Dg) -> Self::Digest;
    /// digest made of the given elements (kept in their internal representation); None for byte digests
    fn from_elems(_e: [B; 4]) -> Option<Self::Digest> {
        None
    }
}

macro_rules! byte_hasher {
    ($t:ident, $kind:expr, $n:expr) => {
        impl<B: FA> HA<B> for $t<B> {
            const KIND: Kind = $kind;
            fn hname() -> &'static str {
                stringify!($t)
            }
            fn to_ref(d: &Self::Digest) -> Dg {
                Dg::Bytes(d.as_bytes()[..$n].to_vec())
            }
            fn from_ref(d: &Dg) -> Self::Digest {
                match d {
                    Dg::Bytes(b) => {
                        let arr: [u8; $n] = b[..].try_into().expect("digest length");
                        <<Self as Hasher>::Digest>::new(arr)
                    },
                    _ => panic!("digest kind"),
                }
            }
        }
    };
}
byte_hasher!(Blake3_256, Kind::Blake3_256, 32);
byte_hasher!(Blake3_192, Kind::Blake3_192, 24);
byte_hasher!(Sha3_256, Kind::Sha3_256, 32);

macro_rules! elem_hasher {
    ($t:ident, $kind:expr, $b:ty) => {
        impl HA<$b> for $t {
            const KIND: Kind = $kind;
            fn hname() -> &'static str {
                stringify!($t)
            }
            fn to_ref(d: &Self::Digest) -> Dg {
                let e = d.as_elements();
                Dg::Elems([e[0].as_int() as u128, e[1].as_int() as u128, e[2].as_int() as u128, e[3].as_int() as u128])
            }
            fn from_ref(d: &Dg) -> Self::Digest {
                match d {
                    Dg::Elems(e) => <<Self as Hasher>::Digest>::new([
                        <$b>::from_u128(e[0]),
                        <$b>::from_u128(e[1]),
                        <$b>::from_u128(e[2]),
                        <$b>::from_u128(e[3]),
                    ]),
                    _ => panic!("digest kind"),
                }
            }
            fn from_elems(e: [$b; 4]) -> Option<Self::Digest> {
                Some(<<Self as Hasher>::Digest>::new(e))
            }
        }
    };
}
elem_hasher!(Rp64_256, Kind::Rp64_256, B64);
elem_hasher!(RpJive64_256, Kind::RpJive64_256, B64);
elem_hasher!(Rp62_248, Kind::Rp62_248, B62);

/// a digest value described by four 128-bit words: byte digests take the little-endian bytes of the
/// words (8 bytes each), element digests take word mod p as residue (Src::Img words give
/// non-canonical internal images where the field has them)
pub fn digest_from_words<B: FA, H: HA<B>>(w: &[Src; 4]) -> H::Digest {
    let r = H::refh();
    if r.is_rescue() {
        let e: [B; 4] = [realise::<B>(&w[0]), realise::<B>(&w[1]), realise::<B>(&w[2]), realise::<B>(&w[3])];
        H::from_elems(e).expect("element digest")
    } else {
        let mut bytes = vec![];
        for s in w {
            let v = match s {
                Src::Res(x) | Src::Img(x) => x.0,
            };
            bytes.extend_from_slice(&(v as u64 ^ (v >> 64) as u64).to_le_bytes());
        }
        bytes.truncate(r.digest_bytes());
        H::from_ref(&Dg::Bytes(bytes))
    }
}
