pub fn run(_run: &mut vf_core::Run) {}
