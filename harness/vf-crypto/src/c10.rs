//! C10 — Merkle openings verify for committed leaves and only for them.
//!
//! Oracle: `vf_ref::merkle::NaiveTree` (all levels materialised, paths read off the levels) over the
//! same two-to-one hash, used as a black box (the hash itself is C11's subject).
//! Positive direction: prove/verify, prove_batch/verify_batch/get_root, into_paths = naive paths,
//! from_paths(into_paths(p)) = p and verifies. Negative direction: for every mutated opening the
//! result must be an error unless every claimed (position, leaf) is a committed pair; never a panic.

use std::any::{Any, TypeId};
use std::collections::{BTreeSet, HashMap};
use std::sync::{Arc, OnceLock, RwLock};

use proptest::prelude::*;
use serde::{Deserialize, Serialize};
use vf_core::{catch, ensure, CheckResult, Fail, Obs, Run, SubCheck, Tier};
use vf_ref::merkle::{root_of_path, NaiveTree};
use vf_repo::prelude::*;
use winter_crypto::hashers::{Blake3_192, Blake3_256, Rp62_248, Rp64_256, RpJive64_256, Sha3_256};
use winter_crypto::{BatchMerkleProof, Hasher, MerkleTree};

use crate::ha::{pkey, HA};

pub const HASHERS: [&str; 6] = ["Blake3_256<f128>", "Sha3_256<f64>", "Rp64_256", "Blake3_192<f62>", "RpJive64_256", "Rp62_248"];

macro_rules! with_hasher {
    ($id:expr, $f:ident ( $($args:expr),* )) => {
        match $id {
            0 => $f::<B128, Blake3_256<B128>>($($args),*),
            1 => $f::<B64, Sha3_256<B64>>($($args),*),
            2 => $f::<B64, Rp64_256>($($args),*),
            3 => $f::<B62, Blake3_192<B62>>($($args),*),
            4 => $f::<B64, RpJive64_256>($($args),*),
            5 => $f::<B62, Rp62_248>($($args),*),
            _ => Err(Fail::new("harness/hasher", "unknown hasher id")),
        }
    };
}

// TREES (cached per hasher / depth / leaf kind / seed)
// ================================================================================================

pub struct Kit<H: Hasher> {
    pub tree: MerkleTree<H>,
    /// the same tree assembled through the other public constructor: MerkleTree::from_raw_parts over the
    /// nodes returned by the exported build_merkle_nodes (Err = that route panicked or refused the leaves)
    pub raw: Result<MerkleTree<H>, String>,
    pub naive: NaiveTree<H::Digest>,
    /// digests that occur nowhere in the tree
    pub foreign: [H::Digest; 2],
}

type Cache = RwLock<HashMap<(TypeId, u8, bool, u8), Arc<dyn Any + Send + Sync>>>;
static CACHE: OnceLock<Cache> = OnceLock::new();

fn merge_fn<H: Hasher>(a: &H::Digest, b: &H::Digest) -> H::Digest {
    H::merge(&[*a, *b])
}

pub fn kit<B: FA, H: HA<B>>(depth: u8, equal: bool, seed: u8) -> Arc<Kit<H>> {
    let key = (TypeId::of::<H>(), depth, equal, seed);
    let cache = CACHE.get_or_init(|| RwLock::new(HashMap::new()));
    if let Some(k) = cache.read().unwrap().get(&key) {
        return k.clone().downcast::<Kit<H>>().expect("kit type");
    }
    let n = 1usize << depth;
    // seeds 7, 15, 23, ..: every third leaf is the all-zero digest (`Digest::default()`, a legal leaf value
    // that padded leaf vectors contain)
    // seeds 6, 5, 4, 3 (mod 8): leaf vectors with repeated digests in regular places - all left leaves equal
    // ([a,b,a,c,a,d,..]), all right leaves equal, period four ([a,b,c,d,a,b,c,d,..]), right half = left half -
    // so that sibling pairs share one member, or whole pairs / subtrees repeat, while the tree is not constant
    let zeros = seed % 8 == 7;
    let leaves: Vec<H::Digest> = (0..n)
        .map(|i| {
            let i = match seed % 8 {
                6 if i % 2 == 0 => 0,
                5 if i % 2 == 1 => 1,
                4 => i % 4,
                3 => i % (n / 2).max(1),
                _ => i,
            };
            if zeros && i % 3 == 0 {
                H::Digest::default()
            } else if equal {
                H::hash(&[seed, 0xEE])
            } else {
                H::hash(&[seed, i as u8, (i >> 8) as u8, 0x4c])
            }
        })
        .collect();
    let naive = NaiveTree::build(&leaves, &merge_fn::<H>);
    let raw = catch(|| MerkleTree::<H>::from_raw_parts(winter_crypto::build_merkle_nodes::<H>(&leaves), leaves.clone()))
        .map_err(|p| format!("panicked: {} at {}:{}", p.msg, p.file, p.line))
        .and_then(|r| r.map_err(|e| format!("refused: {e}")));
    let tree = MerkleTree::<H>::new(leaves).expect("power-of-two leaves");
    let k = Arc::new(Kit { tree, raw, naive, foreign: [H::hash(&[seed, 0xF0, 0x0F]), H::hash(&[seed, 0xF1, 0x1F, 0x77])] });
    cache.write().unwrap().insert(key, k.clone());
    k
}

// OPENINGS AS PLAIN DATA
// ================================================================================================

#[derive(Clone, PartialEq, Debug)]
pub struct Op<D> {
    pub leaves: Vec<D>,
    pub nodes: Vec<Vec<D>>,
    pub depth: u8,
}

fn to_op<H: Hasher>(p: &BatchMerkleProof<H>) -> Op<H::Digest> {
    Op { leaves: p.leaves.clone(), nodes: p.nodes.clone(), depth: p.depth }
}
fn to_proof<H: Hasher>(o: &Op<H::Digest>) -> BatchMerkleProof<H> {
    BatchMerkleProof { leaves: o.leaves.clone(), nodes: o.nodes.clone(), depth: o.depth }
}

fn fail_panic(ctx: &str, p: &vf_core::PanicSig) -> Fail {
    Fail::new(format!("{ctx}/{}", pkey(p)), format!("{ctx}: panicked: {} at {}:{}", p.msg, p.file, p.line))
}

// POSITIVE DIRECTION
// ================================================================================================

pub struct Flags {
    /// skip the from_paths comparison for unsorted index lists (recorded finding, sampled sub-checks)
    pub skip_unsorted_repack: bool,
    pub verify_singles: bool,
}

fn positive<B: FA, H: HA<B>>(k: &Kit<H>, idx: &[usize], flags: &Flags, obs: &mut Obs) -> CheckResult {
    let name = H::full_name();
    let root = *k.tree.root();
    ensure!(root == *k.naive.root(), "root", "{name}: tree root differs from the naive root");
    ensure!(k.tree.depth() == k.naive.depth(), "depth", "{name}: depth()");
    // the tree assembled by from_raw_parts(build_merkle_nodes(leaves), leaves) is the same tree
    match &k.raw {
        Err(e) => return Err(Fail::new("from_raw_parts/unusable", format!("{name}: MerkleTree::from_raw_parts(build_merkle_nodes(leaves), leaves) for {} leaves {e}", k.naive.num_leaves()))),
        Ok(raw) => {
            ensure!(*raw.root() == root && raw.depth() == k.tree.depth() && raw.leaves() == k.tree.leaves(), "from_raw_parts/root", "{name}: the tree built by from_raw_parts differs from the one built by new()");
            let a = catch(|| raw.prove_batch(idx).map(|p| to_op(&p))).map_err(|p| fail_panic("from_raw_parts/prove_batch", &p))?;
            let b = catch(|| k.tree.prove_batch(idx).map(|p| to_op(&p))).map_err(|p| fail_panic("prove_batch", &p))?;
            ensure!(a.ok() == b.ok(), "from_raw_parts/prove_batch", "{name}: the tree built by from_raw_parts opens {idx:?} differently");
        },
    }
    let proof = catch(|| k.tree.prove_batch(idx))
        .map_err(|p| fail_panic("prove_batch", &p))?
        .map_err(|e| Fail::new("prove_batch/err", format!("{name}: prove_batch({idx:?}) failed: {e}")))?;
    let op = to_op(&proof);
    obs.comparisons += 1;
    ensure!(op.depth as usize == k.naive.depth(), "prove_batch/depth", "{name}: opening depth {} for a tree of depth {}", op.depth, k.naive.depth());
    ensure!(op.leaves.len() == idx.len(), "prove_batch/leaves-len", "{name}: {} leaves for {} positions", op.leaves.len(), idx.len());
    for (j, &i) in idx.iter().enumerate() {
        ensure!(op.leaves[j] == *k.naive.leaf(i), "prove_batch/leaf", "{name}: leaf {j} of the opening is not the committed leaf at position {i} (positions {idx:?})");
    }
    // information only: does the opening carry exactly the minimal cover
    let cover = k.naive.minimal_cover(idx);
    let carried: usize = op.nodes.iter().map(|v| v.len()).sum();
    if carried != cover.len() {
        obs.label("nodes=not-minimal-cover");
    }
    let r = catch(|| MerkleTree::<H>::verify_batch(&root, idx, &proof)).map_err(|p| fail_panic("verify_batch", &p))?;
    ensure!(r.is_ok(), "verify_batch/honest-rejected", "{name}: honest batch opening for {idx:?} rejected: {r:?}");
    let gr = catch(|| proof.get_root(idx)).map_err(|p| fail_panic("get_root", &p))?;
    ensure!(gr.as_ref().ok() == Some(k.naive.root()), "get_root/value", "{name}: get_root({idx:?}) is not the naive root");
    // single paths: prove(i) against the naive path for every queried position; their verification
    // does not depend on the subset and is done once per (tree, position) by exhaustive-paths (and
    // on three positions per case here when `verify_singles` is set)
    for (j, &i) in idx.iter().enumerate() {
        let path = catch(|| k.tree.prove(i))
            .map_err(|p| fail_panic("prove", &p))?
            .map_err(|e| Fail::new("prove/err", format!("{name}: prove({i}) failed: {e}")))?;
        obs.comparisons += 1;
        ensure!(path == k.naive.path(i), "prove/path", "{name}: prove({i}) differs from the naive path");
        if flags.verify_singles && (j == 0 || j == idx.len() / 2 || j + 1 == idx.len()) {
            let v = catch(|| MerkleTree::<H>::verify(root, i, &path)).map_err(|p| fail_panic("verify", &p))?;
            ensure!(v.is_ok(), "verify/honest-rejected", "{name}: honest path for {i} rejected");
        }
    }
    // decompression
    let paths = catch(|| to_proof::<H>(&op).into_paths(idx))
        .map_err(|p| fail_panic("into_paths", &p))?
        .map_err(|e| Fail::new("into_paths/err", format!("{name}: into_paths({idx:?}) failed: {e}")))?;
    obs.comparisons += 1;
    ensure!(paths.len() == idx.len(), "into_paths/len", "{name}: into_paths returned {} paths for {} positions", paths.len(), idx.len());
    for (j, &i) in idx.iter().enumerate() {
        ensure!(paths[j] == k.naive.path(i), "into_paths/path", "{name}: into_paths({idx:?})[{j}] is not the naive path of position {i}");
    }
    // re-compression (last: F11 lives here)
    let sorted = idx.windows(2).all(|w| w[0] < w[1]);
    if !sorted {
        obs.label("order=unsorted");
    }
    if !sorted && flags.skip_unsorted_repack {
        obs.label("excluded-known:from_paths-unsorted");
        return Ok(());
    }
    let pfx = if sorted { "from_paths" } else { "from_paths-unsorted" };
    let re = catch(|| BatchMerkleProof::<H>::from_paths(&paths, idx)).map_err(|p| fail_panic(pfx, &p))?;
    obs.comparisons += 1;
    if to_op(&re) == op && re.serialize_nodes() == proof.serialize_nodes() {
        // identical to the honest opening, which verified above
        if !sorted {
            obs.label("from_paths-unsorted=same-as-prove_batch");
        }
        return Ok(());
    }
    if !sorted {
        obs.label("from_paths-unsorted=differs");
    }
    let v = catch(|| MerkleTree::<H>::verify_batch(&root, idx, &re)).map_err(|p| fail_panic(pfx, &p))?;
    ensure!(
        v.is_ok(),
        format!("{pfx}/does-not-verify"),
        "{name}: from_paths(into_paths(prove_batch(idx)), idx) differs from prove_batch(idx) and does not verify against the root for idx = {:?}: {v:?}",
        short(idx)
    );
    Err(Fail::new(
        format!("{pfx}/differs-from-prove_batch"),
        format!("{name}: from_paths(into_paths(p), idx) != prove_batch(idx) for idx = {:?} (it still verifies)", short(idx)),
    ))
}

// NEGATIVE DIRECTION: MUTATIONS OF A BATCH OPENING
// ================================================================================================

pub const BATCH_KINDS: [&str; 25] = [
    "leaf-foreign",
    "leaf-substitute",
    "leaf-swap",
    "node-foreign",
    "node-substitute",
    "pos-flipbit",
    "pos-out-of-range",
    "pos-huge",
    "pos-duplicate",
    "depth-0",
    "depth-minus1",
    "depth-plus1",
    "depth-63",
    "depth-64",
    "depth-255",
    "drop-node",
    "add-node",
    "drop-vec",
    "add-empty-vec",
    "add-vec",
    "drop-leaf",
    "add-leaf",
    "no-indexes",
    "256-indexes",
    "internal-level-as-leaves",
];

type Mutant<D> = (Op<D>, Vec<usize>);

/// Chooses which of the mutants of a kind are materialised: all of them (enumerated sub-checks) or at
/// most `max` spread evenly over the list, always including the first and the last (sampled trees,
/// where a kind can apply at thousands of places of a 255-position opening).
pub struct Selector {
    i: usize,
    total: usize,
    max: usize,
    counting: bool,
}
impl Selector {
    fn take(&mut self) -> bool {
        let i = self.i;
        self.i += 1;
        if self.counting {
            return false;
        }
        if self.total <= self.max {
            return true;
        }
        i == 0 || i + 1 == self.total || (i * self.max) / self.total != ((i - 1) * self.max) / self.total
    }
}

macro_rules! push {
    ($o:ident, $s:ident, $e:expr) => {
        if $s.take() {
            $o.push($e);
        }
    };
}

fn mutants<D: Clone + PartialEq>(kind: &str, op: &Op<D>, idx: &[usize], n: usize, foreign: &[D; 2], tree_leaves: &[D], sel: &mut Selector) -> Vec<Mutant<D>> {
    let mut out: Vec<Mutant<D>> = vec![];
    let k = idx.len();
    let with_op = |f: &dyn Fn(&mut Op<D>)| {
        let mut o = op.clone();
        f(&mut o);
        (o, idx.to_vec())
    };
    match kind {
        "leaf-foreign" => {
            for j in 0..k {
                push!(out, sel, with_op(&|o| o.leaves[j] = foreign[0].clone()));
            }
        },
        "leaf-substitute" => {
            for j in 0..k {
                push!(out, sel, with_op(&|o| o.leaves[j] = tree_leaves[idx[j] ^ 1].clone()));
                push!(out, sel, with_op(&|o| o.leaves[j] = tree_leaves[(idx[j] + n / 2) % n].clone()));
            }
        },
        "leaf-swap" => {
            for j in 0..k.saturating_sub(1) {
                push!(out, sel, with_op(&|o| o.leaves.swap(j, j + 1)));
            }
        },
        "node-foreign" => {
            for v in 0..op.nodes.len() {
                for j in 0..op.nodes[v].len() {
                    push!(out, sel, with_op(&|o| o.nodes[v][j] = foreign[0].clone()));
                }
            }
        },
        "node-substitute" => {
            for v in 0..op.nodes.len() {
                for j in 0..op.nodes[v].len() {
                    // another value of the same tree: a leaf, or the neighbouring node of the opening
                    push!(out, sel, with_op(&|o| o.nodes[v][j] = tree_leaves[(v + j) % n].clone()));
                    if op.nodes[v].len() > 1 {
                        push!(out, sel, with_op(&|o| o.nodes[v].swap(j, (j + 1) % op.nodes[v].len())));
                    }
                }
            }
        },
        "pos-flipbit" => {
            let depth = n.trailing_zeros();
            for j in 0..k {
                for b in 0..depth {
                    let p = idx[j] ^ (1 << b);
                    if !idx.contains(&p) {
                        let mut i2 = idx.to_vec();
                        i2[j] = p;
                        push!(out, sel, (op.clone(), i2));
                    }
                }
            }
        },
        "pos-out-of-range" => {
            for j in 0..k {
                for p in [n, idx[j] + n, idx[j] + 2 * n] {
                    if !idx.contains(&p) {
                        let mut i2 = idx.to_vec();
                        i2[j] = p;
                        push!(out, sel, (op.clone(), i2));
                    }
                }
            }
        },
        "pos-huge" => {
            for j in [0, k - 1] {
                for p in [usize::MAX, usize::MAX - 1, 1usize << 63] {
                    let mut i2 = idx.to_vec();
                    i2[j] = p;
                    push!(out, sel, (op.clone(), i2));
                }
            }
        },
        "pos-duplicate" => {
            if k >= 2 {
                for j in 0..k {
                    let mut i2 = idx.to_vec();
                    i2[j] = idx[(j + 1) % k];
                    push!(out, sel, (op.clone(), i2));
                }
            }
            // the same position listed twice with the leaf repeated
            let mut i2 = idx.to_vec();
            i2.push(idx[0]);
            let mut o = op.clone();
            o.leaves.push(op.leaves[0].clone());
            push!(out, sel, (o, i2));
        },
        "depth-0" => push!(out, sel, with_op(&|o| o.depth = 0)),
        "depth-minus1" => push!(out, sel, with_op(&|o| o.depth = o.depth.wrapping_sub(1))),
        "depth-plus1" => push!(out, sel, with_op(&|o| o.depth += 1)),
        "depth-63" => push!(out, sel, with_op(&|o| o.depth = 63)),
        "depth-64" => {
            push!(out, sel, with_op(&|o| o.depth = 64));
            push!(out, sel, with_op(&|o| o.depth = 65));
        },
        "depth-255" => {
            push!(out, sel, with_op(&|o| o.depth = 255));
            push!(out, sel, with_op(&|o| o.depth = 128));
        },
        "drop-node" => {
            for v in 0..op.nodes.len() {
                for j in 0..op.nodes[v].len() {
                    push!(out, sel, with_op(&|o| {
                        o.nodes[v].remove(j);
                    }));
                }
            }
        },
        "add-node" => {
            for v in 0..op.nodes.len() {
                push!(out, sel, with_op(&|o| o.nodes[v].push(foreign[1].clone())));
                push!(out, sel, with_op(&|o| o.nodes[v].insert(0, foreign[1].clone())));
            }
        },
        "drop-vec" => {
            for v in 0..op.nodes.len() {
                push!(out, sel, with_op(&|o| {
                    o.nodes.remove(v);
                }));
            }
        },
        "add-empty-vec" => {
            push!(out, sel, with_op(&|o| o.nodes.push(vec![])));
            push!(out, sel, with_op(&|o| o.nodes.insert(0, vec![])));
        },
        "add-vec" => {
            push!(out, sel, with_op(&|o| o.nodes.push(vec![foreign[1].clone()])));
            push!(out, sel, with_op(&|o| {
                let first = o.nodes[0].clone();
                o.nodes.insert(0, first)
            }));
        },
        "drop-leaf" => {
            for j in 0..k {
                push!(out, sel, with_op(&|o| {
                    o.leaves.remove(j);
                }));
            }
        },
        "add-leaf" => {
            push!(out, sel, with_op(&|o| o.leaves.push(foreign[1].clone())));
            push!(out, sel, with_op(&|o| o.leaves.insert(0, foreign[1].clone())));
        },
        "no-indexes" => push!(out, sel, (op.clone(), vec![])),
        "256-indexes" => {
            let i2: Vec<usize> = (0..256).collect();
            let mut o = op.clone();
            o.leaves = (0..256).map(|i| tree_leaves[i % n].clone()).collect();
            push!(out, sel, (o, i2));
        },
        _ => {},
    }
    out
}

/// result of verification of a mutated opening against the naive model
fn judge<B: FA, H: HA<B>>(k: &Kit<H>, kind: &str, honest: &Op<H::Digest>, hidx: &[usize], m: &Mutant<H::Digest>, obs: &mut Obs) -> CheckResult {
    let name = H::full_name();
    let (op, idx) = m;
    let root = *k.tree.root();
    let proof = to_proof::<H>(op);
    let r = catch(|| MerkleTree::<H>::verify_batch(&root, idx, &proof))
        .map_err(|p| Fail::new(format!("{kind}/verify_batch/{}", pkey(&p)), format!("{name}: verify_batch panicked on a mutated opening ({kind}; depth {} positions {:?}): {}", op.depth, short(idx), p.msg)))?;
    obs.comparisons += 1;
    let unchanged = op == honest && idx == hidx;
    if unchanged {
        obs.label("mutation-changed-nothing");
        ensure!(r.is_ok(), format!("{kind}/honest-rejected"), "{name}: identical opening rejected");
    }
    if r.is_ok() {
        // acceptance is legitimate only if every claimed (position, leaf) is a committed pair and the
        // position list is one the interface accepts (non-empty, distinct, in range, at most 255)
        let distinct = idx.iter().collect::<BTreeSet<_>>().len() == idx.len();
        let claims_true = !idx.is_empty()
            && idx.len() <= 255
            && distinct
            && idx.iter().enumerate().all(|(j, &p)| op.leaves.get(j).is_some_and(|l| k.naive.committed(p, l)));
        ensure!(
            claims_true,
            format!("{kind}/accepted"),
            "{name}: verify_batch accepted a mutated opening ({kind}) although a claimed (position, leaf) is not committed: positions {:?}, depth {}, honest positions {:?}",
            short(idx),
            op.depth,
            short(hidx)
        );
        // a changed *shape* (surplus / missing nodes, vectors, leaves, another depth) must not be
        // accepted even when the claims stay true: the statement asks for an error on every shape
        // change; value / position mutations that leave every claim true (all-equal leaves) are fine
        let shape_kind = kind.starts_with("add-") || kind.starts_with("drop-") || kind.starts_with("depth-");
        ensure!(
            unchanged || !shape_kind,
            format!("{kind}/accepted-changed-shape"),
            "{name}: verify_batch accepted an opening whose shape was changed ({kind}): {} leaves for {} positions, node vectors {:?} (honest {:?}), depth {}; the claimed leaves are still the committed ones",
            op.leaves.len(),
            idx.len(),
            op.nodes.iter().map(|v| v.len()).collect::<Vec<_>>(),
            honest.nodes.iter().map(|v| v.len()).collect::<Vec<_>>(),
            op.depth
        );
        if !unchanged {
            obs.label(format!("accepted-claims-still-true:{kind}"));
        }
    } else {
        obs.label("rejected");
    }
    // decompression of a mutated opening may fail but must not panic; if it succeeds every returned
    // path that resolves to the root must start with a committed leaf
    let p2 = catch(|| to_proof::<H>(op).into_paths(idx))
        .map_err(|p| Fail::new(format!("{kind}/into_paths/{}", pkey(&p)), format!("{name}: into_paths panicked on a mutated opening ({kind}; depth {} positions {:?}): {}", op.depth, short(idx), p.msg)))?;
    if let Ok(paths) = p2 {
        for (j, path) in paths.iter().enumerate() {
            if j != 0 && j + 1 != paths.len() {
                continue;
            }
            if j < idx.len() && root_of_path(idx[j], path, &merge_fn::<H>).as_ref() == Some(&root) {
                ensure!(
                    k.naive.committed(idx[j], &path[0]),
                    format!("{kind}/into_paths-forged"),
                    "{name}: into_paths of a mutated opening returned a path that resolves to the root for an uncommitted leaf"
                );
            }
        }
    }
    Ok(())
}

fn short(v: &[usize]) -> Vec<usize> {
    v.iter().take(12).cloned().collect()
}

fn negative<B: FA, H: HA<B>>(k: &Kit<H>, idx: &[usize], kind: &str, max_mutants: usize, obs: &mut Obs) -> CheckResult {
    let name = H::full_name();
    let proof = k.tree.prove_batch(idx).map_err(|e| Fail::new("prove_batch/err", format!("{name}: {e}")))?;
    let op = to_op(&proof);
    let n = k.naive.num_leaves();
    let mut count = Selector { i: 0, total: 0, max: max_mutants, counting: true };
    mutants(kind, &op, idx, n, &k.foreign, &k.naive.levels[0], &mut count);
    let mut sel = Selector { i: 0, total: count.i, max: max_mutants, counting: false };
    let mut ms = mutants(kind, &op, idx, n, &k.foreign, &k.naive.levels[0], &mut sel);
    if count.i > ms.len() {
        obs.label("mutants-subsampled");
    }
    if kind == "internal-level-as-leaves" && k.naive.depth() >= 2 {
        // an honest opening of the tree whose leaves are the level-1 nodes: same root, depth - 1,
        // claims (position >> 1, internal node) - none of which is a committed (position, leaf) pair
        let sub = MerkleTree::<H>::new(k.naive.levels[1].clone()).map_err(|e| Fail::new("harness/subtree", format!("{e}")))?;
        let mut q: Vec<usize> = vec![];
        for i in idx {
            if !q.contains(&(i >> 1)) {
                q.push(i >> 1);
            }
        }
        let p = sub.prove_batch(&q).map_err(|e| Fail::new("harness/subtree", format!("{e}")))?;
        ms.push((to_op(&p), q));
    }
    if ms.is_empty() {
        obs.label("no-mutant-of-this-kind");
        return Ok(());
    }
    obs.label(format!("kind={kind}"));
    obs.nontrivial();
    for m in &ms {
        judge::<B, H>(k, kind, &op, idx, m, obs)?;
    }
    Ok(())
}

// NEGATIVE DIRECTION: SINGLE PATHS AND PROVER-SIDE VALIDATION
// ================================================================================================

pub const PATH_KINDS: [&str; 14] = [
    "path-leaf-foreign",
    "path-leaf-substitute",
    "path-node-foreign",
    "path-node-swap",
    "path-index-flipbit",
    "path-index-out-of-range",
    "path-index-huge",
    "path-empty",
    "path-len1",
    "path-drop-node",
    "path-add-node",
    "path-len66",
    "path-internal-node-as-leaf",
    "prover-validation",
];

fn single<B: FA, H: HA<B>>(k: &Kit<H>, pos: usize, kind: &str, obs: &mut Obs) -> CheckResult {
    let name = H::full_name();
    let root = *k.tree.root();
    let n = k.naive.num_leaves();
    let depth = k.naive.depth();
    let path = k.naive.path(pos);
    obs.label(format!("kind={kind}"));
    obs.nontrivial();
    let mut ms: Vec<(usize, Vec<H::Digest>)> = vec![];
    match kind {
        "path-leaf-foreign" => {
            let mut p = path.clone();
            p[0] = k.foreign[0];
            ms.push((pos, p));
        },
        "path-leaf-substitute" => {
            for q in [pos ^ 1, (pos + n / 2) % n] {
                let mut p = path.clone();
                p[0] = *k.naive.leaf(q);
                ms.push((pos, p));
            }
        },
        "path-node-foreign" => {
            for j in 1..path.len() {
                let mut p = path.clone();
                p[j] = k.foreign[0];
                ms.push((pos, p));
            }
        },
        "path-node-swap" => {
            for j in 0..path.len() - 1 {
                let mut p = path.clone();
                p.swap(j, j + 1);
                ms.push((pos, p));
            }
        },
        "path-index-flipbit" => {
            for b in 0..depth {
                ms.push((pos ^ (1 << b), path.clone()));
            }
        },
        "path-index-out-of-range" => {
            for q in [pos + n, pos + 2 * n, pos + (n << 7), n] {
                ms.push((q, path.clone()));
            }
        },
        "path-index-huge" => {
            for q in [usize::MAX, usize::MAX - 1, (1usize << 63) + pos, usize::MAX - n + 1 + pos] {
                ms.push((q, path.clone()));
            }
        },
        "path-empty" => ms.push((pos, vec![])),
        "path-len1" => {
            ms.push((pos, vec![path[0]]));
            ms.push((0, vec![root]));
        },
        "path-drop-node" => {
            for j in 1..path.len() {
                let mut p = path.clone();
                p.remove(j);
                if p.len() >= 2 {
                    ms.push((pos, p.clone()));
                    ms.push((pos >> 1, p));
                }
            }
        },
        "path-add-node" => {
            let mut p = path.clone();
            p.push(k.foreign[1]);
            ms.push((pos, p));
            let mut p = path.clone();
            p.insert(1, k.foreign[1]);
            ms.push((pos, p));
        },
        "path-len66" => {
            for len in [65usize, 66, 130] {
                let mut p = path.clone();
                while p.len() < len {
                    p.push(k.foreign[1]);
                }
                ms.push((pos, p));
            }
        },
        "path-internal-node-as-leaf" => {
            // the honest path of the parent node in the tree over the level-1 nodes
            if depth >= 2 {
                let mut p = vec![k.naive.levels[1][pos >> 1]];
                p.extend_from_slice(&path[2..]);
                ms.push((pos >> 1, p));
            }
        },
        "prover-validation" => {
            // documented errors of the proving side: out-of-range / duplicate / empty / too many
            let r = catch(|| k.tree.prove(n)).map_err(|p| fail_panic("prover-validation/prove", &p))?;
            ensure!(r.is_err(), "prover-validation/prove-out-of-range", "{name}: prove({n}) on {n} leaves succeeded");
            let r = catch(|| k.tree.prove(usize::MAX)).map_err(|p| fail_panic("prover-validation/prove", &p))?;
            ensure!(r.is_err(), "prover-validation/prove-out-of-range", "{name}: prove(usize::MAX) succeeded");
            for bad in [vec![], vec![n], vec![pos, pos], vec![pos, n + pos], (0..256).collect::<Vec<usize>>()] {
                let r = catch(|| k.tree.prove_batch(&bad)).map_err(|p| fail_panic("prover-validation/prove_batch", &p))?;
                ensure!(r.is_err(), "prover-validation/prove_batch-accepts", "{name}: prove_batch({:?}) on {n} leaves succeeded", short(&bad));
            }
            return Ok(());
        },
        _ => return Err(Fail::new("harness/kind", kind.to_string())),
    }
    for (q, p) in &ms {
        let r = catch(|| MerkleTree::<H>::verify(root, *q, p))
            .map_err(|e| Fail::new(format!("{kind}/verify/{}", pkey(&e)), format!("{name}: verify panicked ({kind}; index {q}, path of {} nodes, tree depth {depth}): {}", p.len(), e.msg)))?;
        obs.comparisons += 1;
        let unchanged = *q == pos && *p == path;
        if unchanged {
            obs.label("mutation-changed-nothing");
        }
        if r.is_ok() {
            let committed = !p.is_empty() && k.naive.committed(*q, &p[0]);
            ensure!(
                committed,
                format!("{kind}/accepted"),
                "{name}: verify accepted index {q} with a path of {} nodes for a tree of {n} leaves although (index, leaf) is not a committed pair ({kind}; honest index {pos})",
                p.len()
            );
            if !unchanged {
                obs.label(format!("accepted-claims-still-true:{kind}"));
            }
        } else {
            obs.label("rejected");
        }
    }
    Ok(())
}

// ENUMERATED SPACES
// ================================================================================================

#[derive(Serialize, Deserialize, Clone, Debug)]
pub struct ExCase {
    pub hasher: u8,
    pub depth: u8,
    /// bit i set = position i queried
    pub mask: u32,
    /// order id: 0 sorted, 1 reversed, 2 rotated by half, 3 odd ranks first (exhaustive-openings: bit
    /// set of the order ids evaluated by the case)
    pub order: u8,
    pub equal_leaves: bool,
    /// mutation kind (negative enumerations only)
    #[serde(default)]
    pub kind: String,
}

fn order_of(sorted: &[usize], order: u8) -> Vec<usize> {
    match order {
        0 => sorted.to_vec(),
        1 => sorted.iter().rev().cloned().collect(),
        2 => {
            let mut v = sorted.to_vec();
            let h = v.len() / 2;
            v.rotate_left(h);
            v
        },
        _ => {
            let mut v: Vec<usize> = sorted.iter().skip(1).step_by(2).cloned().collect();
            v.extend(sorted.iter().step_by(2).cloned());
            v
        },
    }
}

fn positions_of(c: &ExCase) -> Vec<usize> {
    let sorted: Vec<usize> = (0..(1usize << c.depth)).filter(|i| (c.mask >> i) & 1 == 1).collect();
    order_of(&sorted, c.order)
}

/// is this order variant a new permutation (not equal to one with a smaller order id)
fn order_is_new(c: &ExCase) -> bool {
    let sorted: Vec<usize> = (0..(1usize << c.depth)).filter(|i| (c.mask >> i) & 1 == 1).collect();
    let me = order_of(&sorted, c.order);
    (0..c.order).all(|o| order_of(&sorted, o) != me)
}

fn adjacency_label(idx: &[usize]) -> &'static str {
    let s: BTreeSet<usize> = idx.iter().cloned().collect();
    let pairs = s.iter().filter(|i| *i % 2 == 0 && s.contains(&(*i + 1))).count();
    if pairs == 0 {
        "siblings=none"
    } else if pairs * 2 == s.len() {
        "siblings=all"
    } else {
        "siblings=some"
    }
}

/// one enumerated case = one (hasher, depth, subset, leaves); the order variants are evaluated inside
/// the case (`order` = bit set of order ids). A failure that is not the from_paths-unsorted one is
/// reported in preference, so that class cannot mask anything else in the same case.
fn ex_positive<B: FA, H: HA<B>>(c: &ExCase, obs: &mut Obs) -> CheckResult {
    // the same subset over the tree whose every third leaf is the all-zero digest
    {
        let kz = kit::<B, H>(c.depth, c.equal_leaves, 7);
        let oc = ExCase { order: 0, ..c.clone() };
        let idx = positions_of(&oc);
        positive::<B, H>(&kz, &idx, &Flags { skip_unsorted_repack: false, verify_singles: false }, obs).map_err(|f| Fail::new(format!("zero-leaves/{}", f.key), f.msg))?;
        // and over one of the four trees with repeated leaves (which one: by the subset)
        let pat = 3 + (c.mask % 4) as u8;
        let kp = kit::<B, H>(c.depth, false, pat);
        obs.label(["leaves=halves-repeat", "leaves=period-4", "leaves=right-equal", "leaves=left-equal"][(pat - 3) as usize]);
        positive::<B, H>(&kp, &idx, &Flags { skip_unsorted_repack: false, verify_singles: true }, obs).map_err(|f| Fail::new(format!("repeated-leaves/{}", f.key), f.msg))?;
    }
    let k = kit::<B, H>(c.depth, c.equal_leaves, 0);
    obs.label(format!("depth={}", c.depth));
    obs.nontrivial();
    let mut fails: Vec<Fail> = vec![];
    let mut first = true;
    for order in 0u8..4 {
        if (c.order >> order) & 1 == 0 {
            continue;
        }
        let oc = ExCase { order, ..c.clone() };
        if !order_is_new(&oc) {
            continue;
        }
        let idx = positions_of(&oc);
        if first {
            obs.label(adjacency_label(&idx));
            first = false;
        }
        if let Err(f) = positive::<B, H>(&k, &idx, &Flags { skip_unsorted_repack: false, verify_singles: false }, obs) {
            fails.push(f);
        }
    }
    match fails.iter().position(|f| !f.key.starts_with("from_paths-unsorted/")) {
        Some(i) => Err(fails.swap_remove(i)),
        None => match fails.into_iter().next() {
            Some(f) => Err(f),
            None => Ok(()),
        },
    }
}

fn ex_negative<B: FA, H: HA<B>>(c: &ExCase, obs: &mut Obs) -> CheckResult {
    let k = kit::<B, H>(c.depth, c.equal_leaves, 0);
    let idx = positions_of(c);
    negative::<B, H>(&k, &idx, &c.kind, usize::MAX, obs)
}

#[derive(Serialize, Deserialize, Clone, Debug)]
pub struct PathCase {
    pub hasher: u8,
    pub depth: u8,
    pub pos: u32,
    pub equal_leaves: bool,
    pub kind: String,
}

fn ex_single<B: FA, H: HA<B>>(c: &PathCase, obs: &mut Obs) -> CheckResult {
    let k = kit::<B, H>(c.depth, c.equal_leaves, 0);
    obs.label(format!("depth={}", c.depth));
    single::<B, H>(&k, c.pos as usize, &c.kind, obs)
}

// SAMPLED TREES (depth 5..12)
// ================================================================================================

#[derive(Serialize, Deserialize, Clone, Debug)]
pub struct SampleCase {
    pub hasher: u8,
    pub depth: u8,
    pub equal_leaves: bool,
    pub seed: u8,
    pub shape: String,
    pub idx: Vec<u32>,
    /// mutation kind selector (negative sub-check)
    pub kind: u16,
}

fn subset_strategy(depth: u8) -> BoxedStrategy<(String, Vec<u32>)> {
    let n = 1u32 << depth;
    let maxk = n.min(255);
    prop_oneof![
        // adjacent run
        2 => (1u32..=maxk, any::<u32>()).prop_map(move |(len, s)| {
            let start = s % (n - len + 1);
            ("adjacent-run".to_string(), (start..start + len).collect::<Vec<u32>>())
        }),
        // sibling pairs
        2 => (1u32..=(maxk / 2).max(1), any::<u64>()).prop_map(move |(pairs, s)| {
            let half = n / 2;
            let step = (half / pairs).max(1);
            let off = (s % step as u64) as u32;
            let mut v = vec![];
            for i in 0..pairs {
                let q = (off + i * step) % half;
                v.push(2 * q);
                v.push(2 * q + 1);
            }
            v.sort();
            v.dedup();
            ("sibling-pairs".to_string(), v)
        }),
        // all-left: even positions only
        2 => (1u32..=maxk.min(n / 2), any::<u32>()).prop_map(move |(cnt, s)| {
            let half = n / 2;
            let start = s % (half - cnt + 1);
            ("all-left".to_string(), (start..start + cnt).map(|q| 2 * q).collect::<Vec<u32>>())
        }),
        // one per subtree
        2 => (0u32..=7, prop::collection::vec(any::<u32>(), 128)).prop_map(move |(lg, r)| {
            let parts = (1u32 << lg).min(n).min(128);
            let size = n / parts;
            ("one-per-subtree".to_string(), (0..parts).map(|i| i * size + r[i as usize] % size).collect::<Vec<u32>>())
        }),
        // uniform subset
        3 => (1usize..=maxk as usize).prop_flat_map(move |k| prop::collection::vec(any::<u32>(), k)).prop_map(move |r| {
            // partial Fisher-Yates driven by the generated words: distinct positions, any size <= n
            let mut pool: Vec<u32> = (0..n).collect();
            let mut v = vec![];
            for w in r {
                let i = (w as usize) % pool.len();
                v.push(pool.swap_remove(i));
            }
            v.sort();
            ("uniform".to_string(), v)
        }),
        // a single position at the edges
        1 => prop::sample::select(vec![0u32, 1, n - 1, n - 2, n / 2, n / 2 - 1]).prop_map(|p| ("single".to_string(), vec![p])),
    ]
    .boxed()
}

fn sample_strategy(hashers: Vec<u8>) -> BoxedStrategy<SampleCase> {
    (prop::sample::select(hashers), 5u8..=12, prop::bool::weighted(0.2), 0u8..2, any::<bool>(), any::<u16>())
        .prop_flat_map(|(hasher, depth, equal_leaves, seed, shuffle, kind)| {
            subset_strategy(depth).prop_flat_map(move |(shape, idx)| {
                let st = if shuffle && idx.len() > 1 { Just(idx).prop_shuffle().boxed() } else { Just(idx).boxed() };
                let shape = shape.clone();
                st.prop_map(move |idx| SampleCase { hasher, depth, equal_leaves, seed, shape: shape.clone(), idx, kind })
            })
        })
        .boxed()
}

fn sample_positive<B: FA, H: HA<B>>(c: &SampleCase, flags: &Flags, obs: &mut Obs) -> CheckResult {
    let k = kit::<B, H>(c.depth, c.equal_leaves, c.seed);
    let idx: Vec<usize> = c.idx.iter().map(|v| *v as usize).collect();
    positive::<B, H>(&k, &idx, flags, obs)
}
fn sample_negative<B: FA, H: HA<B>>(c: &SampleCase, kind: &str, obs: &mut Obs) -> CheckResult {
    let k = kit::<B, H>(c.depth, c.equal_leaves, c.seed);
    let idx: Vec<usize> = c.idx.iter().map(|v| *v as usize).collect();
    negative::<B, H>(&k, &idx, kind, 10, obs)
}
fn sample_single<B: FA, H: HA<B>>(c: &SampleCase, kind: &str, obs: &mut Obs) -> CheckResult {
    let k = kit::<B, H>(c.depth, c.equal_leaves, c.seed);
    single::<B, H>(&k, c.idx[0] as usize, kind, obs)
}

fn sample_valid(c: &SampleCase) -> bool {
    let n = 1u32 << c.depth.min(20);
    (5..=12).contains(&c.depth)
        && !c.idx.is_empty()
        && c.idx.len() <= 255
        && c.idx.iter().all(|i| *i < n)
        && c.idx.iter().collect::<BTreeSet<_>>().len() == c.idx.len()
}

// OPENINGS OF DEEP TREES (depth up to 63) WITHOUT MATERIALISING THEM
// ================================================================================================

#[derive(Serialize, Deserialize, Clone, Debug)]
pub struct DeepCase {
    pub hasher: u8,
    /// depth of the real subtree that holds the opened leaves (1..=4)
    pub sub_depth: u8,
    pub mask: u16,
    /// depth of the whole (virtual) tree, sub_depth + 1 ..= 63
    pub total_depth: u8,
    /// for every level above the subtree: is the subtree's ancestor the right child there
    pub bits: u64,
}

fn deep_one<B: FA, H: HA<B>>(c: &DeepCase, obs: &mut Obs) -> CheckResult {
    let name = H::full_name();
    let d0 = c.sub_depth.clamp(1, 4);
    let total = c.total_depth.clamp(d0 + 1, 63);
    let k = kit::<B, H>(d0, false, 0);
    let n0 = 1usize << d0;
    let mask = (c.mask as usize % ((1usize << n0) - 1)) + 1;
    let idx0: Vec<usize> = (0..n0).filter(|i| (mask >> i) & 1 == 1).collect();
    let h = (total - d0) as usize;
    obs.label(match total {
        0..=30 => "depth<=30",
        31 => "depth=31",
        32 => "depth=32",
        33..=62 => "depth=33..62",
        _ => "depth=63",
    });
    obs.nontrivial_if(idx0.len() > 1);
    // the tree above the subtree: one sibling digest per level; the path of every opened leaf is its path in
    // the real subtree followed by these siblings; the root follows by merging upwards (definition)
    let sib: Vec<H::Digest> = (0..h).map(|l| H::hash(&[0xD0, l as u8, c.bits as u8, (c.bits >> 8) as u8, d0])).collect();
    let mut root = *k.naive.root();
    let mut prefix = 0usize;
    for (l, s) in sib.iter().enumerate() {
        if (c.bits >> l) & 1 == 0 {
            root = merge_fn::<H>(&root, s);
        } else {
            root = merge_fn::<H>(s, &root);
            prefix |= 1usize << (d0 as usize + l);
        }
    }
    let positions: Vec<usize> = idx0.iter().map(|p| prefix | p).collect();
    let paths: Vec<Vec<H::Digest>> = idx0
        .iter()
        .map(|p| {
            let mut v = k.naive.path(*p);
            v.extend(sib.iter().cloned());
            v
        })
        .collect();
    for (p, path) in positions.iter().zip(paths.iter()) {
        let v = catch(|| MerkleTree::<H>::verify(root, *p, path)).map_err(|pn| fail_panic("deep/verify", &pn))?;
        ensure!(v.is_ok(), "deep/verify/err", "{name}: depth {total}: the path of position {p} does not verify: {v:?}");
    }
    let batch = catch(|| BatchMerkleProof::<H>::from_paths(&paths, &positions)).map_err(|pn| fail_panic("deep/from_paths", &pn))?;
    ensure!(batch.depth == total, "deep/from_paths/depth", "{name}: from_paths reports depth {} for paths of depth {total}", batch.depth);
    let r = catch(|| MerkleTree::<H>::verify_batch(&root, &positions, &batch)).map_err(|pn| fail_panic("deep/verify_batch", &pn))?;
    ensure!(r.is_ok(), "deep/verify_batch/err", "{name}: depth {total}, positions {positions:?}: the batch opening built from verifying paths does not verify: {r:?}");
    let gr = catch(|| batch.get_root(&positions)).map_err(|pn| fail_panic("deep/get_root", &pn))?;
    ensure!(gr.as_ref().ok() == Some(&root), "deep/get_root", "{name}: depth {total}: get_root differs from the root the paths resolve to");
    let back = catch(|| to_proof::<H>(&to_op(&batch)).into_paths(&positions))
        .map_err(|pn| fail_panic("deep/into_paths", &pn))?
        .map_err(|e| Fail::new("deep/into_paths/err", format!("{name}: depth {total}, positions {positions:?}: into_paths failed on a verifying opening: {e}")))?;
    ensure!(back == paths, "deep/into_paths/paths", "{name}: depth {total}: into_paths does not return the paths the opening was built from");
    Ok(())
}

pub struct Deep;

impl SubCheck for Deep {
    type Case = DeepCase;
    fn name(&self) -> String {
        "deep-virtual".into()
    }
    fn cases(&self, tier: Tier) -> u64 {
        tier.pick(12_000, 200_000)
    }
    fn rule(&self) -> String {
        "openings of trees of depth 2..63 that are never materialised: the opened leaves sit in a real subtree of depth 1..4 (every non-empty subset), every level above contributes one sibling digest and a left/right choice; paths = naive subtree path + siblings, root by definition; oracle: every path verifies, from_paths gives an opening of that depth that verifies (verify_batch, get_root) and decompresses (into_paths) to the same paths; non-trivial = more than one position".into()
    }
    fn required_labels(&self, _t: Tier) -> Vec<String> {
        ["depth<=30", "depth=31", "depth=32", "depth=33..62", "depth=63"].iter().map(|s| s.to_string()).collect()
    }
    fn strategy(&self, _tier: Tier) -> BoxedStrategy<DeepCase> {
        let depth = prop_oneof![3 => 2u8..=30, 2 => Just(31u8), 2 => Just(32u8), 3 => 33u8..=62, 1 => Just(63u8)];
        (0u8..6, 1u8..=4, any::<u16>(), depth, any::<u64>())
            .prop_map(|(hasher, sub_depth, mask, total_depth, bits)| DeepCase { hasher, sub_depth, mask, total_depth, bits })
            .boxed()
    }
    fn check(&self, c: &DeepCase, obs: &mut Obs) -> CheckResult {
        with_hasher!(c.hasher, deep_one(c, obs))
    }
}

pub struct SampledPos {
    skip_unsorted_repack: bool,
}

impl SubCheck for SampledPos {
    type Case = SampleCase;
    fn name(&self) -> String {
        "sampled-openings".into()
    }
    fn cases(&self, tier: Tier) -> u64 {
        tier.pick(24_000, 400_000)
    }
    fn watchdog_secs(&self) -> u64 {
        30
    }
    fn rule(&self) -> String {
        "trees of depth 5..12 over all six hashers (leaves distinct 4:1 all-equal; every eighth tree has the all-zero digest as every third leaf), position sets of size 1..255 shaped as adjacent run / sibling pairs / all-left / one per subtree / uniform / single edge position, sorted or shuffled: the positive oracle of the exhaustive sub-check; non-trivial = more than one position; distinct by (hasher, depth, leaves, positions in order)".into()
    }
    fn required_labels(&self, _t: Tier) -> Vec<String> {
        let mut v: Vec<String> = ["adjacent-run", "sibling-pairs", "all-left", "one-per-subtree", "uniform", "single"].iter().map(|s| format!("shape={s}")).collect();
        v.extend((5..=12).map(|d| format!("depth={d}")));
        v.extend((0..6).map(|h| format!("hasher={}", HASHERS[h])));
        v
    }
    fn strategy(&self, _tier: Tier) -> BoxedStrategy<SampleCase> {
        sample_strategy(vec![0, 1, 2, 3, 4, 5])
    }
    fn check(&self, c: &SampleCase, obs: &mut Obs) -> CheckResult {
        ensure!(sample_valid(c), "harness/case", "malformed case");
        obs.label(format!("shape={}", c.shape));
        obs.label(format!("depth={}", c.depth));
        obs.label(format!("hasher={}", HASHERS[c.hasher as usize % 6]));
        obs.label(if c.idx.len() >= 128 { "size>=128" } else if c.idx.len() >= 16 { "size=16..127" } else { "size<16" });
        obs.nontrivial_if(c.idx.len() > 1);
        let flags = Flags { skip_unsorted_repack: self.skip_unsorted_repack, verify_singles: true };
        with_hasher!(c.hasher, sample_positive(c, &flags, obs))
    }
}

pub struct SampledNeg {
    /// kinds whose failure is a recorded finding are not generated
    kinds: Vec<&'static str>,
    path_kinds: Vec<&'static str>,
}

impl SubCheck for SampledNeg {
    type Case = SampleCase;
    fn name(&self) -> String {
        "sampled-mutations".into()
    }
    fn cases(&self, tier: Tier) -> u64 {
        tier.pick(20_000, 400_000)
    }
    fn watchdog_secs(&self) -> u64 {
        60
    }
    fn rule(&self) -> String {
        format!(
            "same trees and position sets as sampled-openings; one mutation kind per case, applied at every place it applies or, where there are more than 10 places, at 10-11 of them spread evenly incl. the first and last (batch kinds: {:?}; single-path kinds on the first position: {:?}); result must be Err unless every claimed (position, leaf) is committed and the shape of the opening is unchanged, never a panic; non-trivial = at least one mutant evaluated; distinct by case",
            self.kinds, self.path_kinds
        )
    }
    fn strategy(&self, _tier: Tier) -> BoxedStrategy<SampleCase> {
        sample_strategy(vec![0, 1, 2, 3, 4, 5])
    }
    fn check(&self, c: &SampleCase, obs: &mut Obs) -> CheckResult {
        ensure!(sample_valid(c), "harness/case", "malformed case");
        obs.label(format!("hasher={}", HASHERS[c.hasher as usize % 6]));
        let total = self.kinds.len() + self.path_kinds.len();
        let sel = vf_core::pick_index(c.kind, total);
        if sel < self.kinds.len() {
            let kind = self.kinds[sel];
            with_hasher!(c.hasher, sample_negative(c, kind, obs))
        } else {
            let kind = self.path_kinds[sel - self.kinds.len()];
            with_hasher!(c.hasher, sample_single(c, kind, obs))
        }
    }
}

// DRIVER
// ================================================================================================

fn masks(depth: u8) -> impl Iterator<Item = u32> {
    let n = 1u32 << depth;
    let top: u64 = 1u64 << n;
    (1..top).map(|m| m as u32)
}

pub fn run(run: &mut Run) {
    run.assume("the two-to-one hash is used as a black box by the naive tree (its correctness is C11); no collisions among generated digests");
    if let Err(e) = vf_ref::merkle::selfcheck() {
        run.inconclusive(format!("reference self-check failed (merkle): {e}"));
        return;
    }
    let thorough = run.tier == Tier::Thorough;

    // ---- positive, exhaustive over depth 1..4 -------------------------------------------------
    let ex_hashers: Vec<u8> = vec![0, 1, 2, 3, 4, 5];
    let pos_cases = ex_hashers.clone().into_iter().flat_map(move |hasher| {
        (1u8..=if hasher < 3 || thorough { 4 } else { 3 }).flat_map(move |depth| {
            masks(depth).flat_map(move |mask| {
                [false, true].into_iter().map(move |equal_leaves| {
                    // quick: sorted + one of the three other orders (rotating with the subset); thorough: all four
                    let order = if thorough { 0b1111 } else { 1 | (2 << (mask % 3)) };
                    ExCase { hasher, depth, mask, order, equal_leaves, kind: String::new() }
                })
            })
        })
    });
    run.enumerate(
        "exhaustive-openings",
        if thorough {
            "all six hashers x depth 1..4 x every non-empty position subset x {distinct, all-equal} leaves, each in the orders {sorted, reversed, rotated by half, odd ranks first} (distinct permutations only; evaluated inside one case): root = naive root; prove_batch leaves = committed leaves; verify_batch Ok; get_root = naive root; prove(i) = naive path for every i; into_paths = naive paths; from_paths(into_paths) equals prove_batch (structure and serialized nodes) or at least verifies; all cases non-trivial"
        } else {
            "Blake3_256, Sha3_256, Rp64_256 x depth 1..4 and Blake3_192, RpJive64_256, Rp62_248 x depth 1..3 (depth 4 in the thorough tier) x every non-empty position subset x {distinct, all-equal} leaves, each in sorted order and one of {reversed, rotated by half, odd ranks first} (rotating with the subset; all four in the thorough tier): root = naive root; prove_batch leaves = committed leaves; verify_batch Ok; get_root = naive root; prove(i) = naive path for every i; into_paths = naive paths; from_paths(into_paths) equals prove_batch (structure and serialized nodes) or at least verifies; all cases non-trivial"
        },
        true,
        pos_cases,
        |c: &ExCase, obs: &mut Obs| with_hasher!(c.hasher, ex_positive(c, obs)),
    );

    // ---- negative, exhaustive over depth 1..3 (all hashers), depth 4 (three hashers) -----------
    let neg_small = ex_hashers.clone().into_iter().flat_map(|hasher| {
        (1u8..=3).flat_map(move |depth| {
            masks(depth).flat_map(move |mask| {
                [false, true].into_iter().flat_map(move |equal_leaves| {
                    [0u8, 3].into_iter().flat_map(move |order| {
                        BATCH_KINDS.iter().filter_map(move |kind| {
                            let c = ExCase { hasher, depth, mask, order, equal_leaves, kind: kind.to_string() };
                            order_is_new(&c).then_some(c)
                        })
                    })
                })
            })
        })
    });
    run.enumerate(
        "exhaustive-mutations-d1-3",
        "all six hashers x depth 1..3 x every non-empty position subset x {sorted, odd ranks first} x {distinct, all-equal} leaves x every mutation kind (each applied at every place it applies: every leaf / node / position and bit / vector): verify_batch must return Err unless every claimed (position, leaf) is committed, the list is non-empty, distinct, in range and the shape of the opening (number of leaves, node vectors, nodes per vector, depth) is the honest one; verify_batch and into_paths must not panic; into_paths must not return a resolving path for an uncommitted leaf; non-trivial = at least one mutant of the kind exists",
        true,
        neg_small,
        |c: &ExCase, obs: &mut Obs| with_hasher!(c.hasher, ex_negative(c, obs)),
    );
    let stride: u32 = if thorough { 1 } else { 113 };
    let neg_d4 = [0u8, 1, 2].into_iter().flat_map(move |hasher| {
        masks(4).filter(move |m| stride == 1 || m % stride == (hasher as u32 + 1) || m.count_ones() <= 2 || m.count_ones() >= 15).flat_map(move |mask| {
            [false, true].into_iter().flat_map(move |equal_leaves| {
                [0u8, 3].into_iter().flat_map(move |order| {
                    BATCH_KINDS.iter().filter_map(move |kind| {
                        let c = ExCase { hasher, depth: 4, mask, order, equal_leaves, kind: kind.to_string() };
                        // all-equal leaves and the second order on every 4th subset only
                        let keep = (!equal_leaves && order == 0) || mask % 4 == 1;
                        (keep && order_is_new(&c)).then_some(c)
                    })
                })
            })
        })
    });
    run.enumerate(
        "exhaustive-mutations-d4",
        if thorough {
            "Blake3_256, Sha3_256, Rp64_256 x depth 4 x every non-empty subset of the 16 positions (sorted order, distinct leaves; additionally odd-ranks-first order and all-equal leaves on every 4th subset) x every mutation kind at every place; same oracle as exhaustive-mutations-d1-3"
        } else {
            "Blake3_256, Sha3_256, Rp64_256 x depth 4 x every 113th subset of the 16 positions plus all subsets of size <= 2 and >= 15 (sorted order, distinct leaves; additionally odd-ranks-first order and all-equal leaves on every 4th of those) x every mutation kind at every place; same oracle as exhaustive-mutations-d1-3 (the thorough tier visits every subset)"
        },
        thorough,
        neg_d4,
        |c: &ExCase, obs: &mut Obs| with_hasher!(c.hasher, ex_negative(c, obs)),
    );

    // ---- single paths ------------------------------------------------------------------------
    let path_cases = ex_hashers.clone().into_iter().flat_map(|hasher| {
        (1u8..=6).flat_map(move |depth| {
            (0u32..(1 << depth)).flat_map(move |pos| {
                [false, true].into_iter().flat_map(move |equal_leaves| {
                    PATH_KINDS.iter().map(move |kind| PathCase { hasher, depth, pos, equal_leaves, kind: kind.to_string() })
                })
            })
        })
    });
    run.enumerate(
        "exhaustive-paths",
        "all six hashers x depth 1..6 x every position x {distinct, all-equal} leaves x every single-path mutation kind (leaf / every node / every index bit / out-of-range and huge indexes / empty, 1-node, shortened, extended and 65+-node paths) and the documented errors of prove / prove_batch: verify must return Err unless (index, leaf) is a committed pair, never panic; all cases non-trivial",
        true,
        path_cases,
        |c: &PathCase, obs: &mut Obs| with_hasher!(c.hasher, ex_single(c, obs)),
    );

    // ---- sampled, depth 5..12 ----------------------------------------------------------------
    let f11_known = run.is_known("exhaustive-openings/from_paths-unsorted/does-not-verify") || run.is_known("sampled-openings/from_paths-unsorted/does-not-verify");
    run.sub(&SampledPos { skip_unsorted_repack: f11_known });
    run.sub(&Deep);
    // kinds with a recorded finding are left to the enumerations above (which do not shrink)
    let kinds: Vec<&'static str> = BATCH_KINDS
        .iter()
        .filter(|k| !run.is_known(&format!("sampled-mutations/{k}/")))
        .cloned()
        .collect();
    let path_kinds: Vec<&'static str> = PATH_KINDS
        .iter()
        .filter(|k| !run.is_known(&format!("sampled-mutations/{k}/")))
        .cloned()
        .collect();
    let excluded: Vec<String> = BATCH_KINDS
        .iter()
        .chain(PATH_KINDS.iter())
        .filter(|k| !kinds.contains(k) && !path_kinds.contains(k))
        .map(|s| s.to_string())
        .collect();
    run.note("sampled_mutations_kinds_excluded_as_known", serde_json::json!(excluded));
    run.sub(&SampledNeg { kinds, path_kinds });
}
