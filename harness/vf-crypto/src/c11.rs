//! C11 — hash functions implement their specification on every input.
//!
//! Oracles: `vf_ref::hashes::RefH` (plain blake3 / sha3 over canonical little-endian bytes; textbook
//! Rescue Prime over integers with the published constants, sponge / Jive modes as documented).
//! The reference is validated first against the published permutation vectors (`selfcheck`).

use std::marker::PhantomData;

use proptest::prelude::*;
use serde::{Deserialize, Serialize};
use vf_core::{catch, ensure, CheckResult, Fail, Obs, Run, SubCheck, Tier, X};
use vf_ref::hashes::{Dg, RefH};
use vf_ref::rescue::Rescue;
use vf_ref::rescue_consts as k;
use vf_repo::prelude::*;
use winter_crypto::hashers::{Blake3_192, Blake3_256, Rp62_248, Rp64_256, RpJive64_256, Sha3_256};
use winter_math::FieldElement;

use crate::ha::{digest_from_words, pkey, Hx, HA};

// PERMUTATION ACCESS (public for the two f64 instances only)
// ================================================================================================

pub trait PermH: HA<B64> {
    fn rescue() -> Rescue;
    fn perm(s: &mut [B64]);
    fn round(s: &mut [B64], r: usize);
}
impl PermH for Rp64_256 {
    fn rescue() -> Rescue {
        Rescue::rp64_256()
    }
    fn perm(s: &mut [B64]) {
        let mut a: [B64; 12] = s[..].try_into().unwrap();
        Rp64_256::apply_permutation(&mut a);
        s.copy_from_slice(&a);
    }
    fn round(s: &mut [B64], r: usize) {
        let mut a: [B64; 12] = s[..].try_into().unwrap();
        Rp64_256::apply_round(&mut a, r);
        s.copy_from_slice(&a);
    }
}
impl PermH for RpJive64_256 {
    fn rescue() -> Rescue {
        Rescue::rp_jive64_256()
    }
    fn perm(s: &mut [B64]) {
        let mut a: [B64; 8] = s[..].try_into().unwrap();
        RpJive64_256::apply_permutation(&mut a);
        s.copy_from_slice(&a);
    }
    fn round(s: &mut [B64], r: usize) {
        let mut a: [B64; 8] = s[..].try_into().unwrap();
        RpJive64_256::apply_round(&mut a, r);
        s.copy_from_slice(&a);
    }
}

/// every observable of a state produced by /repo must be the canonical one of the reference residues
fn check_state(out: &[B64], want: &[u128], what: &str, obs: &mut Obs) -> CheckResult {
    for (i, (o, w)) in out.iter().zip(want).enumerate() {
        obs.comparisons += 1;
        let got = o.as_int() as u128;
        ensure!(got == *w, format!("{what}/value"), "{what}: limb {i} is {got}, the reference definition gives {w}");
        ensure!(
            *o == B64::from_u128(*w),
            format!("{what}/eq-canonical"),
            "{what}: limb {i} denotes {w} but compares unequal to the canonical element (internal value {:#x})",
            o.inner()
        );
        ensure!(
            (o.inner() as u128) < F64.p,
            format!("{what}/image-range"),
            "{what}: limb {i} has internal value {:#x} outside the documented range [0, M)",
            o.inner()
        );
    }
    Ok(())
}

fn rinv64() -> u128 {
    F64.inv((1u128 << 64) % F64.p)
}

// CONSTANTS
// ================================================================================================

#[derive(Serialize, Deserialize, Clone, Debug)]
pub struct ConstCase {
    pub hasher: String,
    pub table: String,
}

fn cmp_table<const W: usize, const N: usize>(name: &str, got: &[[B64; W]; N], want: &[[u64; W]; N]) -> CheckResult {
    for i in 0..N {
        for j in 0..W {
            ensure!(
                got[i][j].as_int() == want[i][j] && (want[i][j] as u128) < F64.p,
                format!("constants/{name}"),
                "{name}[{i}][{j}] = {} differs from the published value {}",
                got[i][j].as_int(),
                want[i][j]
            );
        }
    }
    Ok(())
}

fn const_check(c: &ConstCase, obs: &mut Obs) -> CheckResult {
    obs.nontrivial();
    obs.label(format!("{}:{}", c.hasher, c.table));
    match (c.hasher.as_str(), c.table.as_str()) {
        ("Rp64_256", "MDS") => cmp_table("Rp64_256::MDS", &Rp64_256::MDS, &k::RP64_MDS),
        ("Rp64_256", "INV_MDS") => cmp_table("Rp64_256::INV_MDS", &Rp64_256::INV_MDS, &k::RP64_INV_MDS),
        ("Rp64_256", "ARK1") => cmp_table("Rp64_256::ARK1", &Rp64_256::ARK1, &k::RP64_ARK1),
        ("Rp64_256", "ARK2") => cmp_table("Rp64_256::ARK2", &Rp64_256::ARK2, &k::RP64_ARK2),
        ("Rp64_256", "layout") => {
            ensure!(
                Rp64_256::NUM_ROUNDS == 7
                    && Rp64_256::STATE_WIDTH == 12
                    && Rp64_256::RATE_RANGE == (4..12)
                    && Rp64_256::CAPACITY_RANGE == (0..4)
                    && Rp64_256::DIGEST_RANGE == (4..8),
                "constants/layout",
                "Rp64_256 layout constants differ from the documented ones"
            );
            Ok(())
        },
        ("RpJive64_256", "MDS") => cmp_table("RpJive64_256::MDS", &RpJive64_256::MDS, &k::JIVE_MDS),
        ("RpJive64_256", "INV_MDS") => cmp_table("RpJive64_256::INV_MDS", &RpJive64_256::INV_MDS, &k::JIVE_INV_MDS),
        ("RpJive64_256", "ARK1") => cmp_table("RpJive64_256::ARK1", &RpJive64_256::ARK1, &k::JIVE_ARK1),
        ("RpJive64_256", "ARK2") => cmp_table("RpJive64_256::ARK2", &RpJive64_256::ARK2, &k::JIVE_ARK2),
        ("RpJive64_256", "layout") => {
            ensure!(
                RpJive64_256::NUM_ROUNDS == 7
                    && RpJive64_256::STATE_WIDTH == 8
                    && RpJive64_256::RATE_RANGE == (4..8)
                    && RpJive64_256::CAPACITY_RANGE == (0..4)
                    && RpJive64_256::DIGEST_RANGE == (4..8),
                "constants/layout",
                "RpJive64_256 layout constants differ from the documented ones"
            );
            Ok(())
        },
        // published vector through the public permutation (0, 1, 2, ..)
        (h, "vector") => {
            let (got, want): (Vec<B64>, Vec<u128>) = if h == "Rp64_256" {
                let mut s: Vec<B64> = (0..12u128).map(B64::from_u128).collect();
                Rp64_256::perm(&mut s);
                let mut w: Vec<u128> = (0..12).collect();
                Rescue::rp64_256().permutation(&mut w);
                (s, w)
            } else {
                let mut s: Vec<B64> = (0..8u128).map(B64::from_u128).collect();
                RpJive64_256::perm(&mut s);
                let mut w: Vec<u128> = (0..8).collect();
                Rescue::rp_jive64_256().permutation(&mut w);
                (s, w)
            };
            check_state(&got, &want, "vector", obs)
        },
        _ => Err(Fail::new("harness/unknown", format!("{c:?}"))),
    }
}

// SINGLE ROUNDS WITH SOLVED LINEAR-LAYER INPUTS
// ================================================================================================

/// image classes for the limbs that enter the frequency-domain product (as 64-bit internal values)
const LIMB_CLASSES: [u64; 6] = [
    0,
    0xffff_ffff,            // 2^32 - 1: low half all ones
    0x1_0000_0000,          // 2^32: high half one
    0xffff_ffff_0000_0000,  // p - 1: high half all ones
    0xffff_fffe_ffffffff,   // p - 2^32 - 2: both halves (almost) all ones
    0x9e37_79b9_7f4a_7c15,  // fixed "random" limb
];

#[derive(Serialize, Deserialize, Clone, Debug)]
pub struct LimbCase {
    pub a: u8,
    pub b: u8,
    pub mask: u16,
    /// 0: limb values are the internal values entering the first linear layer (input solved through
    /// the 7th root); 1: limb values are internal values of the input; 2: limb values are input residues
    pub mode: u8,
}

#[derive(Serialize, Deserialize, Clone, Debug)]
pub struct WindowCase {
    pub row: u8,
    pub col: u8,
    pub h: u8,
    pub d: u8,
    pub round: u8,
}

fn round_vs_ref<H: PermH>(input: &[u128], r: usize, obs: &mut Obs) -> CheckResult {
    let rs = H::rescue();
    let mut st: Vec<B64> = input.iter().map(|v| B64::from_u128(*v)).collect();
    let mut want = input.to_vec();
    rs.round(&mut want, r);
    catch(|| H::round(&mut st, r)).map_err(|p| Fail::new(format!("round/{}", pkey(&p)), format!("apply_round panicked: {}", p.msg)))?;
    check_state(&st, &want, "round", obs)
}

fn limb_check<H: PermH>(c: &LimbCase, obs: &mut Obs) -> CheckResult {
    let rs = H::rescue();
    let fp = F64;
    let w = rs.width;
    let limbs: Vec<u64> = (0..w)
        .map(|i| if (c.mask >> i) & 1 == 1 { LIMB_CLASSES[c.a as usize] } else { LIMB_CLASSES[c.b as usize] })
        .collect();
    let input: Vec<u128> = match c.mode {
        0 => limbs
            .iter()
            .map(|m| {
                let res = fp.mul(*m as u128 % fp.p, rinv64());
                fp.pow(res, rs.inv_alpha)
            })
            .collect(),
        1 => limbs.iter().map(|m| fp.mul(*m as u128 % fp.p, rinv64())).collect(),
        _ => limbs.iter().map(|m| *m as u128 % fp.p).collect(),
    };
    obs.label(format!("mode={}", ["solved-image", "image", "residue"][c.mode as usize % 3]));
    obs.nontrivial();
    let r = (c.mask as usize + c.a as usize) % rs.rounds;
    round_vs_ref::<H>(&input, r, obs)?;
    if c.mask % 64 == 0 {
        // the full permutation on a slice of the same states
        let mut st: Vec<B64> = input.iter().map(|v| B64::from_u128(*v)).collect();
        let mut want = input.clone();
        rs.permutation(&mut want);
        H::perm(&mut st);
        check_state(&st, &want, "permutation", obs)?;
    }
    Ok(())
}

/// One non-zero limb at `col`, chosen so that the integer product MDS[row][col] * limb lands in the
/// window where the lazy reduction of the linear layer does not carry but the sum is >= p.
fn window_check<H: PermH>(c: &WindowCase, obs: &mut Obs) -> CheckResult {
    let rs = H::rescue();
    let fp = F64;
    let p = fp.p;
    let coef = rs.mds[c.row as usize][c.col as usize];
    let h = c.h as u128;
    if h + 1 > coef {
        obs.label("window=unreachable-for-coefficient");
        return Ok(());
    }
    let z = h * ((1u128 << 32) - 1);
    let target = (h << 64) + (p - z) + c.d as u128;
    let m = target.div_ceil(coef);
    if m >= p {
        obs.label("window=unreachable-for-coefficient");
        return Ok(());
    }
    // did we hit the window?  s = coef*m ; res = s_lo + s_hi*(2^32-1) without carry and >= p
    let s = coef * m;
    let (s_hi, s_lo) = (s >> 64, s & u64::MAX as u128);
    let sum = s_lo + s_hi * ((1u128 << 32) - 1);
    let hit = sum < (1u128 << 64) && sum >= p;
    obs.label(if hit { "window=hit" } else { "window=missed" });
    obs.nontrivial_if(hit);
    let res = fp.mul(m, rinv64());
    let x = fp.pow(res, rs.inv_alpha);
    ensure!(fp.pow(x, rs.alpha) == res, "harness/solve", "7th root construction failed");
    let mut input = vec![0u128; rs.width];
    input[c.col as usize] = x;
    round_vs_ref::<H>(&input, c.round as usize % rs.rounds, obs)
}

// RANDOM / BOUNDARY STATES
// ================================================================================================

#[derive(Serialize, Deserialize, Clone, Debug)]
pub struct PermCase {
    pub limbs: Vec<Src>,
    pub round: u8,
}

pub struct Perm<H>(PhantomData<H>);

fn limb_strategy() -> BoxedStrategy<Src> {
    let p = F64.p;
    prop_oneof![
        3 => prop::sample::select(vec![0u128, (1u128 << 32) - 1, 1u128 << 32, p - 1, 1, p - 2]).prop_map(|v| Src::Res(X(v))),
        2 => prop::sample::select(LIMB_CLASSES.to_vec()).prop_map(|v| Src::Img(X(v as u128))),
        3 => src_strategy::<B64>(),
        2 => any::<u64>().prop_map(move |v| Src::Res(X(v as u128 % p))),
    ]
    .boxed()
}

impl<H: PermH + Sync> SubCheck for Perm<H> {
    type Case = PermCase;
    fn name(&self) -> String {
        format!("permutation/{}", H::hname())
    }
    fn cases(&self, tier: Tier) -> u64 {
        tier.pick(100_000, 2_000_000)
    }
    fn watchdog_secs(&self) -> u64 {
        20
    }
    fn rule(&self) -> String {
        "states whose limbs are drawn independently from {0, 2^32-1, 2^32, p-1, 1, p-2 as residues; the same patterns as internal values; C07's boundary/structured operands; uniform}; apply_permutation and one apply_round(r) compared limb by limb (value, == with the canonical element, internal value < M) with the textbook reference; non-trivial = at least one boundary limb; distinct by (state, round)".into()
    }
    fn required_labels(&self, _t: Tier) -> Vec<String> {
        vec!["boundary-limbs=0".into(), "boundary-limbs=all".into()]
    }
    fn strategy(&self, _tier: Tier) -> BoxedStrategy<PermCase> {
        let w = H::rescue().width;
        prop_oneof![
            4 => (prop::collection::vec(limb_strategy(), w), 0u8..7).prop_map(|(limbs, round)| PermCase { limbs, round }),
            1 => (prop::collection::vec(any::<u64>().prop_map(|v| Src::Res(X(v as u128 % F64.p))), w), 0u8..7)
                .prop_map(|(limbs, round)| PermCase { limbs, round }),
        ]
        .boxed()
    }
    fn check(&self, c: &PermCase, obs: &mut Obs) -> CheckResult {
        let rs = H::rescue();
        ensure!(c.limbs.len() == rs.width, "harness/width", "state width");
        let st0: Vec<B64> = c.limbs.iter().map(realise::<B64>).collect();
        let input: Vec<u128> = st0.iter().map(|e| e.as_int() as u128).collect();
        let nb = c.limbs.iter().filter(|s| vf_repo::is_boundary::<B64>(s)).count();
        obs.label(if nb == 0 {
            "boundary-limbs=0".to_string()
        } else if nb == rs.width {
            "boundary-limbs=all".to_string()
        } else {
            "boundary-limbs=some".to_string()
        });
        obs.nontrivial_if(nb > 0);
        // harness sanity: operands denote what the model says
        for (s, v) in c.limbs.iter().zip(&input) {
            let m = match s {
                Src::Res(X(r)) => *r % F64.p,
                Src::Img(X(m)) if B64::image_valid(*m) => F64.mul(*m, rinv64()),
                Src::Img(X(m)) => *m % F64.p,
            };
            ensure!(m == *v, "harness/operand", "operand model");
        }
        let mut st = st0.clone();
        let mut want = input.clone();
        rs.permutation(&mut want);
        catch(|| H::perm(&mut st)).map_err(|p| Fail::new(format!("permutation/{}", pkey(&p)), p.msg.clone()))?;
        check_state(&st, &want, "permutation", obs)?;
        // determinism
        let mut st2 = st0.clone();
        H::perm(&mut st2);
        ensure!(st2 == st, "permutation/determinism", "two evaluations differ");
        let mut st = st0;
        let mut want = input;
        rs.round(&mut want, c.round as usize);
        H::round(&mut st, c.round as usize);
        check_state(&st, &want, "round", obs)
    }
}

// BYTE STRINGS
// ================================================================================================

fn pattern_bytes(len: usize, pat: u8) -> Vec<u8> {
    (0..len)
        .map(|i| match pat {
            0 => 0u8,
            1 => 0xff,
            2 => i as u8,
            3 => ((i * 167 + 13) ^ (i >> 3)) as u8,
            4 => 1,
            _ => {
                if i + 1 == len {
                    0
                } else {
                    0xa5
                }
            },
        })
        .collect()
}
const NUM_PATTERNS: u8 = 6;

pub fn all_lengths() -> Vec<usize> {
    let mut v: Vec<usize> = (0..=200).collect();
    for rate in [4usize, 8] {
        for k in 1..=6usize {
            let c = k * 7 * rate;
            for d in 0..=8usize {
                v.push(c + d);
                if c >= d {
                    v.push(c - d);
                }
            }
        }
    }
    v.sort();
    v.dedup();
    v
}

#[derive(Serialize, Deserialize, Clone, Debug)]
pub struct LenCase {
    pub len: usize,
    pub pat: u8,
}

/// Rescue byte mode without the final 0x01 byte (diagnosis only: names the way a digest is wrong)
fn unpadded_digest(r: &RefH, data: &[u8]) -> Option<Dg> {
    let rs = r.rescue()?;
    let els: Vec<u128> = data
        .chunks(7)
        .map(|c| {
            let mut buf = [0u8; 8];
            buf[..c.len()].copy_from_slice(c);
            u64::from_le_bytes(buf) as u128 % rs.fp.p
        })
        .collect();
    Some(Dg::Elems(rs.hash_elements(&els)))
}

fn check_bytes<B: FA, H: HA<B>>(data: &[u8], obs: &mut Obs) -> CheckResult {
    let r = H::refh();
    let name = H::hname();
    let blocks = match r.rescue() {
        Some(rs) => data.len().div_ceil(7).div_ceil(rs.rate_width),
        None => data.len().div_ceil(64),
    };
    obs.label(match blocks {
        0 => "blocks=0",
        1 => "blocks=1",
        2 => "blocks=2",
        _ => "blocks>=3",
    });
    if data.len() % 7 == 0 {
        obs.label("len%7=0");
    }
    if data.len() > 56 {
        obs.label("len>56");
    }
    obs.nontrivial_if(blocks >= 2);
    // totality
    let d1 = catch(|| H::hash(data)).map_err(|p| {
        Fail::new(format!("totality/{}", pkey(&p)), format!("{name}::hash panicked on an input of {} bytes: {}", data.len(), p.msg))
    })?;
    // determinism
    let d2 = H::hash(data);
    ensure!(d1 == d2, "determinism", "{name}::hash gave two different digests for the same {} bytes", data.len());
    // specification
    let spec = r.hash(data);
    obs.comparisons += 1;
    if H::to_ref(&d1) != spec {
        let key = if unpadded_digest(&r, data).as_ref() == Some(&H::to_ref(&d1)) { "spec/matches-unpadded" } else { "spec/mismatch" };
        return Err(Fail::new(
            key,
            format!(
                "{name}::hash of {} bytes is {:?}, the documented definition gives {:?}{}",
                data.len(),
                H::to_ref(&d1),
                spec,
                if key == "spec/matches-unpadded" { " (the digest equals the one obtained WITHOUT the final 0x01 padding byte)" } else { "" }
            ),
        ));
    }
    ensure!(d1 == H::from_ref(&spec), "spec/eq", "{name}::hash: digest has the right value but compares unequal to it");
    // trailing zero byte changes the digest
    let mut ext = data.to_vec();
    ext.push(0);
    let d3 = catch(|| H::hash(&ext)).map_err(|p| {
        Fail::new(format!("totality/{}", pkey(&p)), format!("{name}::hash panicked on an input of {} bytes: {}", ext.len(), p.msg))
    })?;
    ensure!(d3 != d1, "law/trailing-zero", "{name}::hash(x) == hash(x || 0x00) for |x| = {}", data.len());
    Ok(())
}

#[derive(Serialize, Deserialize, Clone, Debug)]
pub struct BytesCase {
    pub data: Hx,
}

pub struct Bytes<B, H> {
    max_len: usize,
    _p: PhantomData<(B, H)>,
}

impl<B: FA, H: HA<B> + Sync> SubCheck for Bytes<B, H> {
    type Case = BytesCase;
    fn name(&self) -> String {
        format!("bytes/{}", H::hname())
    }
    fn cases(&self, tier: Tier) -> u64 {
        if H::refh().is_rescue() {
            tier.pick(40_000, 800_000)
        } else {
            tier.pick(200_000, 4_000_000)
        }
    }
    fn watchdog_secs(&self) -> u64 {
        20
    }
    fn rule(&self) -> String {
        format!(
            "byte strings of length 0..={} (lengths 1:1:1 from {{0..64, uniform, within 8 of a multiple of 7*rate}}), content uniform / with a zero tail / all equal; totality, determinism, digest = reference definition, hash(x) != hash(x||0x00); non-trivial = more than one absorbed block; distinct by content",
            self.max_len
        )
    }
    fn strategy(&self, _tier: Tier) -> BoxedStrategy<BytesCase> {
        let max = self.max_len;
        let len = prop_oneof![
            1 => 0usize..=64.min(max),
            1 => 0usize..=max,
            1 => (1usize..=14, 0usize..=16).prop_map(move |(k, d)| (k * 28 + d).saturating_sub(8).min(max)),
        ];
        len.prop_flat_map(|n| {
            prop_oneof![
                3 => prop::collection::vec(any::<u8>(), n),
                1 => (prop::collection::vec(any::<u8>(), n), 0usize..=8).prop_map(|(mut v, z)| {
                    let l = v.len();
                    for b in v.iter_mut().skip(l.saturating_sub(z)) {
                        *b = 0;
                    }
                    v
                }),
                1 => any::<u8>().prop_map(move |b| vec![b; n]),
            ]
        })
        .prop_map(|v| BytesCase { data: Hx(v) })
        .boxed()
    }
    fn check(&self, c: &BytesCase, obs: &mut Obs) -> CheckResult {
        if self.max_len < 400 {
            obs.label("excluded-known:len>55");
        }
        check_bytes::<B, H>(&c.data.0, obs)
    }
}

// ELEMENT LISTS
// ================================================================================================

#[derive(Serialize, Deserialize, Clone, Debug)]
pub struct ElemCase {
    pub els: Vec<Src>,
}

pub struct Elems<B, H>(PhantomData<(B, H)>);

fn model_residue<B: FA>(e: &B) -> u128 {
    e.to_u128()
}

impl<B: FA, H: HA<B> + Sync> SubCheck for Elems<B, H> {
    type Case = ElemCase;
    fn name(&self) -> String {
        format!("elements/{}", H::full_name())
    }
    fn cases(&self, tier: Tier) -> u64 {
        if H::refh().is_rescue() {
            tier.pick(30_000, 600_000)
        } else {
            tier.pick(100_000, 1_500_000)
        }
    }
    fn watchdog_secs(&self) -> u64 {
        20
    }
    fn rule(&self) -> String {
        "element lists of every length 0..=40 (uniform over lengths; 40 of 43 cases) and long lists of 2^k-1, 2^k, 2^k+1 elements for 2^k = 64..2048 and uniform lengths up to 2100, elements from C07's operand sources (boundary residues, structured and non-canonical internal values, uniform); hash_elements of the base typing = reference definition on the residues = quadratic typing (even lengths) = cubic typing (multiples of 3, where the cubic extension exists) = the same residues rebuilt canonically; determinism; list != list || 0; non-trivial = some element is a boundary value or has a non-canonical internal value; distinct by list".into()
    }
    fn required_labels(&self, _t: Tier) -> Vec<String> {
        (0..=40).map(|n| format!("len={n}")).collect()
    }
    fn strategy(&self, _tier: Tier) -> BoxedStrategy<ElemCase> {
        // mostly short lists (every length around the rate boundaries), and long ones around the sizes at which
        // an implementation may switch buffers or strategies (2^k - 1, 2^k, 2^k + 1 elements up to 2049; byte hashers up to 16385)
        let long = prop::sample::select(vec![63usize, 64, 65, 127, 128, 129, 255, 256, 257, 511, 512, 513, 1023, 1024, 1025, 1535, 1536, 2047, 2048, 2049]);
        // byte hashers (cheap) also get lists around 8192 and 16384 elements (64 KiB / 128 KiB of serialized f64 elements)
        let very_long = if H::refh().is_rescue() { prop::sample::select(vec![2049usize]) } else { prop::sample::select(vec![8191usize, 8192, 8193, 16383, 16384, 16385]) };
        prop_oneof![80 => 0usize..=40, 4 => long, 2 => 41usize..=2100, 1 => very_long]
            .prop_flat_map(|n| prop::collection::vec(src_strategy::<B>(), n))
            .prop_map(|els| ElemCase { els })
            .boxed()
    }
    fn check(&self, c: &ElemCase, obs: &mut Obs) -> CheckResult {
        let r = H::refh();
        let name = H::full_name();
        let base: Vec<B> = c.els.iter().map(realise::<B>).collect();
        let residues: Vec<u128> = base.iter().map(model_residue::<B>).collect();
        let n = base.len();
        obs.label(if n <= 40 { format!("len={n}") } else if n <= 2100 && [63usize, 64, 65, 127, 128, 129, 255, 256, 257, 511, 512, 513, 1023, 1024, 1025, 1535, 1536, 2047, 2048, 2049].contains(&n) { format!("len={n}") } else if n <= 2100 { "len=41..2100".to_string() } else { format!("len={n}") });
        let noncanon = base.iter().any(|e| e.image() >= B::FP.p);
        if noncanon {
            obs.label("has-non-canonical-internal-value");
        }
        obs.nontrivial_if(noncanon || c.els.iter().any(vf_repo::is_boundary::<B>));
        let d1 = catch(|| H::hash_elements(&base))
            .map_err(|p| Fail::new(format!("totality/{}", pkey(&p)), format!("{name}::hash_elements panicked on {n} elements: {}", p.msg)))?;
        let spec = r.hash_elements(&residues);
        obs.comparisons += 1;
        ensure!(
            H::to_ref(&d1) == spec,
            "spec/base",
            "{name}::hash_elements of {n} base elements is {:?}, the documented definition gives {:?}",
            H::to_ref(&d1),
            spec
        );
        ensure!(d1 == H::from_ref(&spec), "spec/eq", "{name}: digest has the right value but compares unequal to it");
        ensure!(H::hash_elements(&base) == d1, "determinism", "{name}::hash_elements not deterministic");
        // same residues, canonical internal values
        let canon: Vec<B> = residues.iter().map(|v| B::from_u128(*v)).collect();
        ensure!(
            H::hash_elements(&canon) == d1,
            "representation",
            "{name}::hash_elements depends on the internal representation of the elements"
        );
        // typings
        if n % 2 == 0 {
            let q = Q::<B>::slice_from_base_elements(&base);
            obs.comparisons += 1;
            ensure!(
                catch(|| H::hash_elements(q)).map_err(|p| Fail::new(format!("totality/{}", pkey(&p)), p.msg.clone()))? == d1,
                "typing/quadratic",
                "{name}::hash_elements differs between base and quadratic typing of the same {n} residues"
            );
            obs.label("typing=quadratic");
        }
        if n % 3 == 0 && B::cubic_supported() {
            let q = C::<B>::slice_from_base_elements(&base);
            obs.comparisons += 1;
            ensure!(
                catch(|| H::hash_elements(q)).map_err(|p| Fail::new(format!("totality/{}", pkey(&p)), p.msg.clone()))? == d1,
                "typing/cubic",
                "{name}::hash_elements differs between base and cubic typing of the same {n} residues"
            );
            obs.label("typing=cubic");
        }
        // appending a zero element changes the digest
        let mut ext = base.clone();
        ext.push(B::ZERO);
        ensure!(H::hash_elements(&ext) != d1, "law/trailing-zero-element", "{name}: list and list||0 collide (n = {n})");
        Ok(())
    }
}

// MERGE / MERGE WITH INT
// ================================================================================================

#[derive(Serialize, Deserialize, Clone, Debug)]
pub struct MergeCase {
    pub a: [Src; 4],
    pub b: [Src; 4],
    pub ints: Vec<u64>,
}

pub struct Merge<B, H>(PhantomData<(B, H)>);

pub fn int_classes() -> Vec<u64> {
    let p62 = F62.p as u64;
    let p64 = F64.p as u64;
    vec![
        0,
        1,
        2,
        p62 - 1,
        p62,
        p62 + 1,
        2 * p62 - 1,
        2 * p62,
        2 * p62 + 1,
        3 * p62,
        4 * p62,
        4 * p62 + 1,
        p64 - 1,
        p64,
        p64 + 1,
        1 << 62,
        1 << 63,
        (1 << 63) - 1,
        (1 << 63) + 1,
        u64::MAX - 1,
        u64::MAX,
        1 << 32,
        (1 << 32) - 1,
    ]
}

fn words_strategy<B: FA>() -> BoxedStrategy<[Src; 4]> {
    prop_oneof![
        4 => [src_strategy::<B>(), src_strategy::<B>(), src_strategy::<B>(), src_strategy::<B>()],
        2 => [any::<u128>(), any::<u128>(), any::<u128>(), any::<u128>()].prop_map(|w| w.map(|v| Src::Res(X(v)))),
        1 => prop::sample::select(vec![0u128, u128::MAX, 1]).prop_map(|v| [Src::Res(X(v)), Src::Res(X(v)), Src::Res(X(v)), Src::Res(X(v))]),
    ]
    .boxed()
}

impl<B: FA, H: HA<B> + Sync> SubCheck for Merge<B, H> {
    type Case = MergeCase;
    fn name(&self) -> String {
        format!("merge/{}", H::hname())
    }
    fn cases(&self, tier: Tier) -> u64 {
        if H::refh().is_rescue() {
            tier.pick(8_000, 150_000)
        } else {
            tier.pick(100_000, 2_000_000)
        }
    }
    fn watchdog_secs(&self) -> u64 {
        20
    }
    fn rule(&self) -> String {
        "two digests (element digests from boundary residues / non-canonical internal values / uniform; byte digests uniform and all-0x00/0xff) and a list of integers consisting of every class {0,1,2, k*p62-1..k*p62+1, p64-1,p64,p64+1, 2^62, 2^63-1,2^63,2^63+1, 2^64-2, 2^64-1, 2^32-1, 2^32} plus uniform ones: merge = reference (hash of the concatenation / 8-element sponge / Jive), merge_with_int = reference, pairwise different results for different integers, merge(a,b) != merge(b,a) when a != b; every case non-trivial; distinct by case".into()
    }
    fn strategy(&self, _tier: Tier) -> BoxedStrategy<MergeCase> {
        (words_strategy::<B>(), words_strategy::<B>(), prop::collection::vec(any::<u64>(), 1..4))
            .prop_map(|(a, b, extra)| {
                let mut ints = int_classes();
                ints.extend(extra);
                MergeCase { a, b, ints }
            })
            .boxed()
    }
    fn check(&self, c: &MergeCase, obs: &mut Obs) -> CheckResult {
        let r = H::refh();
        let name = H::hname();
        obs.nontrivial();
        let a = digest_from_words::<B, H>(&c.a);
        let b = digest_from_words::<B, H>(&c.b);
        let (ra, rb) = (H::to_ref(&a), H::to_ref(&b));
        let m = catch(|| H::merge(&[a, b])).map_err(|p| Fail::new(format!("totality/{}", pkey(&p)), format!("{name}::merge panicked: {}", p.msg)))?;
        let spec = r.merge(&ra, &rb);
        obs.comparisons += 1;
        ensure!(H::to_ref(&m) == spec, "merge/spec", "{name}::merge({ra:?}, {rb:?}) = {:?}, the documented definition gives {spec:?}", H::to_ref(&m));
        ensure!(m == H::from_ref(&spec), "merge/eq", "{name}::merge: right value, unequal digest");
        ensure!(H::merge(&[a, b]) == m, "merge/determinism", "{name}::merge not deterministic");
        // same digests rebuilt canonically
        let (ca, cb) = (H::from_ref(&ra), H::from_ref(&rb));
        ensure!(H::merge(&[ca, cb]) == m, "merge/representation", "{name}::merge depends on the internal representation of the digest elements");
        if ra != rb {
            obs.label("a!=b");
            ensure!(H::merge(&[b, a]) != m, "merge/order", "{name}::merge(a,b) == merge(b,a)");
        } else {
            obs.label("a==b");
        }
        // integers
        let mut seen: std::collections::BTreeMap<Dg, u64> = std::collections::BTreeMap::new();
        let mut done = std::collections::BTreeSet::new();
        for &v in &c.ints {
            if !done.insert(v) {
                continue;
            }
            let d = catch(|| H::merge_with_int(a, v))
                .map_err(|p| Fail::new(format!("totality/{}", pkey(&p)), format!("{name}::merge_with_int(_, {v}) panicked: {}", p.msg)))?;
            let spec = r.merge_with_int(&ra, v);
            obs.comparisons += 1;
            ensure!(
                H::to_ref(&d) == spec,
                "merge_with_int/spec",
                "{name}::merge_with_int({ra:?}, {v}) = {:?}, the documented definition gives {spec:?}",
                H::to_ref(&d)
            );
            ensure!(d == H::from_ref(&spec), "merge_with_int/eq", "{name}::merge_with_int: right value, unequal digest");
            if let Some(w) = seen.insert(H::to_ref(&d), v) {
                return Err(Fail::new("merge_with_int/injective", format!("{name}::merge_with_int gives the same digest for {w} and {v}")));
            }
        }
        Ok(())
    }
}

// DRIVER
// ================================================================================================

fn enumerate_bytes<B: FA, H: HA<B> + Sync>(run: &mut Run) {
    let cases: Vec<LenCase> =
        all_lengths().into_iter().flat_map(|len| (0..NUM_PATTERNS).map(move |pat| LenCase { len, pat })).collect();
    run.enumerate(
        &format!("bytes-len/{}", H::hname()),
        "every length 0..=200 and every length within 8 of k*7*rate (rate 4 and 8, k <= 6), each with 6 contents (zeros, 0xff, counter, mixed, 0x01, 0xa5 with a zero last byte): totality, determinism, digest = reference definition, hash(x) != hash(x||0x00); non-trivial = more than one absorbed block",
        false,
        cases.into_iter(),
        |c: &LenCase, obs: &mut Obs| check_bytes::<B, H>(&pattern_bytes(c.len, c.pat), obs),
    );
}

fn enumerate_rounds<H: PermH + Sync>(run: &mut Run) {
    let w = H::rescue().width;
    let mut cases = vec![];
    for a in 0..LIMB_CLASSES.len() as u8 {
        for b in a..LIMB_CLASSES.len() as u8 {
            for mode in 0..3u8 {
                if a == b {
                    cases.push(LimbCase { a, b, mask: 0, mode });
                } else {
                    for mask in 0..(1u32 << w) {
                        cases.push(LimbCase { a, b, mask: mask as u16, mode });
                    }
                }
            }
        }
    }
    run.enumerate(
        &format!("round-limbs/{}", H::hname()),
        "every assignment of two limb classes out of {0, 2^32-1, 2^32, p-1, 0xfffffffeffffffff, fixed random} to the state positions (all 2^width masks for every unordered pair), taken as internal values entering the first linear layer (input solved through the 7th root), as internal values of the input, and as input residues: apply_round (and apply_permutation on every 64th mask) = textbook reference limb by limb; all cases non-trivial",
        true,
        cases.into_iter(),
        |c: &LimbCase, obs: &mut Obs| limb_check::<H>(c, obs),
    );
    let mut cases = vec![];
    for row in 0..w as u8 {
        for col in 0..w as u8 {
            for h in 0..6u8 {
                for d in 0..3u8 {
                    cases.push(WindowCase { row, col, h, d, round: (row + col + h) % 7 });
                }
            }
        }
    }
    run.enumerate(
        &format!("round-window/{}", H::hname()),
        "one non-zero limb per state: for every (row, col) of the MDS matrix, carry count h = 0..5 and offset d = 0..2 the limb is solved so that MDS[row][col]*limb lands where the lazy reduction of the frequency-domain product leaves a sum in [p, 2^64); apply_round = reference limb by limb incl. canonical internal values; non-trivial = window actually hit",
        true,
        cases.into_iter(),
        |c: &WindowCase, obs: &mut Obs| window_check::<H>(c, obs),
    );
}

// JIVE COMPRESSION: THE FINAL SUMMATION ON ITS OWN
// ================================================================================================

#[derive(Serialize, Deserialize, Clone, Debug)]
pub struct JiveCase {
    pub init: Vec<Src>,
    pub fin: Vec<Src>,
}

pub struct JiveSum;

impl SubCheck for JiveSum {
    type Case = JiveCase;
    fn name(&self) -> String {
        "jive-summation".into()
    }
    fn cases(&self, tier: Tier) -> u64 {
        tier.pick(100_000, 2_000_000)
    }
    fn watchdog_secs(&self) -> u64 {
        20
    }
    fn rule(&self) -> String {
        "RpJive64_256::apply_jive_summation(initial, final) on two 8-element states whose limbs are drawn like the permutation sub-check's (boundary residues, boundary internal values, C07's operand sources, uniform): every digest element = initial[i] + initial[4+i] + final[i] + final[4+i] over integers mod p, is canonical (equal under == to the element built from that residue, internal value below p) and the digest survives its own serialization; non-trivial = some internal values of one output add up to p or more without wrapping".into()
    }
    fn required_labels(&self, _t: Tier) -> Vec<String> {
        vec!["internal-sum>=p".into()]
    }
    fn strategy(&self, _tier: Tier) -> BoxedStrategy<JiveCase> {
        (prop::collection::vec(limb_strategy(), 8), prop::collection::vec(limb_strategy(), 8)).prop_map(|(init, fin)| JiveCase { init, fin }).boxed()
    }
    fn check(&self, c: &JiveCase, obs: &mut Obs) -> CheckResult {
        use winter_utils::{Deserializable, Serializable};
        ensure!(c.init.len() == 8 && c.fin.len() == 8, "harness/width", "state width");
        let a: Vec<B64> = c.init.iter().map(realise::<B64>).collect();
        let b: Vec<B64> = c.fin.iter().map(realise::<B64>).collect();
        let ia: [B64; 8] = a.clone().try_into().expect("8");
        let ib: [B64; 8] = b.clone().try_into().expect("8");
        let p = F64.p;
        let mut want = [0u128; 4];
        let mut heavy = false;
        for i in 0..4 {
            want[i] = (a[i].as_int() as u128 + a[4 + i].as_int() as u128 + b[i].as_int() as u128 + b[4 + i].as_int() as u128) % p;
            let raw: u128 = [a[i], a[4 + i], b[i], b[4 + i]].iter().map(|e| e.image()).sum();
            heavy |= raw >= p && raw < (1u128 << 64);
        }
        if heavy {
            obs.label("internal-sum>=p");
        }
        obs.nontrivial_if(heavy);
        let d = catch(|| RpJive64_256::apply_jive_summation(&ia, &ib)).map_err(|pn| Fail::new(format!("jive-summation/{}", pkey(&pn)), pn.msg.clone()))?;
        let got = <RpJive64_256 as HA<B64>>::to_ref(&d);
        ensure!(got == Dg::Elems(want), "jive-summation/value", "apply_jive_summation gives {got:?}, the sums over integers mod p are {want:?}");
        let canon = <RpJive64_256 as HA<B64>>::from_ref(&Dg::Elems(want));
        ensure!(d == canon && canon == d, "jive-summation/not-canonical", "the digest denotes the right residues {want:?} but is not equal (==) to the digest built from them");
        ensure!(d.as_elements().iter().all(|e| e.image() < p), "jive-summation/internal-value", "an element of the digest has an internal value that is not below p");
        let back = <RpJive64_256 as winter_crypto::Hasher>::Digest::read_from_bytes(&d.to_bytes()).map_err(|e| Fail::new("jive-summation/roundtrip-refused", format!("{e:?}")))?;
        ensure!(back == d, "jive-summation/roundtrip", "the digest is not equal to its own serialization round trip");
        Ok(())
    }
}

pub fn run(run: &mut Run) {
    run.assume("reference hashers: blake3 / sha3 crates over canonical little-endian bytes; textbook Rescue Prime over u128 integers with the published MDS/ARK tables copied as data (alpha*alpha^-1 = 1 mod p-1, MDS*INV_MDS = I and the published permutation vectors re-verified at start-up)");
    run.assume("RpJive64_256 sponge padding: the 1,0,..,0 padding of a partial last block is written over the rate positions (observed behaviour; the docs do not say whether it is added or written)");
    run.assume("hash of the empty byte string / empty element list for the Rescue sponges is the untouched initial state (no permutation), as the documented absorb loop implies");
    run.assume("hash collisions of the reference functions do not occur among generated inputs");
    for (what, r) in [
        ("field", vf_ref::field::selfcheck()),
        ("rescue", vf_ref::rescue::selfcheck()),
        ("hashes", vf_ref::hashes::selfcheck()),
    ] {
        if let Err(e) = r {
            run.inconclusive(format!("reference self-check failed ({what}): {e}"));
            return;
        }
    }

    let mut cases = vec![];
    for h in ["Rp64_256", "RpJive64_256"] {
        for t in ["MDS", "INV_MDS", "ARK1", "ARK2", "layout", "vector"] {
            cases.push(ConstCase { hasher: h.into(), table: t.into() });
        }
    }
    run.enumerate(
        "constants",
        "every public table of the two Rescue instances that publish them (MDS, INV_MDS, ARK1, ARK2, layout constants) against the published values, and the published permutation vector through the public apply_permutation; all cases non-trivial",
        true,
        cases.into_iter(),
        const_check,
    );

    enumerate_rounds::<Rp64_256>(run);
    enumerate_rounds::<RpJive64_256>(run);
    run.sub(&Perm::<Rp64_256>(PhantomData));
    run.sub(&Perm::<RpJive64_256>(PhantomData));

    enumerate_bytes::<B64, Blake3_256<B64>>(run);
    enumerate_bytes::<B62, Blake3_192<B62>>(run);
    enumerate_bytes::<B128, Sha3_256<B128>>(run);
    enumerate_bytes::<B64, Rp64_256>(run);
    enumerate_bytes::<B62, Rp62_248>(run);
    enumerate_bytes::<B64, RpJive64_256>(run);

    // F6 class (inputs longer than one rate block of 7-byte chunks) is excluded from the random
    // sub-check of a hasher once it is a recorded finding for that hasher (the enumeration above
    // still visits every length)
    // (55 rather than 56 so that the x || 0x00 companion input stays inside the first block as well)
    let long_known = |run: &Run, h: &str| run.is_known(&format!("bytes-len/{h}/spec/matches-unpadded"));
    let m64 = if long_known(run, "Rp64_256") { 55 } else { 400 };
    let m62 = if long_known(run, "Rp62_248") { 55 } else { 400 };
    run.sub(&Bytes::<B64, Blake3_256<B64>> { max_len: 400, _p: PhantomData });
    run.sub(&Bytes::<B62, Blake3_192<B62>> { max_len: 400, _p: PhantomData });
    run.sub(&Bytes::<B128, Sha3_256<B128>> { max_len: 400, _p: PhantomData });
    run.sub(&Bytes::<B64, Rp64_256> { max_len: m64, _p: PhantomData });
    run.sub(&Bytes::<B62, Rp62_248> { max_len: m62, _p: PhantomData });
    run.sub(&Bytes::<B64, RpJive64_256> { max_len: 400, _p: PhantomData });

    run.sub(&Elems::<B62, Blake3_256<B62>>(PhantomData));
    run.sub(&Elems::<B64, Blake3_256<B64>>(PhantomData));
    run.sub(&Elems::<B128, Blake3_256<B128>>(PhantomData));
    run.sub(&Elems::<B62, Blake3_192<B62>>(PhantomData));
    run.sub(&Elems::<B64, Blake3_192<B64>>(PhantomData));
    run.sub(&Elems::<B128, Blake3_192<B128>>(PhantomData));
    run.sub(&Elems::<B62, Sha3_256<B62>>(PhantomData));
    run.sub(&Elems::<B64, Sha3_256<B64>>(PhantomData));
    run.sub(&Elems::<B128, Sha3_256<B128>>(PhantomData));
    run.sub(&Elems::<B64, Rp64_256>(PhantomData));
    run.sub(&Elems::<B62, Rp62_248>(PhantomData));
    run.sub(&Elems::<B64, RpJive64_256>(PhantomData));

    run.sub(&Merge::<B64, Blake3_256<B64>>(PhantomData));
    run.sub(&Merge::<B62, Blake3_192<B62>>(PhantomData));
    run.sub(&Merge::<B128, Sha3_256<B128>>(PhantomData));
    run.sub(&Merge::<B64, Rp64_256>(PhantomData));
    run.sub(&Merge::<B62, Rp62_248>(PhantomData));
    run.sub(&Merge::<B64, RpJive64_256>(PhantomData));
    run.sub(&JiveSum);
}
