//! Panic capture: a process-wide hook that records (message, file, line) instead of printing, and
//! `catch`, which runs a closure under `catch_unwind` and returns the recorded signature.
//!
//! Signatures used for known-finding matching never contain line numbers or concrete numbers, so
//! unrelated edits of /repo do not turn a known finding into a "new" one.

use std::cell::{Cell, RefCell};
use std::panic::{self, AssertUnwindSafe};
use std::sync::atomic::{AtomicBool, Ordering};
use std::sync::{Mutex, Once};

#[derive(Clone, Debug, PartialEq, Eq)]
pub struct PanicSig {
    pub msg: String,
    pub file: String,
    pub line: u32,
}

impl PanicSig {
    /// Stable key: repo-relative file + message with every digit run replaced by `#`, cut to 96 chars.
    pub fn key(&self) -> String {
        let file = self.file.strip_prefix("/repo/").unwrap_or(&self.file).to_string();
        format!("panic@{}:{}", file, normalise(&self.msg))
    }
    pub fn in_repo(&self) -> bool {
        self.file.starts_with("/repo/") || !self.file.starts_with('/') && !self.file.contains("vf-")
    }
}

pub fn normalise(msg: &str) -> String {
    let mut out = String::new();
    let mut in_digits = false;
    for c in msg.chars() {
        if c.is_ascii_digit() {
            if !in_digits {
                out.push('#');
                in_digits = true;
            }
        } else {
            in_digits = false;
            out.push(if c == '\n' { ' ' } else { c });
        }
        if out.len() >= 96 {
            break;
        }
    }
    out
}

thread_local! {
    static DEPTH: Cell<u32> = const { Cell::new(0) };
    static LAST: RefCell<Option<PanicSig>> = const { RefCell::new(None) };
}
static FOREIGN: Mutex<Option<PanicSig>> = Mutex::new(None);
static QUIET: AtomicBool = AtomicBool::new(false);
static INIT: Once = Once::new();

pub fn set_quiet(q: bool) {
    QUIET.store(q, Ordering::SeqCst);
}

pub fn install_hook() {
    INIT.call_once(|| {
        panic::set_hook(Box::new(|info| {
            let msg = if let Some(s) = info.payload().downcast_ref::<&str>() {
                s.to_string()
            } else if let Some(s) = info.payload().downcast_ref::<String>() {
                s.clone()
            } else {
                "<non-string panic payload>".to_string()
            };
            let (file, line) = info
                .location()
                .map(|l| (l.file().to_string(), l.line()))
                .unwrap_or_else(|| ("<unknown>".into(), 0));
            let sig = PanicSig { msg, file, line };
            let capturing = DEPTH.with(|d| d.get()) > 0;
            if capturing {
                LAST.with(|l| *l.borrow_mut() = Some(sig));
            } else {
                // a worker thread (rayon) or an uncaught harness panic
                if !QUIET.load(Ordering::SeqCst) {
                    eprintln!("panic (uncaptured thread): {} at {}:{}", sig.msg, sig.file, sig.line);
                }
                if let Ok(mut f) = FOREIGN.lock() {
                    *f = Some(sig);
                }
            }
        }));
    });
}

/// Runs `f`, returning `Err(signature)` if it panicked.
pub fn catch<T>(f: impl FnOnce() -> T) -> Result<T, PanicSig> {
    install_hook();
    DEPTH.with(|d| d.set(d.get() + 1));
    LAST.with(|l| *l.borrow_mut() = None);
    let r = panic::catch_unwind(AssertUnwindSafe(f));
    DEPTH.with(|d| d.set(d.get() - 1));
    match r {
        Ok(v) => Ok(v),
        Err(payload) => {
            let mut sig = LAST.with(|l| l.borrow_mut().take());
            if sig.is_none() {
                sig = FOREIGN.lock().ok().and_then(|mut f| f.take());
            }
            let sig = sig.unwrap_or_else(|| {
                let msg = if let Some(s) = payload.downcast_ref::<&str>() {
                    s.to_string()
                } else if let Some(s) = payload.downcast_ref::<String>() {
                    s.clone()
                } else {
                    "<unknown panic>".to_string()
                };
                PanicSig { msg, file: "<unknown>".into(), line: 0 }
            });
            Err(sig)
        },
    }
}
