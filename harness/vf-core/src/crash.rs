//! Last-resort containment for failures that cannot be caught by `catch_unwind`: absurd allocation
//! requests (would abort the process), fatal signals (SIGSEGV / SIGABRT / SIGBUS / SIGILL) and stack
//! overflows. The engine records the case being executed in a thread-local before running it; the
//! emergency path writes it out as a replay file, prints the VIOLATION line and exits with status 1.
//! There is no shrinking and no continuation on this path — it exists so that such a failure is
//! reported with its input instead of killing the check silently.

use std::alloc::{GlobalAlloc, Layout, System};
use std::cell::{Cell, RefCell};
use std::sync::atomic::{AtomicBool, AtomicUsize, Ordering};

thread_local! {
    static CURRENT: RefCell<Option<(String, String, String)>> = const { RefCell::new(None) };
    static GUARD: Cell<bool> = const { Cell::new(false) };
    static MAX_REQ: Cell<usize> = const { Cell::new(0) };
    static IN_EMERGENCY: Cell<bool> = const { Cell::new(false) };
}

static INSTALLED: AtomicBool = AtomicBool::new(false);
/// requests above this size are refused outright while the guard is active (emergency exit)
static HARD_LIMIT: AtomicUsize = AtomicUsize::new(2 << 30);

pub fn set_current(property: &str, sub: &str, case_json: &str) {
    CURRENT.with(|c| *c.borrow_mut() = Some((property.to_string(), sub.to_string(), case_json.to_string())));
}
pub fn clear_current() {
    CURRENT.with(|c| *c.borrow_mut() = None);
}

/// starts measuring allocation requests of the current thread; returns nothing, see `guard_end`
pub fn guard_begin() {
    MAX_REQ.with(|m| m.set(0));
    GUARD.with(|g| g.set(true));
}
/// stops measuring and returns the largest single allocation request seen since `guard_begin`
pub fn guard_end() -> usize {
    GUARD.with(|g| g.set(false));
    MAX_REQ.with(|m| m.get())
}

pub fn emergency(reason: &str) -> ! {
    if IN_EMERGENCY.with(|e| e.replace(true)) {
        unsafe { libc::_exit(1) };
    }
    GUARD.with(|g| g.set(false));
    let cur = CURRENT.with(|c| c.try_borrow().ok().and_then(|c| c.clone()));
    let root = std::env::var("VERIF_ROOT").unwrap_or_else(|_| "/verif".into());
    match cur {
        Some((prop, sub, json)) => {
            let case: serde_json::Value = serde_json::from_str(&json).unwrap_or(serde_json::Value::Null);
            let rf = crate::ReplayFile { property: prop.clone(), subcheck: sub.clone(), key: reason.to_string(), msg: format!("process-fatal failure while executing this case: {reason}"), case };
            let txt = serde_json::to_string_pretty(&rf).unwrap_or_default();
            let dir = format!("{root}/work/replay");
            let _ = std::fs::create_dir_all(&dir);
            let path = format!("{dir}/{}-{}-fatal-{:016x}.case", prop, sub.replace('/', "_"), crate::hash_str(&txt));
            let _ = std::fs::write(&path, &txt);
            println!("FAILURE property={prop} subcheck={sub} key={reason} :: process-fatal failure (not catchable by unwinding)");
            println!("VIOLATION property={prop} replay={path}");
        },
        None => {
            println!("INCONCLUSIVE: process-fatal failure ({reason}) outside any case");
            if std::env::var("VF_DEBUG").is_ok() {
                eprintln!("thread {:?}\n{}", std::thread::current().name(), std::backtrace::Backtrace::force_capture());
            }
            unsafe { libc::_exit(2) };
        },
    }
    use std::io::Write;
    let _ = std::io::stdout().flush();
    unsafe { libc::_exit(1) };
}

/// Allocator wrapper: measures the largest request while the guard is active on the calling thread
/// and turns requests above the hard limit into an emergency report instead of an abort.
pub struct GuardAlloc;

unsafe impl GlobalAlloc for GuardAlloc {
    unsafe fn alloc(&self, layout: Layout) -> *mut u8 {
        self.note(layout.size());
        System.alloc(layout)
    }
    unsafe fn dealloc(&self, ptr: *mut u8, layout: Layout) {
        System.dealloc(ptr, layout)
    }
    unsafe fn alloc_zeroed(&self, layout: Layout) -> *mut u8 {
        self.note(layout.size());
        System.alloc_zeroed(layout)
    }
    unsafe fn realloc(&self, ptr: *mut u8, layout: Layout, new_size: usize) -> *mut u8 {
        self.note(new_size);
        System.realloc(ptr, layout, new_size)
    }
}

impl GuardAlloc {
    #[inline]
    fn note(&self, size: usize) {
        if size < (1 << 20) {
            return;
        }
        let active = GUARD.try_with(|g| g.get()).unwrap_or(false);
        if !active {
            return;
        }
        let _ = MAX_REQ.try_with(|m| {
            if size > m.get() {
                m.set(size)
            }
        });
        if size > HARD_LIMIT.load(Ordering::Relaxed) {
            emergency("allocation-request-above-2GiB");
        }
    }
}

extern "C" fn on_signal(sig: libc::c_int) {
    let name = match sig {
        libc::SIGSEGV => "signal-SIGSEGV",
        libc::SIGABRT => "signal-SIGABRT",
        libc::SIGBUS => "signal-SIGBUS",
        libc::SIGILL => "signal-SIGILL",
        _ => "signal",
    };
    emergency(name);
}

/// installs the fatal-signal handlers (with an alternate stack so that stack overflows are reported too)
pub fn install_signal_handlers() {
    if INSTALLED.swap(true, Ordering::SeqCst) {
        return;
    }
    unsafe {
        for sig in [libc::SIGSEGV, libc::SIGABRT, libc::SIGBUS, libc::SIGILL] {
            let mut sa: libc::sigaction = std::mem::zeroed();
            sa.sa_sigaction = on_signal as usize;
            sa.sa_flags = libc::SA_ONSTACK | libc::SA_NODEFER;
            libc::sigemptyset(&mut sa.sa_mask);
            libc::sigaction(sig, &sa, std::ptr::null_mut());
        }
    }
}

/// gives the calling thread an alternate signal stack (needed to report stack overflows)
pub fn install_altstack() {
    unsafe {
        let size = 1 << 16;
        let mem = libc::mmap(std::ptr::null_mut(), size, libc::PROT_READ | libc::PROT_WRITE, libc::MAP_PRIVATE | libc::MAP_ANONYMOUS, -1, 0);
        if mem == libc::MAP_FAILED {
            return;
        }
        let ss = libc::stack_t { ss_sp: mem, ss_flags: 0, ss_size: size };
        libc::sigaltstack(&ss, std::ptr::null_mut());
    }
}
