//! vf-core: the engine shared by every check.
//!
//! * all randomness comes from proptest strategies driven by a `TestRunner` whose RNG is a pure
//!   function of (VERIF_SEED, property, sub-check, shard) -- no wall clock, no own RNG;
//! * every sub-check declares a `Case` type (serde), a strategy, a check function and a
//!   non-triviality rule; the engine counts evaluations, labels, distinct non-trivial cases, keeps
//!   samples, shrinks failures with proptest's value trees (same failure key required while
//!   shrinking), writes a replay file and prints the VIOLATION line;
//! * failures whose key matches an `open` entry of /verif/known_findings.json are printed as
//!   KNOWN-FINDING and the search continues;
//! * `--replay <file>` re-executes a saved case without proptest.

pub mod crash;
pub mod panics;
pub use panics::{catch, PanicSig};

use proptest::strategy::{BoxedStrategy, Strategy, ValueTree};
use proptest::test_runner::{Config, RngAlgorithm, TestRng, TestRunner};
use serde::de::DeserializeOwned;
use serde::{Deserialize, Serialize};
use std::collections::{BTreeMap, BTreeSet, HashSet};
use std::fmt::Debug;
use std::hash::{Hash, Hasher};
use std::path::PathBuf;
use std::sync::atomic::{AtomicBool, AtomicU64, Ordering};
use std::sync::{Arc, Mutex};
use std::time::{Duration, Instant};

pub const SHARDS: usize = 16;

#[derive(Clone, Copy, Debug, PartialEq, Eq)]
pub enum Tier {
    Quick,
    Thorough,
}
impl Tier {
    pub fn name(&self) -> &'static str {
        match self {
            Tier::Quick => "quick",
            Tier::Thorough => "thorough",
        }
    }
    /// picks the first value for quick, the second for thorough
    pub fn pick<T>(&self, q: T, t: T) -> T {
        match self {
            Tier::Quick => q,
            Tier::Thorough => t,
        }
    }
}

/// A failed case: `key` is the stable signature (used for shrinking and known-finding matching),
/// `msg` a human readable explanation.
#[derive(Clone, Debug)]
pub struct Fail {
    pub key: String,
    pub msg: String,
}
impl Fail {
    pub fn new(key: impl Into<String>, msg: impl Into<String>) -> Self {
        Fail { key: key.into(), msg: msg.into() }
    }
}
pub type CheckResult = Result<(), Fail>;

#[macro_export]
macro_rules! ensure {
    ($cond:expr, $key:expr, $($arg:tt)*) => {
        if !($cond) {
            return Err($crate::Fail::new($key, format!($($arg)*)));
        }
    };
}

/// Per-case observations made by the check.
#[derive(Default)]
pub struct Obs {
    labels: Vec<String>,
    nontrivial: bool,
    key: Option<u64>,
    /// number of oracle comparisons made in this case (optional statistic)
    pub comparisons: u64,
}
impl Obs {
    pub fn label(&mut self, l: impl Into<String>) {
        self.labels.push(l.into());
    }
    /// marks the case as non-trivial by the sub-check's stated rule
    pub fn nontrivial(&mut self) {
        self.nontrivial = true;
    }
    pub fn nontrivial_if(&mut self, c: bool) {
        if c {
            self.nontrivial = true;
        }
    }
    /// overrides the key used to decide distinctness (default: hash of the serialized case)
    pub fn distinct_key(&mut self, k: u64) {
        self.key = Some(k);
    }
}

pub trait SubCheck: Sync {
    type Case: Serialize + DeserializeOwned + Debug + Clone + Send;
    fn name(&self) -> String;
    /// number of generated cases for this tier (work-bounded)
    fn cases(&self, tier: Tier) -> u64;
    fn strategy(&self, tier: Tier) -> BoxedStrategy<Self::Case>;
    fn check(&self, case: &Self::Case, obs: &mut Obs) -> CheckResult;
    /// how cases are generated and what makes one non-trivial
    fn rule(&self) -> String;
    /// per-case stall limit in seconds after which the watchdog re-runs the case in isolation
    fn watchdog_secs(&self) -> u64 {
        60
    }
    /// record the running case for the process-fatal containment path (signals, absurd allocations)
    fn crash_guard(&self) -> bool {
        false
    }
    /// number of not-yet-known failures after which the whole sub-check stops generating cases
    fn max_failures(&self) -> usize {
        3
    }
    /// maximum number of shrink steps after a failure (expensive cases want fewer)
    fn shrink_iters(&self) -> usize {
        400
    }
    /// number of parallel shards actually run concurrently (the shard count is always SHARDS)
    fn parallelism(&self) -> usize {
        SHARDS
    }
    /// labels that the generator must reach at least once (harness self-check, exit 2 otherwise)
    fn required_labels(&self, _tier: Tier) -> Vec<String> {
        vec![]
    }
}

#[derive(Serialize, Deserialize, Clone, Debug)]
pub struct KnownEntry {
    pub property: String,
    pub key: String,
    pub what: String,
    pub status: String,
}
#[derive(Serialize, Deserialize, Clone, Debug, Default)]
pub struct KnownFile {
    #[serde(default)]
    pub findings: Vec<KnownEntry>,
    #[serde(default)]
    pub fixed: Vec<String>,
}

#[derive(Serialize, Deserialize, Clone, Debug)]
pub struct ReplayFile {
    pub property: String,
    pub subcheck: String,
    pub key: String,
    pub msg: String,
    pub case: serde_json::Value,
}

#[derive(Default, Clone)]
struct SubStats {
    name: String,
    rule: String,
    evaluations: u64,
    nontrivial: u64,
    distinct: HashSet<u64>,
    labels: BTreeMap<String, u64>,
    samples: Vec<serde_json::Value>,
    sample_labels: BTreeSet<String>,
    comparisons: u64,
    exhaustive: Option<bool>,
    known_hits: u64,
}

pub struct Run {
    pub property: String,
    pub tier: Tier,
    pub seed: u64,
    pub level: String,
    pub root: PathBuf,
    replay: Option<ReplayFile>,
    replay_matched: bool,
    known: Vec<KnownEntry>,
    known_printed: BTreeSet<String>,
    subs: Vec<SubStats>,
    violations: u64,
    inconclusive: Vec<String>,
    assumptions: Vec<String>,
    extra: BTreeMap<String, serde_json::Value>,
    start: Instant,
    only: Option<String>,
    /// record every enumerated case for the process-fatal containment path (see `crash`)
    pub crash_guard: bool,
}

/// known-finding key matching: `pattern` is "<subcheck>/<failure key>"; a leading "*/" matches any
/// sub-check, a trailing '*' is a prefix glob
pub fn key_matches(pattern: &str, full_key: &str) -> bool {
    let (pat, key): (&str, &str) = match pattern.strip_prefix("*/") {
        Some(rest) => (rest, full_key.split_once('/').map(|x| x.1).unwrap_or(full_key)),
        None => (pattern, full_key),
    };
    // sub-check names may themselves contain '/', so for "*/" patterns try every split point
    if pattern.starts_with("*/") {
        let mut k = full_key;
        loop {
            let m = match pat.strip_suffix('*') {
                Some(p) => k.starts_with(p),
                None => k == pat,
            };
            if m {
                return true;
            }
            match k.split_once('/') {
                Some((_, rest)) => k = rest,
                None => return false,
            }
        }
    }
    match pat.strip_suffix('*') {
        Some(p) => key.starts_with(p),
        None => key == pat,
    }
}

fn mix(mut h: u64) -> u64 {
    h ^= h >> 30;
    h = h.wrapping_mul(0xbf58476d1ce4e5b9);
    h ^= h >> 27;
    h = h.wrapping_mul(0x94d049bb133111eb);
    h ^ (h >> 31)
}

pub fn hash_str(s: &str) -> u64 {
    let mut h = std::collections::hash_map::DefaultHasher::new();
    s.hash(&mut h);
    h.finish()
}

pub fn hash_of<T: Hash>(v: &T) -> u64 {
    let mut h = std::collections::hash_map::DefaultHasher::new();
    v.hash(&mut h);
    h.finish()
}

fn shard_rng(seed: u64, property: &str, sub: &str, shard: usize) -> TestRng {
    let mut bytes = [0u8; 32];
    let base = mix(seed ^ 0x9e3779b97f4a7c15) ^ hash_str(property) ^ hash_str(sub).rotate_left(17);
    for i in 0..4 {
        let v = mix(base.wrapping_add((shard as u64) << 8).wrapping_add(i as u64 + 1));
        bytes[i * 8..i * 8 + 8].copy_from_slice(&v.to_le_bytes());
    }
    TestRng::from_seed(RngAlgorithm::ChaCha, &bytes)
}

fn truncate_json(v: serde_json::Value) -> serde_json::Value {
    let s = v.to_string();
    if s.len() <= 600 {
        v
    } else {
        let mut cut = 600;
        while !s.is_char_boundary(cut) {
            cut -= 1;
        }
        serde_json::Value::String(format!("{}…(+{} bytes)", &s[..cut], s.len() - cut))
    }
}

pub struct Args {
    pub property: String,
    pub tier: Tier,
    pub replay: Option<PathBuf>,
}

/// Parses `<Cxx> <quick|thorough>` or `--replay <file>` (property taken from the file).
pub fn parse_args() -> Args {
    let a: Vec<String> = std::env::args().skip(1).collect();
    if a.len() >= 2 && a[0] == "--replay" {
        let p = PathBuf::from(&a[1]);
        let txt = std::fs::read_to_string(&p).unwrap_or_else(|e| {
            eprintln!("cannot read replay file {}: {e}", p.display());
            std::process::exit(2)
        });
        let rf: ReplayFile = serde_json::from_str(&txt).unwrap_or_else(|e| {
            eprintln!("cannot parse replay file: {e}");
            std::process::exit(2)
        });
        return Args { property: rf.property, tier: Tier::Quick, replay: Some(p) };
    }
    if a.len() < 2 {
        eprintln!("usage: <bin> <Cxx> <quick|thorough> | --replay <file>");
        std::process::exit(2);
    }
    let tier = match a[1].as_str() {
        "quick" => Tier::Quick,
        "thorough" => Tier::Thorough,
        other => {
            eprintln!("unknown tier {other}");
            std::process::exit(2)
        },
    };
    Args { property: a[0].clone(), tier, replay: None }
}

impl Run {
    pub fn new(args: &Args, level: &str) -> Run {
        panics::install_hook();
        let root = PathBuf::from(std::env::var("VERIF_ROOT").unwrap_or_else(|_| "/verif".into()));
        let seed = std::env::var("VERIF_SEED").ok().and_then(|s| s.trim().parse::<u64>().ok()).unwrap_or(0);
        let known: KnownFile = std::fs::read_to_string(root.join("known_findings.json"))
            .ok()
            .and_then(|t| serde_json::from_str(&t).ok())
            .unwrap_or_default();
        let mut known = known;
        // extra known-finding entries used while a check is being developed (never by registered commands)
        if let Ok(extra) = std::env::var("VERIF_KNOWN_EXTRA") {
            if let Some(k) = std::fs::read_to_string(&extra).ok().and_then(|t| serde_json::from_str::<KnownFile>(&t).ok()) {
                known.findings.extend(k.findings);
            }
        }
        let replay = args.replay.as_ref().map(|p| {
            serde_json::from_str::<ReplayFile>(&std::fs::read_to_string(p).unwrap()).unwrap()
        });
        Run {
            property: args.property.clone(),
            tier: args.tier,
            seed,
            level: level.to_string(),
            root,
            replay,
            replay_matched: false,
            known: known
                .findings
                .into_iter()
                .filter(|k| k.property == args.property && k.status == "open")
                .collect(),
            known_printed: BTreeSet::new(),
            subs: vec![],
            violations: 0,
            inconclusive: vec![],
            assumptions: vec![],
            extra: BTreeMap::new(),
            start: Instant::now(),
            only: std::env::var("VERIF_ONLY").ok().filter(|s| !s.is_empty()),
            crash_guard: false,
        }
    }

    pub fn is_replay(&self) -> bool {
        self.replay.is_some()
    }

    pub fn assume(&mut self, s: &str) {
        if !self.assumptions.iter().any(|a| a == s) {
            self.assumptions.push(s.to_string());
        }
    }

    pub fn note(&mut self, key: &str, v: serde_json::Value) {
        self.extra.insert(key.to_string(), v);
    }

    pub fn inconclusive(&mut self, why: String) {
        eprintln!("INCONCLUSIVE: {why}");
        self.inconclusive.push(why);
    }

    fn known_match(&self, key: &str) -> Option<&KnownEntry> {
        self.known.iter().find(|k| key_matches(&k.key, key))
    }

    /// is `key` listed as an open known finding for this property? (used by generators that
    /// exclude a known class by construction)
    pub fn is_known(&self, key: &str) -> bool {
        self.known_match(key).is_some()
    }

    fn report_failure(
        &mut self,
        sub: &str,
        case_json: serde_json::Value,
        fail: &Fail,
        stats: &mut SubStats,
    ) -> bool {
        let full_key = format!("{}/{}", sub, fail.key);
        if let Some(k) = self.known_match(&full_key).cloned() {
            stats.known_hits += 1;
            if self.known_printed.insert(k.key.clone()) {
                println!("KNOWN-FINDING: property={} {} [{}]", self.property, k.what, k.key);
            }
            return false;
        }
        self.violations += 1;
        let rf = ReplayFile {
            property: self.property.clone(),
            subcheck: sub.to_string(),
            key: fail.key.clone(),
            msg: fail.msg.clone(),
            case: case_json,
        };
        let dir = self.root.join("work/replay");
        let _ = std::fs::create_dir_all(&dir);
        let txt = serde_json::to_string_pretty(&rf).unwrap();
        let path = dir.join(format!("{}-{}-{:016x}.case", self.property, sub.replace('/', "_"), hash_str(&txt)));
        let _ = std::fs::write(&path, &txt);
        println!("FAILURE property={} subcheck={} key={} :: {}", self.property, sub, fail.key, fail.msg);
        println!("VIOLATION property={} replay={}", self.property, path.display());
        true
    }

    fn want(&self, name: &str) -> bool {
        match &self.only {
            Some(o) => o.split(',').any(|p| name.starts_with(p)),
            None => true,
        }
    }

    /// Runs one generated sub-check (or replays a saved case for it).
    pub fn sub<S: SubCheck>(&mut self, s: &S) {
        let name = s.name();
        if let Some(rf) = self.replay.clone() {
            if rf.subcheck != name {
                return;
            }
            self.replay_matched = true;
            let case: S::Case = match serde_json::from_value(rf.case.clone()) {
                Ok(c) => c,
                Err(e) => {
                    self.inconclusive(format!("replay case does not deserialize: {e}"));
                    return;
                },
            };
            let mut stats = SubStats { name: name.clone(), rule: s.rule(), ..Default::default() };
            let mut obs = Obs::default();
            let r = run_case(s, &case, &mut obs);
            stats.evaluations = 1;
            match r {
                Ok(()) => println!("replay: case passes ({name})"),
                Err(f) => {
                    self.report_failure(&name, rf.case, &f, &mut stats);
                },
            }
            self.subs.push(stats);
            return;
        }
        if !self.want(&name) {
            return;
        }
        let t0 = Instant::now();
        let mut stats = SubStats { name: name.clone(), rule: s.rule(), ..Default::default() };

        // replay tier: committed regression cases first
        let regress_dir = self.root.join("regress").join(&self.property);
        if let Ok(rd) = std::fs::read_dir(&regress_dir) {
            let mut files: Vec<_> = rd.filter_map(|e| e.ok()).map(|e| e.path()).collect();
            files.sort();
            for f in files {
                let Ok(txt) = std::fs::read_to_string(&f) else { continue };
                let Ok(rf) = serde_json::from_str::<ReplayFile>(&txt) else { continue };
                if rf.subcheck != name {
                    continue;
                }
                let Ok(case) = serde_json::from_value::<S::Case>(rf.case.clone()) else {
                    // a case written for an earlier shape of this sub-check: say so, do not let it break the run
                    eprintln!("[{}] note: regress case {} no longer deserializes and was skipped", self.property, f.display());
                    *stats.labels.entry("regress-skipped:undeserializable".into()).or_default() += 1;
                    continue;
                };
                if s.crash_guard() {
                    crash::set_current(&self.property, &name, &serde_json::to_string(&case).unwrap_or_default());
                }
                let mut obs = Obs::default();
                stats.evaluations += 1;
                *stats.labels.entry("source=regress".into()).or_default() += 1;
                if let Err(fail) = run_case(s, &case, &mut obs) {
                    self.report_failure(&name, rf.case, &fail, &mut stats);
                }
            }
        }

        let total = s.cases(self.tier);
        let per_shard = total.div_ceil(SHARDS as u64);
        let stop = Arc::new(AtomicBool::new(false));
        let results: Mutex<Vec<ShardResult<S::Case>>> = Mutex::new(vec![]);
        let next_shard = AtomicU64::new(0);
        let progress: Vec<Arc<ShardProgress>> = (0..SHARDS).map(|_| Arc::new(ShardProgress::default())).collect();
        let known_keys: Vec<String> = self.known.iter().map(|k| k.key.clone()).collect();
        let wd_secs = s.watchdog_secs();
        let par = s.parallelism().clamp(1, SHARDS);
        let done = AtomicBool::new(false);
        let hang: Mutex<Option<String>> = Mutex::new(None);
        let (tier, seed, property) = (self.tier, self.seed, self.property.clone());

        std::thread::scope(|scope| {
            for _ in 0..par {
                scope.spawn(|| loop {
                    let shard = next_shard.fetch_add(1, Ordering::SeqCst) as usize;
                    if shard >= SHARDS {
                        break;
                    }
                    let r = run_shard(
                        s,
                        tier,
                        seed,
                        &property,
                        &name,
                        shard,
                        per_shard,
                        &stop,
                        &progress[shard],
                        &known_keys,
                    );
                    results.lock().unwrap().push(r);
                });
            }
            // watchdog
            scope.spawn(|| {
                while !done.load(Ordering::SeqCst) {
                    std::thread::sleep(Duration::from_millis(200));
                    for p in progress.iter() {
                        let Some((wall, cpu)) = p.elapsed() else { continue };
                        if stalled(wall, cpu, wd_secs) {
                            let case = p.current.lock().unwrap().clone();
                            if let Some(c) = case {
                                *hang.lock().unwrap() = Some(c);
                                stop.store(true, Ordering::SeqCst);
                                done.store(true, Ordering::SeqCst);
                                return;
                            }
                        }
                    }
                    if next_shard.load(Ordering::SeqCst) >= (SHARDS + par) as u64
                        && progress.iter().all(|p| p.started_ms.load(Ordering::SeqCst) == 0)
                    {
                        // all workers have drained the queue and are idle
                    }
                }
            });
            // wait for workers: poll results
            loop {
                std::thread::sleep(Duration::from_millis(20));
                if results.lock().unwrap().len() >= SHARDS {
                    break;
                }
                if hang.lock().unwrap().is_some() {
                    break;
                }
            }
            done.store(true, Ordering::SeqCst);
            if let Some(case_json) = hang.lock().unwrap().clone() {
                // stalled case: re-run it in an isolated child with a longer limit
                self.handle_hang(&name, &case_json, wd_secs);
                // handle_hang exits the process
            }
        });

        let mut results = results.into_inner().unwrap();
        results.sort_by_key(|r| r.shard);
        let mut reported_keys: BTreeSet<String> = BTreeSet::new();
        for r in results {
            stats.evaluations += r.evaluations;
            stats.nontrivial += r.nontrivial;
            stats.comparisons += r.comparisons;
            stats.distinct.extend(r.distinct);
            for (l, c) in r.labels {
                *stats.labels.entry(l).or_default() += c;
            }
            for (l, v) in r.samples {
                if stats.samples.len() < 12 && stats.sample_labels.insert(l) {
                    stats.samples.push(truncate_json(v));
                }
            }
            if let Some(e) = r.gen_error {
                self.inconclusive(format!("{name}: generator error: {e}"));
            }
            for (case, fail) in r.failures {
                // one report per failure key and sub-check (the first shard that found it)
                if !reported_keys.insert(fail.key.clone()) || reported_keys.len() > 6 {
                    continue;
                }
                let cj = serde_json::to_value(&case).unwrap_or(serde_json::Value::Null);
                self.report_failure(&name, cj, &fail, &mut stats);
            }
        }
        for l in s.required_labels(self.tier) {
            if stats.labels.get(&l).copied().unwrap_or(0) == 0 && self.violations == 0 {
                self.inconclusive(format!("{name}: required label '{l}' never generated"));
            }
        }
        eprintln!(
            "[{}] {}: {} cases, {} non-trivial ({} distinct), {} known-finding hits, {:.1}s",
            self.property,
            name,
            stats.evaluations,
            stats.nontrivial,
            stats.distinct.len(),
            stats.known_hits,
            t0.elapsed().as_secs_f64()
        );
        self.subs.push(stats);
    }

    fn handle_hang(&mut self, sub: &str, case_json: &str, wd_secs: u64) -> ! {
        let rf = ReplayFile {
            property: self.property.clone(),
            subcheck: sub.to_string(),
            key: "hang".into(),
            msg: format!("case did not finish within {wd_secs}s"),
            case: serde_json::from_str(case_json).unwrap_or(serde_json::Value::Null),
        };
        let dir = self.root.join("work/replay");
        let _ = std::fs::create_dir_all(&dir);
        let txt = serde_json::to_string_pretty(&rf).unwrap();
        let path = dir.join(format!("{}-{}-hang-{:016x}.case", self.property, sub.replace('/', "_"), hash_str(&txt)));
        let _ = std::fs::write(&path, &txt);
        let full_key = format!("{sub}/hang");
        if std::env::var("VF_CHILD").is_ok() {
            // we are the isolated child: just report by exit code
            std::process::exit(3);
        }
        eprintln!("watchdog: case stalled in {sub}; re-running in isolation: {}", path.display());
        let exe = std::env::current_exe().unwrap();
        let mut child = std::process::Command::new(exe)
            .arg("--replay")
            .arg(&path)
            .env("VF_CHILD", "1")
            .stdout(std::process::Stdio::null())
            .stderr(std::process::Stdio::null())
            .spawn()
            .expect("spawn child");
        // the isolated re-run gets three times the CPU budget (and the same generous wall-clock backstop)
        let limit = wd_secs.max(20) * 3;
        let t0 = Instant::now();
        let pid = child.id();
        let reproduced = loop {
            match child.try_wait() {
                Ok(Some(_st)) => break false,
                Ok(None) => {
                    let wall = t0.elapsed().as_millis() as u64;
                    let cpu = process_cpu_ms(pid).unwrap_or(wall);
                    if stalled(wall, cpu, limit) {
                        let _ = child.kill();
                        let _ = child.wait();
                        break true;
                    }
                    std::thread::sleep(Duration::from_millis(100));
                },
                Err(_) => break false,
            }
        };
        if reproduced {
            if let Some(k) = self.known_match(&full_key).cloned() {
                println!("KNOWN-FINDING: property={} {} [{}]", self.property, k.what, k.key);
                println!("(search cannot continue past a hang; exiting inconclusive)");
                std::process::exit(2);
            }
            println!("FAILURE property={} subcheck={} key=hang :: non-termination reproduced in isolation", self.property, sub);
            println!("VIOLATION property={} replay={}", self.property, path.display());
            self.violations += 1;
            self.finish_and_exit();
        } else {
            println!("INCONCLUSIVE: watchdog fired in {sub} but the case terminated when re-run in isolation");
            std::process::exit(2);
        }
    }

    /// Runs an enumerated (non-random) sub-space. `exhaustive` says whether the iterator covers the
    /// whole stated space. Cases are checked in parallel chunks; order of reports is deterministic.
    pub fn enumerate<C, I, F>(&mut self, name: &str, rule: &str, exhaustive: bool, cases: I, check: F)
    where
        C: Serialize + DeserializeOwned + Debug + Clone + Send + Sync,
        I: Iterator<Item = C>,
        F: Fn(&C, &mut Obs) -> CheckResult + Sync,
    {
        if let Some(rf) = self.replay.clone() {
            if rf.subcheck != name {
                return;
            }
            self.replay_matched = true;
            let Ok(case) = serde_json::from_value::<C>(rf.case.clone()) else {
                self.inconclusive("replay case does not deserialize".into());
                return;
            };
            let mut stats = SubStats { name: name.to_string(), rule: rule.to_string(), ..Default::default() };
            stats.evaluations = 1;
            let mut obs = Obs::default();
            match run_fn(&check, &case, &mut obs) {
                Ok(()) => println!("replay: case passes ({name})"),
                Err(f) => {
                    self.report_failure(name, rf.case, &f, &mut stats);
                },
            }
            self.subs.push(stats);
            return;
        }
        if !self.want(name) {
            return;
        }
        let t0 = Instant::now();
        let mut stats = SubStats {
            name: name.to_string(),
            rule: rule.to_string(),
            exhaustive: Some(exhaustive),
            ..Default::default()
        };
        let mut iter = cases;
        let mut failed_keys: BTreeSet<String> = BTreeSet::new();
        loop {
            let chunk: Vec<C> = iter.by_ref().take(4096).collect();
            if chunk.is_empty() {
                break;
            }
            let n = chunk.len();
            let per = n.div_ceil(SHARDS);
            let outs: Vec<Vec<(usize, Obs, CheckResult)>> = std::thread::scope(|scope| {
                let handles: Vec<_> = chunk
                    .chunks(per)
                    .enumerate()
                    .map(|(ci, part)| {
                        let check = &check;
                        let (guard, prop) = (self.crash_guard, self.property.clone());
                        scope.spawn(move || {
                            if guard {
                                crash::install_signal_handlers();
                                crash::install_altstack();
                            }
                            part.iter()
                                .enumerate()
                                .map(|(i, c)| {
                                    if guard {
                                        crash::set_current(&prop, name, &serde_json::to_string(c).unwrap_or_default());
                                    }
                                    let mut obs = Obs::default();
                                    let r = run_fn(check, c, &mut obs);
                                    (ci * per + i, obs, r)
                                })
                                .collect::<Vec<_>>()
                        })
                    })
                    .collect();
                handles.into_iter().map(|h| h.join().unwrap()).collect()
            });
            for (idx, obs, r) in outs.into_iter().flatten() {
                stats.evaluations += 1;
                stats.comparisons += obs.comparisons;
                let case = &chunk[idx];
                if obs.nontrivial {
                    stats.nontrivial += 1;
                    let k = obs.key.unwrap_or_else(|| hash_str(&serde_json::to_string(case).unwrap_or_default()));
                    stats.distinct.insert(k);
                }
                for l in &obs.labels {
                    *stats.labels.entry(l.clone()).or_default() += 1;
                    if stats.samples.len() < 12 && stats.sample_labels.insert(l.clone()) {
                        stats.samples.push(truncate_json(serde_json::to_value(case).unwrap_or_default()));
                    }
                }
                if stats.samples.is_empty() {
                    stats.samples.push(truncate_json(serde_json::to_value(case).unwrap_or_default()));
                }
                if let Err(f) = r {
                    // one report per failure key in enumerations
                    if failed_keys.insert(f.key.clone()) {
                        let cj = serde_json::to_value(case).unwrap_or_default();
                        self.report_failure(name, cj, &f, &mut stats);
                    }
                }
            }
            if failed_keys.len() > 8 {
                break;
            }
        }
        eprintln!(
            "[{}] {}: {} enumerated cases, {} non-trivial ({} distinct), {:.1}s",
            self.property,
            name,
            stats.evaluations,
            stats.nontrivial,
            stats.distinct.len(),
            t0.elapsed().as_secs_f64()
        );
        self.subs.push(stats);
    }

    /// Writes the evidence file and exits with the contract's code.
    pub fn finish_and_exit(&mut self) -> ! {
        if self.replay.is_some() {
            if !self.replay_matched {
                eprintln!("replay: no sub-check named {:?} in this binary", self.replay.as_ref().unwrap().subcheck);
                std::process::exit(2);
            }
            std::process::exit(if self.violations > 0 { 1 } else { 0 });
        }
        let evaluations: u64 = self.subs.iter().map(|s| s.evaluations).sum();
        let distinct: u64 = self.subs.iter().map(|s| s.distinct.len() as u64).sum();
        let mut samples = vec![];
        for s in &self.subs {
            for v in s.samples.iter().take(3) {
                samples.push(serde_json::json!({"subcheck": s.name, "case": v}));
            }
        }
        let mut per_sub = serde_json::Map::new();
        for s in &self.subs {
            let mut m = serde_json::json!({
                "evaluations": s.evaluations,
                "nontrivial": s.nontrivial,
                "distinct_nontrivial": s.distinct.len(),
                "labels": s.labels,
                "rule": s.rule,
                "known_finding_hits": s.known_hits,
                "oracle_comparisons": s.comparisons,
            });
            if let Some(e) = s.exhaustive {
                m["exhaustive"] = serde_json::json!(e);
            }
            per_sub.insert(s.name.clone(), m);
        }
        let rule = self
            .subs
            .iter()
            .map(|s| format!("[{}] {}", s.name, s.rule))
            .collect::<Vec<_>>()
            .join(" ;; ");
        let all_exh = !self.subs.is_empty() && self.subs.iter().all(|s| s.exhaustive == Some(true));
        let mut coverage = serde_json::json!({
            "evaluations": evaluations,
            "distinct_nontrivial": distinct,
            "rule": rule,
            "samples": samples,
            "exhaustive": all_exh,
            "subchecks": per_sub,
            "known_findings_open": self.known.iter().map(|k| k.key.clone()).collect::<Vec<_>>(),
            "inconclusive": self.inconclusive,
        });
        for (k, v) in &self.extra {
            coverage[k] = v.clone();
        }
        let ev = serde_json::json!({
            "property_id": self.property,
            "tier": self.tier.name(),
            "seed": self.seed,
            "level": self.level,
            "coverage": coverage,
            "assumptions": self.assumptions,
            "wall_s": (self.start.elapsed().as_secs_f64() * 100.0).round() / 100.0,
            "violations": self.violations,
        });
        let dir = self.root.join("evidence");
        let _ = std::fs::create_dir_all(&dir);
        let path = dir.join(format!("{}.json", self.property));
        if self.only.is_none() {
            std::fs::write(&path, serde_json::to_string_pretty(&ev).unwrap() + "\n").expect("write evidence");
        }
        if self.violations > 0 {
            println!("RESULT property={} violations={}", self.property, self.violations);
            std::process::exit(1);
        }
        if !self.inconclusive.is_empty() {
            println!("RESULT property={} inconclusive ({})", self.property, self.inconclusive.len());
            std::process::exit(2);
        }
        println!(
            "RESULT property={} held on {} cases ({} distinct non-trivial) in {:.1}s",
            self.property,
            evaluations,
            distinct,
            self.start.elapsed().as_secs_f64()
        );
        std::process::exit(0);
    }
}

#[derive(Default)]
struct ShardProgress {
    started_ms: AtomicU64,
    /// CPU time of the worker thread when the current case started, and the worker's pthread handle:
    /// the stall criterion is CPU time spent in the case, so that a loaded machine cannot trip it
    cpu_start_ms: AtomicU64,
    thread: AtomicU64,
    current: Mutex<Option<String>>,
}

impl ShardProgress {
    fn begin(&self) {
        self.thread.store(unsafe { libc::pthread_self() } as u64, Ordering::SeqCst);
        self.cpu_start_ms.store(thread_cpu_ms_self(), Ordering::SeqCst);
        self.started_ms.store(now_ms(), Ordering::SeqCst);
    }
    fn end(&self) {
        self.started_ms.store(0, Ordering::SeqCst);
    }
    /// (wall ms, cpu ms) spent in the current case, if one is running
    fn elapsed(&self) -> Option<(u64, u64)> {
        let st = self.started_ms.load(Ordering::SeqCst);
        if st == 0 {
            return None;
        }
        let wall = now_ms().saturating_sub(st);
        let t = self.thread.load(Ordering::SeqCst);
        let cpu = thread_cpu_ms_of(t as libc::pthread_t).map(|c| c.saturating_sub(self.cpu_start_ms.load(Ordering::SeqCst))).unwrap_or(wall);
        // re-check that the same case is still running
        if self.started_ms.load(Ordering::SeqCst) != st {
            return None;
        }
        Some((wall, cpu))
    }
}

fn ts_ms(ts: &libc::timespec) -> u64 {
    ts.tv_sec as u64 * 1000 + ts.tv_nsec as u64 / 1_000_000
}

fn thread_cpu_ms_self() -> u64 {
    let mut ts = libc::timespec { tv_sec: 0, tv_nsec: 0 };
    unsafe { libc::clock_gettime(libc::CLOCK_THREAD_CPUTIME_ID, &mut ts) };
    ts_ms(&ts)
}

fn thread_cpu_ms_of(t: libc::pthread_t) -> Option<u64> {
    let mut clk: libc::clockid_t = 0;
    let mut ts = libc::timespec { tv_sec: 0, tv_nsec: 0 };
    unsafe {
        if libc::pthread_getcpuclockid(t, &mut clk) != 0 || libc::clock_gettime(clk, &mut ts) != 0 {
            return None;
        }
    }
    Some(ts_ms(&ts))
}

/// CPU time (user + system, ms) consumed so far by another process, from /proc
fn process_cpu_ms(pid: u32) -> Option<u64> {
    let txt = std::fs::read_to_string(format!("/proc/{pid}/stat")).ok()?;
    let rest = &txt[txt.rfind(')')? + 1..];
    let f: Vec<&str> = rest.split_whitespace().collect();
    // after the command name: state is field 0, utime field 11, stime field 12
    let ticks: u64 = f.get(11)?.parse::<u64>().ok()? + f.get(12)?.parse::<u64>().ok()?;
    let hz = unsafe { libc::sysconf(libc::_SC_CLK_TCK) }.max(1) as u64;
    Some(ticks * 1000 / hz)
}

/// a case is stalled when it has used `wd_secs` of CPU time, or (threads blocked without using CPU)
/// twenty times that much wall-clock time and at least ten minutes
fn stalled(wall_ms: u64, cpu_ms: u64, wd_secs: u64) -> bool {
    cpu_ms > wd_secs * 1000 || wall_ms > (wd_secs * 20).max(600) * 1000
}

fn now_ms() -> u64 {
    // monotonic milliseconds since first use (watchdog only; never influences case generation)
    static START: std::sync::OnceLock<Instant> = std::sync::OnceLock::new();
    START.get_or_init(Instant::now).elapsed().as_millis() as u64 + 1
}

struct ShardResult<C> {
    shard: usize,
    evaluations: u64,
    nontrivial: u64,
    comparisons: u64,
    distinct: HashSet<u64>,
    labels: BTreeMap<String, u64>,
    samples: Vec<(String, serde_json::Value)>,
    failures: Vec<(C, Fail)>,
    gen_error: Option<String>,
}

fn run_case<S: SubCheck>(s: &S, case: &S::Case, obs: &mut Obs) -> CheckResult {
    match catch(|| s.check(case, obs)) {
        Ok(r) => r,
        Err(p) => Err(Fail::new(p.key(), format!("uncaught panic: {} at {}:{}", p.msg, p.file, p.line))),
    }
}

fn run_fn<C, F: Fn(&C, &mut Obs) -> CheckResult>(f: &F, case: &C, obs: &mut Obs) -> CheckResult {
    match catch(|| f(case, obs)) {
        Ok(r) => r,
        Err(p) => Err(Fail::new(p.key(), format!("uncaught panic: {} at {}:{}", p.msg, p.file, p.line))),
    }
}

#[allow(clippy::too_many_arguments)]
fn run_shard<S: SubCheck>(
    s: &S,
    tier: Tier,
    seed: u64,
    property: &str,
    name: &str,
    shard: usize,
    cases: u64,
    stop: &AtomicBool,
    progress: &ShardProgress,
    known_keys: &[String],
) -> ShardResult<S::Case> {
    let mut res = ShardResult {
        shard,
        evaluations: 0,
        nontrivial: 0,
        comparisons: 0,
        distinct: HashSet::new(),
        labels: BTreeMap::new(),
        samples: vec![],
        failures: vec![],
        gen_error: None,
    };
    let config = Config { failure_persistence: None, ..Config::default() };
    let mut runner = TestRunner::new_with_rng(config, shard_rng(seed, property, name, shard));
    let strategy = s.strategy(tier);
    let track = s.watchdog_secs() > 0;
    let guard = s.crash_guard();
    if guard {
        crash::install_signal_handlers();
        crash::install_altstack();
    }
    let mut seen_sample_labels: BTreeSet<String> = BTreeSet::new();
    let is_known = |key: &str| {
        let full = format!("{name}/{key}");
        known_keys.iter().any(|k| key_matches(k, &full))
    };
    let mut unknown_failures = 0;
    for _ in 0..cases {
        if stop.load(Ordering::SeqCst) {
            break;
        }
        let mut tree = match strategy.new_tree(&mut runner) {
            Ok(t) => t,
            Err(e) => {
                res.gen_error = Some(format!("{e}"));
                break;
            },
        };
        let case = tree.current();
        if track {
            *progress.current.lock().unwrap() = serde_json::to_string(&case).ok();
            progress.begin();
        }
        if guard {
            crash::set_current(property, name, &serde_json::to_string(&case).unwrap_or_default());
        }
        let mut obs = Obs::default();
        let r = run_case(s, &case, &mut obs);
        if track {
            progress.end();
        }
        res.evaluations += 1;
        res.comparisons += obs.comparisons;
        if obs.nontrivial {
            res.nontrivial += 1;
            let k = obs.key.unwrap_or_else(|| hash_str(&serde_json::to_string(&case).unwrap_or_default()));
            res.distinct.insert(k);
        }
        for l in &obs.labels {
            *res.labels.entry(l.clone()).or_default() += 1;
            if res.samples.len() < 12 && seen_sample_labels.insert(l.clone()) {
                res.samples.push((l.clone(), serde_json::to_value(&case).unwrap_or_default()));
            }
        }
        if res.samples.is_empty() {
            res.samples.push(("<first>".into(), serde_json::to_value(&case).unwrap_or_default()));
        }
        if let Err(fail) = r {
            // shrink, keeping the same failure key
            let mut best = (case.clone(), fail.clone());
            let mut iters = 0;
            if tree.simplify() {
                loop {
                    iters += 1;
                    if iters > s.shrink_iters() {
                        break;
                    }
                    let cur = tree.current();
                    if guard {
                        crash::set_current(property, name, &serde_json::to_string(&cur).unwrap_or_default());
                    }
                    if track {
                        *progress.current.lock().unwrap() = serde_json::to_string(&cur).ok();
                        progress.begin();
                    }
                    let mut o = Obs::default();
                    let rr = run_case(s, &cur, &mut o);
                    if track {
                        progress.end();
                    }
                    match rr {
                        Err(f) if f.key == fail.key => {
                            best = (cur, f);
                            if !tree.simplify() {
                                break;
                            }
                        },
                        _ => {
                            if !tree.complicate() {
                                break;
                            }
                        },
                    }
                }
            }
            let known = is_known(&best.1.key);
            // keep one representative per key per shard
            if !res.failures.iter().any(|(_, f)| f.key == best.1.key) {
                res.failures.push(best);
            }
            if !known {
                unknown_failures += 1;
                if unknown_failures >= s.max_failures() {
                    stop.store(true, Ordering::SeqCst);
                    break;
                }
            }
        }
    }
    res
}

/// Maps a 16-bit selector monotonically onto 0..len (shrinks towards index 0).
pub fn pick_index(sel: u16, len: usize) -> usize {
    if len == 0 {
        return 0;
    }
    ((sel as usize) * len) >> 16
}

/// Hex helpers for case encodings.
pub fn hex(bytes: &[u8]) -> String {
    let mut s = String::with_capacity(bytes.len() * 2);
    for b in bytes {
        s.push_str(&format!("{b:02x}"));
    }
    s
}
pub fn unhex(s: &str) -> Vec<u8> {
    (0..s.len() / 2).map(|i| u8::from_str_radix(&s[2 * i..2 * i + 2], 16).unwrap_or(0)).collect()
}

/// u128 that travels through JSON as a hex string (serde_json numbers stop at u64).
#[derive(Clone, Copy, PartialEq, Eq, Hash, PartialOrd, Ord, Default)]
pub struct X(pub u128);
impl Debug for X {
    fn fmt(&self, f: &mut std::fmt::Formatter<'_>) -> std::fmt::Result {
        write!(f, "0x{:x}", self.0)
    }
}
impl Serialize for X {
    fn serialize<S: serde::Serializer>(&self, s: S) -> Result<S::Ok, S::Error> {
        s.serialize_str(&format!("{:x}", self.0))
    }
}
impl<'de> Deserialize<'de> for X {
    fn deserialize<D: serde::Deserializer<'de>>(d: D) -> Result<Self, D::Error> {
        let s = String::deserialize(d)?;
        u128::from_str_radix(s.trim_start_matches("0x"), 16).map(X).map_err(serde::de::Error::custom)
    }
}
