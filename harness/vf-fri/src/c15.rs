//! C15 — FRI completeness and the folding identity.
//!
//! Sub-checks:
//!   * `complete`       honest `FriProver` (one instance, 2..3 consecutive proofs) -> `FriVerifier`, directly
//!                      and after a byte round trip; differential against `AdvFri(honest)`;
//!   * `fold-identity`  `apply_drp::<N>` against the coefficient-domain definition over `vf_ref`;
//!   * `positions`      `fold_positions`, `map_positions_to_indexes` against their documented models;
//!   * `num-layers`     `FriOptions::num_fri_layers` on every schedule up to 2^14 (enumerated).

use proptest::prelude::*;
use serde::{Deserialize, Serialize};
use vf_core::{catch, ensure, CheckResult, Fail, Obs, Run, SubCheck, Tier, X};
use vf_repo::prelude::*;
use winter_crypto::{DefaultRandomCoin, ElementHasher, RandomCoin};
use winter_fri::{DefaultProverChannel, DefaultVerifierChannel, FriOptions, FriProof, FriProver, FriVerifier};
use winter_math::{FieldElement, StarkField};
use winter_utils::{ByteReader, Deserializable, Serializable, SliceReader};

use crate::adv;
use crate::cfg::{self, Expand, Sched, Ty};
use crate::model::{self, model_fold_positions};

// SHARED HELPERS
// ================================================================================================

pub fn elem<E: FieldElement>(x: &mut Expand) -> E
where
    E::BaseField: FA,
{
    let p = <E::BaseField as FA>::FP.p;
    let mut el = [0u128; 3];
    for c in el.iter_mut().take(E::EXTENSION_DEGREE) {
        *c = x.next_u128() % p;
    }
    from_el::<E>(&el)
}

pub fn panic_fail(what: &str, p: vf_core::PanicSig) -> Fail {
    Fail::new(format!("{what}/panic/{}", p.key()), format!("{what} panicked: {} at {}:{}", p.msg, p.file, p.line))
}

/// Result of driving the real verifier over proof bytes.
pub enum Outcome {
    Accepted,
    /// (stage, error variant without numbers)
    Rejected(&'static str, String),
    Panicked(vf_core::PanicSig),
}

pub fn drive_verifier<E, H>(
    proof_bytes: &[u8],
    commitments: &[H::Digest],
    s: &Sched,
    claimed: &[E],
    positions: &[usize],
) -> Outcome
where
    E: FieldElement,
    H: ElementHasher<BaseField = E::BaseField>,
{
    let r = catch(|| -> Result<(), (&'static str, String)> {
        let mut reader = SliceReader::new(proof_bytes);
        let proof = FriProof::read_from(&mut reader).map_err(|e| ("read_from", de_variant(&e)))?;
        if reader.has_more_bytes() {
            return Err(("read_from", "UnconsumedBytes".into()));
        }
        let options = FriOptions::new(s.blowup(), s.folding(), s.rmd());
        let mut channel = DefaultVerifierChannel::<E, H>::new(proof, commitments.to_vec(), s.domain(), s.folding())
            .map_err(|e| ("channel", de_variant(&e)))?;
        let mut coin = DefaultRandomCoin::<H>::new(&[]);
        let verifier = FriVerifier::<E, DefaultVerifierChannel<E, H>, H, DefaultRandomCoin<H>>::new(
            &mut channel,
            &mut coin,
            options,
            s.bound(),
        )
        .map_err(|e| ("new", variant(&e)))?;
        verifier.verify(&mut channel, claimed, positions).map_err(|e| ("verify", variant(&e)))
    });
    match r {
        Ok(Ok(())) => Outcome::Accepted,
        Ok(Err((st, e))) => Outcome::Rejected(st, e),
        Err(p) => Outcome::Panicked(p),
    }
}

/// error variant without its numbers (labels must be stable)
pub fn variant(e: &winter_fri::VerifierError) -> String {
    let s = format!("{e:?}");
    s.split(|c: char| c == '(' || c == '{' || c == ' ').next().unwrap_or("?").to_string()
}

pub fn de_variant(e: &winter_utils::DeserializationError) -> String {
    let s = format!("{e:?}");
    s.split(|c: char| c == '(' || c == '{' || c == ' ').next().unwrap_or("?").to_string()
}

// COMPLETENESS
// ================================================================================================

#[derive(Serialize, Deserialize, Clone, Copy, Debug, PartialEq, Eq)]
pub enum PolyKind {
    Deg0,
    Deg1,
    BoundMinus1,
    Bound,
    RandomLe(u16),
}

#[derive(Serialize, Deserialize, Clone, Copy, Debug, PartialEq, Eq)]
pub enum Lead {
    Random,
    One,
    MinusOne,
}

#[derive(Serialize, Deserialize, Clone, Debug)]
pub struct PolySpec {
    pub kind: PolyKind,
    pub lead: Lead,
    pub seed: u64,
}

#[derive(Serialize, Deserialize, Clone, Debug)]
pub struct CompleteCase {
    pub ty: Ty,
    pub sched: Sched,
    pub num_queries: u16,
    pub nonce: u64,
    /// append a copy of the first position / a position colliding with it after 1 / 2 foldings
    pub force_dup: bool,
    pub force_collide1: bool,
    pub force_collide2: bool,
    pub proofs: Vec<PolySpec>,
    /// also run AdvFri(honest) and compare commitments and proof bytes
    pub with_adv: bool,
}

/// coefficients (exactly T entries, ascending) of the polynomial a spec denotes
pub fn coefficients<E: FieldElement>(spec: &PolySpec, t: usize) -> (Vec<E>, usize)
where
    E::BaseField: FA,
{
    let bound = t - 1;
    let degree = match spec.kind {
        PolyKind::Deg0 => 0,
        PolyKind::Deg1 => 1.min(bound),
        PolyKind::BoundMinus1 => bound.saturating_sub(1),
        PolyKind::Bound => bound,
        PolyKind::RandomLe(sel) => vf_core::pick_index(sel, bound + 1),
    };
    let mut x = Expand::new(spec.seed, 1);
    let mut c: Vec<E> = (0..t).map(|i| if i <= degree { elem::<E>(&mut x) } else { E::ZERO }).collect();
    c[degree] = match spec.lead {
        Lead::One => E::ONE,
        Lead::MinusOne => -E::ONE,
        Lead::Random => {
            if c[degree] == E::ZERO {
                E::ONE
            } else {
                c[degree]
            }
        },
    };
    (c, degree)
}

fn num_queries_for(sel: u16, domain: usize) -> usize {
    (sel as usize).clamp(1, 255.min(domain - 1))
}

pub struct Complete;

fn poly_spec_strategy() -> BoxedStrategy<PolySpec> {
    (
        prop_oneof![
            1 => Just(PolyKind::Deg0),
            1 => Just(PolyKind::Deg1),
            1 => Just(PolyKind::BoundMinus1),
            2 => Just(PolyKind::Bound),
            2 => any::<u16>().prop_map(PolyKind::RandomLe),
        ],
        prop_oneof![4 => Just(Lead::Random), 1 => Just(Lead::One), 1 => Just(Lead::MinusOne)],
        any::<u64>(),
    )
        .prop_map(|(kind, lead, seed)| PolySpec { kind, lead, seed })
        .boxed()
}

fn queries_strategy() -> BoxedStrategy<u16> {
    prop_oneof![2 => 1u16..=3, 3 => 4u16..=48, 2 => 49u16..=255, 1 => Just(255u16)].boxed()
}

impl SubCheck for Complete {
    type Case = CompleteCase;
    fn name(&self) -> String {
        "complete".into()
    }
    fn cases(&self, tier: Tier) -> u64 {
        tier.pick(30_000, 400_000)
    }
    fn watchdog_secs(&self) -> u64 {
        60
    }
    fn rule(&self) -> String {
        "schedule well-formed by construction (log N, #layers, log remainder size, log blowup drawn; T and D derived; T=2 excluded; D in 2^3..2^12 quick / 2^14 thorough), element type x hasher from the 33 existing combinations (Rescue hashers sampled 1:5), 1..255 queries (< D) drawn by the prover channel with a random nonce and optionally extended by a repeated position and positions colliding after 1 or 2 foldings, 2..3 polynomials (degree 0 / 1 / bound-1 / bound / random <= bound; coefficients expanded from a drawn seed) proven by ONE FriProver instance; non-trivial = at least one committed layer; distinct by (folding, #layers, remainder size, field, extension, hasher, duplicates present)".into()
    }
    fn required_labels(&self, _t: Tier) -> Vec<String> {
        let mut v: Vec<String> = vec![
            "dups=drawn".into(),
            "dups=forced".into(),
            "dups=none".into(),
            "collision-after-folding=drawn".into(),
            "collision-after-folding=forced".into(),
            "layers=0".into(),
            "layers>=3".into(),
            "kind=Deg0".into(),
            "kind=Bound".into(),
            "queries=255".into(),
            "adv-honest=compared".into(),
        ];
        for n in [2, 4, 8, 16] {
            v.push(format!("folding={n}"));
        }
        for h in ["Blake3_256", "Blake3_192", "Sha3_256", "Rp64_256", "RpJive64_256", "Rp62_248"] {
            v.push(format!("hash={h}"));
        }
        for t in ["f62^1", "f62^2", "f62^3", "f64^1", "f64^2", "f64^3", "f128^1", "f128^2"] {
            v.push(format!("elem={t}"));
        }
        v
    }
    fn strategy(&self, tier: Tier) -> BoxedStrategy<CompleteCase> {
        let max = cfg::max_log_domain(tier);
        // sizes: mostly small/medium, the largest sizes sampled
        let sched = prop_oneof![
            2 => cfg::sched_strategy(3, 5),
            5 => cfg::sched_strategy(3, 8),
            3 => cfg::sched_strategy(3, 10),
            1 => cfg::sched_strategy(9, max),
        ];
        (
            cfg::ty_strategy(5, 1),
            sched,
            queries_strategy(),
            any::<u64>(),
            (prop::bool::weighted(0.25), prop::bool::weighted(0.25), prop::bool::weighted(0.25)),
            prop::collection::vec(poly_spec_strategy(), 2..=3),
            prop::bool::weighted(0.5),
        )
            .prop_map(|(ty, sched, num_queries, nonce, (d, c1, c2), proofs, with_adv)| CompleteCase {
                ty,
                sched,
                num_queries,
                nonce,
                force_dup: d,
                force_collide1: c1,
                force_collide2: c2,
                proofs,
                with_adv,
            })
            .boxed()
    }
    fn check(&self, c: &CompleteCase, obs: &mut Obs) -> CheckResult {
        crate::with_types!(c.ty, complete_generic(c, obs))
    }
}

fn complete_generic<E, H>(c: &CompleteCase, obs: &mut Obs) -> CheckResult
where
    E: FieldElement,
    E::BaseField: FA,
    H: ElementHasher<BaseField = E::BaseField>,
{
    let s = &c.sched;
    s.well_formed().map_err(|e| Fail::new("harness/ill-formed-schedule", format!("{s:?}: {e}")))?;
    let (domain, n, t, big_l) = (s.domain(), s.folding(), s.t(), s.layers as usize);
    ensure!(s.log_domain() <= <E::BaseField as StarkField>::TWO_ADICITY, "harness/domain", "domain beyond two-adicity");
    let forcing = c.force_dup || c.force_collide1 || c.force_collide2;
    let q = num_queries_for(c.num_queries, domain).min(if forcing { 252 } else { 255 });
    let offset = E::BaseField::GENERATOR;

    obs.label(format!("elem={}", c.ty.label()));
    obs.label(format!("hash={:?}", c.ty.hash));
    obs.label(format!("folding={n}"));
    obs.label(if big_l >= 3 { "layers>=3".to_string() } else { format!("layers={big_l}") });
    obs.label(format!("log-domain={}", match s.log_domain() { 3..=5 => "3-5", 6..=8 => "6-8", 9..=11 => "9-11", _ => "12-14" }));
    obs.label(format!("rem-size=2^{}", s.log_rem));
    obs.label(format!("blowup=2^{}", s.log_blowup));
    if q == 255 {
        obs.label("queries=255");
    } else if q * 2 >= domain {
        obs.label("queries>=domain/2");
    }

    let options = catch(|| FriOptions::new(s.blowup(), n, s.rmd())).map_err(|p| panic_fail("FriOptions::new", p))?;
    ensure!(
        options.num_fri_layers(domain) == big_l,
        "num_fri_layers",
        "num_fri_layers({domain}) = {} but the schedule has {big_l} layers ({s:?})",
        options.num_fri_layers(domain)
    );
    type Ch<E, H> = DefaultProverChannel<E, H, DefaultRandomCoin<H>>;
    let mut prover = FriProver::<E::BaseField, E, Ch<E, H>, H>::new(options.clone());
    let mut dup_class = "none";
    let mut coll_class = "none";

    for (k, spec) in c.proofs.iter().enumerate() {
        let (coeffs, degree) = coefficients::<E>(spec, t);
        if k == 0 {
            obs.label(format!("kind={}", match spec.kind { PolyKind::RandomLe(_) => "RandomLe".to_string(), o => format!("{o:?}") }));
        }
        let evals = model::eval_coset(&coeffs, domain, offset);
        // the harness' transform against the definition (small sizes)
        if domain <= 64 && k == 0 {
            let f = ref_field::<E>();
            let g = model::domain_generator::<E::BaseField>(domain).to_u128();
            let want = vf_ref::poly::eval_domain(&f, &model::els_to_ref(&coeffs), g, offset.to_u128(), domain);
            obs.comparisons += domain as u64;
            ensure!(model::els_to_ref(&evals) == want, "harness/eval-coset", "own FFT disagrees with naive evaluation");
        }

        let mut channel = Ch::<E, H>::new(domain, q);
        catch(|| prover.build_layers(&mut channel, evals.clone())).map_err(|p| panic_fail("build_layers", p))?;
        ensure!(prover.num_layers() == big_l, "prover/num_layers", "prover built {} layers, schedule says {big_l}", prover.num_layers());
        let mut positions = catch(|| channel.draw_query_positions(c.nonce)).map_err(|p| panic_fail("draw_query_positions", p))?;
        ensure!(positions.len() == q && positions.iter().all(|p| *p < domain), "positions/range", "drawn positions {positions:?}");
        let drawn_dups = {
            let mut v = positions.clone();
            v.sort();
            v.dedup();
            v.len() < positions.len()
        };
        let drawn_coll = collisions_after_folding(&positions, s);
        let p0 = positions[0];
        let mut forced_dup = false;
        let mut forced_coll = false;
        if c.force_dup {
            positions.push(p0);
            forced_dup = true;
        }
        if c.force_collide1 && big_l >= 1 {
            positions.push((p0 + domain / n) % domain);
            forced_coll = true;
        }
        if c.force_collide2 && big_l >= 2 {
            positions.push((p0 + domain / n / n) % domain);
            forced_coll = true;
        }
        if k == 0 {
            dup_class = if forced_dup { "forced" } else if drawn_dups { "drawn" } else { "none" };
            coll_class = if forced_coll { "forced" } else if drawn_coll { "drawn" } else { "none" };
        }
        let proof = catch(|| prover.build_proof(&positions)).map_err(|p| panic_fail("build_proof", p))?;
        ensure!(prover.num_layers() == 0, "prover/not-reset", "layers left after build_proof");
        let commitments = channel.layer_commitments().to_vec();
        ensure!(commitments.len() == big_l + 1, "commitments/count", "{} commitments for {big_l} layers", commitments.len());
        ensure!(proof.num_layers() == big_l, "proof/num_layers", "proof has {} layers", proof.num_layers());
        ensure!(
            proof.num_remainder_elements::<E>() == s.rem_size(),
            "proof/remainder-size",
            "remainder has {} elements, expected {}",
            proof.num_remainder_elements::<E>(),
            s.rem_size()
        );
        let claimed: Vec<E> = positions.iter().map(|&p| evals[p]).collect();

        // (i) byte round trip
        let bytes = proof.to_bytes();
        let back = FriProof::read_from_bytes(&bytes).map_err(|e| Fail::new("roundtrip/read-error", format!("proof {k}: {e}")))?;
        ensure!(back == proof, "roundtrip/not-equal", "proof {k}: decoded proof differs");
        ensure!(back.to_bytes() == bytes, "roundtrip/bytes", "proof {k}: re-encoded bytes differ");

        // (i) verification of the decoded proof
        match drive_verifier::<E, H>(&bytes, &commitments, s, &claimed, &positions) {
            Outcome::Accepted => {},
            Outcome::Rejected(stage, e) => {
                return Err(Fail::new(
                    format!("verify-decoded/rejected/{stage}/{e}"),
                    format!("proof {k} (decoded from bytes) of a degree-{degree} polynomial (bound {}) rejected at {stage}: {e}; {s:?} q={q} positions={positions:?}", s.bound()),
                ))
            },
            Outcome::Panicked(p) => return Err(panic_fail("verify-decoded", p)),
        }
        obs.comparisons += 1;
        // the object path proper (no serialization in between)
        {
            let r = catch(|| -> Result<(), String> {
                let mut ch = DefaultVerifierChannel::<E, H>::new(proof.clone(), commitments.clone(), domain, n).map_err(|e| format!("{e}"))?;
                let mut coin = DefaultRandomCoin::<H>::new(&[]);
                let v = FriVerifier::<E, _, H, DefaultRandomCoin<H>>::new(&mut ch, &mut coin, options.clone(), s.bound())
                    .map_err(|e| variant(&e))?;
                ensure_str(v.domain_size() == domain, "verifier domain size")?;
                // the verifier's coin yields the prover's positions
                let vp = coin.draw_integers(q, domain, c.nonce).map_err(|e| format!("{e}"))?;
                ensure_str(vp[..] == positions[..q], "verifier coin positions differ from prover channel positions")?;
                v.verify(&mut ch, &claimed, &positions).map_err(|e| variant(&e))
            })
            .map_err(|p| panic_fail("verify", p))?;
            if let Err(e) = r {
                return Err(Fail::new(
                    format!("verify-object/rejected/{}", e.split(' ').next().unwrap_or("?")),
                    format!("proof {k} of a degree-{degree} polynomial (bound {}) rejected: {e}; {s:?} q={q} positions={positions:?}", s.bound()),
                ));
            }
        }

        // (iv) AdvFri(honest) is byte-identical
        if c.with_adv && !forcing {
            let plan = adv::Plan::honest(evals.clone(), q, c.nonce);
            let out = adv::run::<E, H>(s, &plan);
            ensure!(out.positions == positions, "adv-honest/positions", "AdvFri positions differ");
            ensure!(out.commitments == commitments, "adv-honest/commitments", "proof {k}: layer commitments differ between FriProver and AdvFri(honest)");
            ensure!(out.proof_bytes == bytes, "adv-honest/proof-bytes", "proof {k}: proof bytes differ between FriProver and AdvFri(honest)");
            ensure!(out.verdict.legit(), "harness/adv-verdict", "ground truth of an honest run is not legit: {:?}", out.verdict);
            obs.comparisons += 2;
            if k == 0 {
                obs.label("adv-honest=compared");
            }
        }
    }
    obs.label(format!("dups={dup_class}"));
    obs.label(format!("collision-after-folding={coll_class}"));
    obs.nontrivial_if(big_l >= 1);
    obs.distinct_key(vf_core::hash_of(&(s.log_n, s.layers, s.log_rem, c.ty, dup_class != "none")));
    Ok(())
}

fn ensure_str(c: bool, what: &str) -> Result<(), String> {
    if c {
        Ok(())
    } else {
        Err(what.to_string())
    }
}

/// do two *distinct* positions fall together at some folding step
fn collisions_after_folding(positions: &[usize], s: &Sched) -> bool {
    let mut ps: Vec<usize> = vec![];
    for p in positions {
        if !ps.contains(p) {
            ps.push(*p);
        }
    }
    for l in 0..s.layers as usize {
        let next = model_fold_positions(&ps, s.layer_domain(l), s.folding());
        if next.len() < ps.len() {
            return true;
        }
        ps = next;
    }
    false
}

// FOLDING IDENTITY
// ================================================================================================

#[derive(Serialize, Deserialize, Clone, Debug)]
pub enum OffsetSel {
    Generator,
    One,
    Other(X),
}

#[derive(Serialize, Deserialize, Clone, Debug)]
pub enum ValKind {
    /// arbitrary function on the domain
    Random,
    /// evaluations of a polynomial with this many coefficients (selector)
    LowDegree(u16),
    /// a function of x^N only (all entries of a row equal)
    RowConstant,
}

#[derive(Serialize, Deserialize, Clone, Debug)]
pub struct FoldCase {
    pub ty: Ty,
    pub log_n: u8,
    pub log_rows: u8,
    pub kind: ValKind,
    pub seed: u64,
    /// (index selector, value) overrides with edge elements
    pub specials: Vec<(u16, [X; 3])>,
    pub alpha: [X; 3],
    pub offset: OffsetSel,
}

pub struct FoldIdentity;

fn edge_el(fp: Fp) -> BoxedStrategy<[X; 3]> {
    let p = fp.p;
    let edge = prop::sample::select(vec![0u128, 1, 2, p - 1, p - 2, (p - 1) / 2, (p + 1) / 2]);
    let coord = prop_oneof![2 => edge.prop_map(X), 3 => any::<u128>().prop_map(move |v| X(v % p))];
    prop_oneof![
        3 => (coord.clone(), coord.clone(), coord.clone()).prop_map(|(a, b, c)| [a, b, c]),
        // base-field element embedded in the extension
        1 => coord.prop_map(|a| [a, X(0), X(0)]),
    ]
    .boxed()
}

impl SubCheck for FoldIdentity {
    type Case = FoldCase;
    fn name(&self) -> String {
        "fold-identity".into()
    }
    fn cases(&self, tier: Tier) -> u64 {
        tier.pick(60_000, 800_000)
    }
    fn watchdog_secs(&self) -> u64 {
        30
    }
    fn rule(&self) -> String {
        "n = rows*N evaluations (N in 2/4/8/16, rows 1..2^(8-log N), n <= 256) over the coset offset*g^i (offset = GENERATOR / 1 / arbitrary non-zero, g = the field's root of unity of order n, order re-verified on integers): arbitrary functions, evaluations of low-degree polynomials, row-constant functions, with edge elements (0, 1, -1, (p+-1)/2) spliced in; alpha from edge/base-field/uniform elements; all 8 element types; oracle = naive inverse DFT over vf_ref + interleaved coefficient slices combined with powers of alpha, evaluated at (offset g^i)^N; non-trivial = rows >= 2, alpha not in {0,1}, function not identically zero; distinct by whole case".into()
    }
    fn required_labels(&self, _t: Tier) -> Vec<String> {
        let mut v = vec!["rows=1".to_string(), "n=256".into(), "alpha=0".into(), "alpha-in-base-field".into(), "offset=other".into()];
        for n in [2, 4, 8, 16] {
            v.push(format!("N={n}"));
        }
        for t in ["f62^1", "f62^2", "f62^3", "f64^1", "f64^2", "f64^3", "f128^1", "f128^2"] {
            v.push(format!("elem={t}"));
        }
        v
    }
    fn strategy(&self, _tier: Tier) -> BoxedStrategy<FoldCase> {
        let tys: Vec<Ty> = cfg::all_types().into_iter().filter(|t| t.hash == cfg::HashId::Blake3_256).collect();
        let nt = tys.len();
        (0..nt, 1u8..=4, 0u8..=7, any::<u64>(), any::<u16>(), 0u8..3)
            .prop_flat_map(move |(ti, log_n, lr, seed, ksel, kk)| {
                let ty = tys[ti];
                let fp = ty.field.fp();
                let log_rows = lr.min(8 - log_n);
                let kind = match kk {
                    0 => ValKind::Random,
                    1 => ValKind::LowDegree(ksel),
                    _ => ValKind::RowConstant,
                };
                let p = fp.p;
                (
                    prop::collection::vec((any::<u16>(), edge_el(fp)), 0..4),
                    edge_el(fp),
                    prop_oneof![
                        3 => Just(OffsetSel::Generator),
                        1 => Just(OffsetSel::One),
                        2 => any::<u128>().prop_map(move |v| OffsetSel::Other(X(1 + v % (p - 1)))),
                    ],
                )
                    .prop_map(move |(specials, alpha, offset)| FoldCase {
                        ty,
                        log_n,
                        log_rows,
                        kind: kind.clone(),
                        seed,
                        specials,
                        alpha,
                        offset,
                    })
            })
            .boxed()
    }
    fn check(&self, c: &FoldCase, obs: &mut Obs) -> CheckResult {
        crate::with_elem!(c.ty, fold_generic(c, obs))
    }
}

fn fix_el(f: &Field, e: &[X; 3]) -> El {
    let mut r = [0u128; 3];
    for i in 0..f.deg {
        r[i] = e[i].0 % f.fp.p;
    }
    r
}

fn fold_generic<E>(c: &FoldCase, obs: &mut Obs) -> CheckResult
where
    E: FieldElement,
    E::BaseField: FA,
{
    let f = ref_field::<E>();
    let fp = f.fp;
    let n_fold = 1usize << c.log_n;
    let rows = 1usize << c.log_rows;
    let n = rows * n_fold;
    ensure!(n <= 256, "harness/size", "n = {n}");
    let log_size = n.trailing_zeros();
    let g_repo = <E::BaseField as StarkField>::get_root_of_unity(log_size);
    let g = g_repo.to_u128();
    ensure!(
        fp.pow(g, n as u128) == 1 && fp.pow(g, n as u128 / 2) != 1,
        "harness/generator-order",
        "get_root_of_unity({log_size}) does not have order {n}"
    );
    let offset_ref: u128 = match &c.offset {
        OffsetSel::Generator => fp.generator,
        OffsetSel::One => 1,
        // any non-zero residue
        OffsetSel::Other(X(v)) => 1 + *v % (fp.p - 1),
    };
    let offset: E::BaseField = <E::BaseField as FA>::from_u128(offset_ref);
    if matches!(c.offset, OffsetSel::Generator) {
        ensure!(offset == <E::BaseField as StarkField>::GENERATOR, "harness/generator", "documented generator differs from GENERATOR");
    }

    // the function
    let mut x = Expand::new(c.seed, 7);
    let mut evals: Vec<El> = match &c.kind {
        ValKind::Random => (0..n).map(|_| to_el(&elem::<E>(&mut x))).collect(),
        ValKind::LowDegree(sel) => {
            let k = 1 + vf_core::pick_index(*sel, n);
            let coeffs: Vec<El> = (0..k).map(|_| to_el(&elem::<E>(&mut x))).collect();
            vf_ref::poly::eval_domain(&f, &coeffs, g, offset_ref, n)
        },
        ValKind::RowConstant => {
            let per_row: Vec<El> = (0..rows).map(|_| to_el(&elem::<E>(&mut x))).collect();
            (0..n).map(|i| per_row[i % rows]).collect()
        },
    };
    for (sel, v) in &c.specials {
        let i = vf_core::pick_index(*sel, n);
        evals[i] = fix_el(&f, v);
    }
    let alpha_ref = fix_el(&f, &c.alpha);
    let alpha: E = from_el(&alpha_ref);
    let evals_e: Vec<E> = evals.iter().map(from_el::<E>).collect();

    obs.label(format!("elem={}", c.ty.label()));
    obs.label(format!("N={n_fold}"));
    if rows == 1 {
        obs.label("rows=1");
    }
    if n == 256 {
        obs.label("n=256");
    }
    obs.label(match &c.offset {
        OffsetSel::Generator => "offset=generator",
        OffsetSel::One => "offset=1",
        OffsetSel::Other(_) => "offset=other",
    });
    if f.is_zero(&alpha_ref) {
        obs.label("alpha=0");
    } else if f.in_base(&alpha_ref) && f.deg > 1 {
        obs.label("alpha-in-base-field");
    }
    obs.label(format!("kind={}", match &c.kind { ValKind::Random => "random", ValKind::LowDegree(_) => "low-degree", ValKind::RowConstant => "row-constant" }));

    // reference: interpolate (and prove the interpolant right by evaluating it back), then fold by definition
    let coeffs = model::ref_interpolate(&f, &evals, g, offset_ref);
    let back = vf_ref::poly::eval_domain(&f, &coeffs, g, offset_ref, n);
    ensure!(back == evals, "harness/ref-interpolation", "reference interpolant does not reproduce the evaluations");
    let want = model::ref_fold(&f, &coeffs, g, offset_ref, n_fold, &alpha_ref);
    obs.comparisons += rows as u64;

    // code under test
    let got: Vec<E> = catch(|| match n_fold {
        2 => winter_fri::folding::apply_drp::<E::BaseField, E, 2>(&winter_utils::transpose_slice::<E, 2>(&evals_e), offset, alpha),
        4 => winter_fri::folding::apply_drp::<E::BaseField, E, 4>(&winter_utils::transpose_slice::<E, 4>(&evals_e), offset, alpha),
        8 => winter_fri::folding::apply_drp::<E::BaseField, E, 8>(&winter_utils::transpose_slice::<E, 8>(&evals_e), offset, alpha),
        _ => winter_fri::folding::apply_drp::<E::BaseField, E, 16>(&winter_utils::transpose_slice::<E, 16>(&evals_e), offset, alpha),
    })
    .map_err(|p| panic_fail("apply_drp", p))?;
    ensure!(got.len() == rows, "apply_drp/length", "{} outputs for {rows} rows", got.len());
    for i in 0..rows {
        let gi = to_el(&got[i]);
        ensure!(
            gi == want[i],
            "apply_drp/value",
            "{} N={n_fold} rows={rows} offset={offset_ref} alpha={alpha_ref:?}: apply_drp[{i}] = {gi:?}, coefficient-domain definition gives {:?}",
            c.ty.label(),
            want[i]
        );
    }

    // the harness' own algorithms (used by AdvFri and by C05's oracle) against the same definition
    let own = model::own_fold(&evals_e, n_fold, offset, alpha);
    ensure!(model::els_to_ref(&own) == want, "harness/own-fold", "own fold disagrees with the definition");
    let own_coeffs = model::interp_coset(&evals_e, offset);
    ensure!(model::els_to_ref(&own_coeffs) == coeffs, "harness/own-interp", "own interpolation disagrees with the naive inverse DFT");
    if n <= 32 {
        // Lagrange through all points gives the same coefficients
        let xs: Vec<E> = (0..n).map(|i| E::from(offset * g_repo.exp_vartime((i as u64).into()))).collect();
        let lc = model::lagrange_coeffs(&xs, &evals_e);
        ensure!(model::els_to_ref(&lc) == coeffs, "harness/own-lagrange", "own Lagrange interpolation disagrees");
    }

    let nonzero = evals.iter().any(|e| !f.is_zero(e));
    obs.nontrivial_if(rows >= 2 && nonzero && !f.is_zero(&alpha_ref) && alpha_ref != f.one());
    Ok(())
}

// POSITIONS
// ================================================================================================

#[derive(Serialize, Deserialize, Clone, Debug)]
pub struct PosCase {
    pub log_source: u8,
    pub log_n: u8,
    /// (selector, multiple of the folded size added) -- the second component forces collisions
    pub positions: Vec<(u16, u8)>,
    pub log_parts: u8,
}

pub struct Positions;

impl SubCheck for Positions {
    type Case = PosCase;
    fn name(&self) -> String {
        "positions".into()
    }
    fn cases(&self, tier: Tier) -> u64 {
        tier.pick(60_000, 600_000)
    }
    fn rule(&self) -> String {
        "source domain 2^3..2^14, folding 2/4/8/16 (folded size >= 2), 1..300 positions built as (base drawn among few residues or uniformly) + k * folded size so that repeats and collisions are frequent; fold_positions against: residue mod folded size, first occurrence kept, order preserved; map_positions_to_indexes: identity for 1 partition, for 2^k partitions (<= folded size) a bijection of 0..folded size checked on the whole range (folded size <= 4096) and injective/in-range on the drawn positions; non-trivial = some collision after folding; distinct by whole case".into()
    }
    fn required_labels(&self, _t: Tier) -> Vec<String> {
        vec!["collisions=some".into(), "collisions=none".into(), "partitions=1".into(), "partitions>1".into(), "partitions=target".into()]
    }
    fn strategy(&self, _tier: Tier) -> BoxedStrategy<PosCase> {
        (3u8..=14, 1u8..=4, prop::collection::vec((prop_oneof![1 => 0u16..8, 1 => any::<u16>()], 0u8..16), 1..300), 0u8..=12)
            .prop_map(|(log_source, log_n, positions, log_parts)| {
                let log_n = log_n.min(log_source - 1);
                PosCase { log_source, log_n, positions, log_parts }
            })
            .boxed()
    }
    fn check(&self, c: &PosCase, obs: &mut Obs) -> CheckResult {
        let source = 1usize << c.log_source;
        let n = 1usize << c.log_n;
        let target = source / n;
        let positions: Vec<usize> = c
            .positions
            .iter()
            .map(|(sel, k)| {
                let base = if *sel < 8 { *sel as usize % target } else { vf_core::pick_index(*sel, target) };
                base + (*k as usize % n) * target
            })
            .collect();
        debug_assert!(positions.iter().all(|p| *p < source));
        let want = model_fold_positions(&positions, source, n);
        let got = catch(|| winter_fri::folding::fold_positions(&positions, source, n)).map_err(|p| panic_fail("fold_positions", p))?;
        obs.comparisons += 1;
        ensure!(got == want, "fold_positions/model", "fold_positions({positions:?}, {source}, {n}) = {got:?}, model {want:?}");
        let distinct_in: std::collections::BTreeSet<usize> = positions.iter().copied().collect();
        obs.label(if want.len() < distinct_in.len() { "collisions=some" } else { "collisions=none" });
        obs.nontrivial_if(want.len() < distinct_in.len());

        // commitment indexes
        let ident = catch(|| winter_fri::utils::map_positions_to_indexes(&got, source, n, 1)).map_err(|p| panic_fail("map_positions_to_indexes", p))?;
        ensure!(ident == got, "map_positions/identity", "1 partition is not the identity");
        let log_parts = (c.log_parts as u32).min(target.trailing_zeros());
        let parts = 1usize << log_parts;
        obs.label(if parts == 1 { "partitions=1" } else if parts == target { "partitions=target" } else { "partitions>1" });
        let idx = catch(|| winter_fri::utils::map_positions_to_indexes(&got, source, n, parts)).map_err(|p| panic_fail("map_positions_to_indexes", p))?;
        ensure!(idx.len() == got.len(), "map_positions/length", "length changed");
        let set: std::collections::BTreeSet<usize> = idx.iter().copied().collect();
        ensure!(set.len() == idx.len() && idx.iter().all(|i| *i < target), "map_positions/injective", "indexes {idx:?} for positions {got:?} ({parts} partitions, folded size {target})");
        if target <= 4096 {
            let all: Vec<usize> = (0..target).collect();
            let mut img = catch(|| winter_fri::utils::map_positions_to_indexes(&all, source, n, parts)).map_err(|p| panic_fail("map_positions_to_indexes", p))?;
            // consistent with the subset mapping
            for (p, i) in got.iter().zip(idx.iter()) {
                ensure!(img[*p] == *i, "map_positions/pointwise", "mapping depends on the other positions");
            }
            img.sort();
            ensure!(img == all, "map_positions/bijection", "{parts} partitions over folded size {target}: not a bijection onto 0..{target}");
            obs.comparisons += 1;
        }
        Ok(())
    }
}

// LAYER COUNT (enumerated)
// ================================================================================================

#[derive(Serialize, Deserialize, Clone, Debug)]
pub struct LayersCase {
    pub log_t: u8,
    pub log_blowup: u8,
    pub log_n: u8,
    pub log_rmd1: u8,
}

fn layers_check(c: &LayersCase, obs: &mut Obs) -> CheckResult {
    let (t, b, n, r1) = (1usize << c.log_t, 1usize << c.log_blowup, 1usize << c.log_n, 1usize << c.log_rmd1);
    let domain = t * b;
    let want = model::model_num_layers(domain, b, c.log_n as u32, r1 - 1);
    let got = catch(|| FriOptions::new(b, n, r1 - 1).num_fri_layers(domain)).map_err(|p| panic_fail("num_fri_layers", p))?;
    obs.comparisons += 1;
    ensure!(got == want, "num_fri_layers/model", "num_fri_layers({domain}) with blowup {b}, folding {n}, remainder_max_degree {} = {got}, closed formula {want}", r1 - 1);
    // cross-check of the schedule model: when N^want divides T the derived Sched is well formed
    if (want as u32) * (c.log_n as u32) <= c.log_t as u32 && t != 2 && domain >= 8 {
        let s = Sched {
            log_n: c.log_n,
            layers: want as u8,
            log_rem: c.log_t - (want as u8) * c.log_n,
            log_blowup: c.log_blowup,
            log_rmd1: c.log_rmd1,
        };
        ensure!(s.well_formed().is_ok(), "harness/schedule-model", "{s:?}: {:?}", s.well_formed());
        obs.label("well-formed");
        obs.nontrivial_if(want >= 1);
    } else {
        obs.label("ill-formed-or-excluded");
    }
    Ok(())
}

pub fn run(run: &mut Run) {
    run.assume("field arithmetic of /repo is correct (C07/C08); the harness' FFT, fold and Lagrange routines built on it are validated against vf_ref integer models inside this check");
    run.assume("T = 2 (degree bound 1) is not generated: FriVerifier::new documents domain = next_power_of_two(bound) * blowup, which is blowup (not 2*blowup) for bound 1");
    if let Err(e) = vf_ref::field::selfcheck() {
        run.inconclusive(format!("reference self-check failed: {e}"));
        return;
    }
    let mut cases = vec![];
    for log_n in 1u8..=4 {
        for log_blowup in 1u8..=7 {
            for log_t in 0u8..=(14 - log_blowup) {
                for log_rmd1 in 0u8..=8 {
                    cases.push(LayersCase { log_t, log_blowup, log_n, log_rmd1 });
                }
            }
        }
    }
    run.enumerate(
        "num-layers",
        "every (folding 2/4/8/16, blowup 2..128, T = 2^0..2^(14-log blowup), remainder_max_degree+1 = 2^0..2^8): FriOptions::num_fri_layers against the closed formula least L with T/N^L <= remainder_max_degree+1; non-trivial = well-formed schedule with >= 1 layer",
        true,
        cases.into_iter(),
        layers_check,
    );
    run.sub(&Positions);
    run.sub(&FoldIdentity);
    run.sub(&Complete);
}
