mod adv;
mod c05;
mod c15;
mod cfg;
mod model;

fn main() {
    let args = vf_core::parse_args();
    let level = match args.property.as_str() {
        "C05" => "fault_enumeration",
        _ => "exploration",
    };
    let mut run = vf_core::Run::new(&args, level);
    match args.property.as_str() {
        "C15" => c15::run(&mut run),
        "C05" => c05::run(&mut run),
        other => {
            eprintln!("vf-fri does not serve {other}");
            std::process::exit(2);
        },
    }
    run.finish_and_exit();
}
