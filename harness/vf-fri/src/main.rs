fn main() {
    let args = vf_core::parse_args();
    let mut run = vf_core::Run::new(&args, "exploration");
    match args.property.as_str() {
        other => {
            eprintln!("vf-fri does not serve {other} yet (planned: C05 C15)");
            std::process::exit(2);
        },
    }
    #[allow(unreachable_code)]
    run.finish_and_exit();
}
