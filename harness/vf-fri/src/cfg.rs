//! Configuration space shared by C15 and C05: element type (field x extension), hasher, and a FRI
//! schedule that is well-formed *by construction*.
//!
//! Well-formed schedule (what `FriOptions::num_fri_layers`, `FriProver::build_layers` and
//! `FriVerifier::new` accept without degenerating), derived from the code under test:
//!   * domain D = T * blowup, T = number of coefficients of the degree bound (bound = T - 1), all
//!     powers of two; `FriVerifier::new` documents D = next_power_of_two(bound) * blowup, which equals
//!     T * blowup exactly when T != 2 (next_power_of_two(1) = 1), so T = 2 is never generated;
//!   * L = num_fri_layers(D) = least L with T / N^L <= remainder_max_degree + 1; every committed layer
//!     must be divisible by N and keep >= 2 rows (MerkleTree::new), the remainder must keep >= 1
//!     coefficient (FriProof::new) -- both hold iff N^L divides T;
//!   * DefaultProverChannel: D >= 8, 0 < num_queries < D (RandomCoin::draw_integers).
//! The generator therefore draws (log N, L, log remainder size, log blowup) and *derives* T and D, then
//! draws remainder_max_degree among the values for which L is the least admissible layer count.

use proptest::prelude::*;
use serde::{Deserialize, Serialize};
use vf_core::Tier;

#[derive(Serialize, Deserialize, Clone, Copy, Debug, PartialEq, Eq, Hash)]
pub enum FieldId {
    F62,
    F64,
    F128,
}
impl FieldId {
    pub fn name(&self) -> &'static str {
        match self {
            FieldId::F62 => "f62",
            FieldId::F64 => "f64",
            FieldId::F128 => "f128",
        }
    }
    pub fn fp(&self) -> vf_ref::Fp {
        match self {
            FieldId::F62 => vf_ref::F62,
            FieldId::F64 => vf_ref::F64,
            FieldId::F128 => vf_ref::F128,
        }
    }
}

#[derive(Serialize, Deserialize, Clone, Copy, Debug, PartialEq, Eq, Hash)]
pub enum HashId {
    Blake3_256,
    Blake3_192,
    Sha3_256,
    Rp64_256,
    RpJive64_256,
    Rp62_248,
}
impl HashId {
    pub fn is_rescue(&self) -> bool {
        matches!(self, HashId::Rp64_256 | HashId::RpJive64_256 | HashId::Rp62_248)
    }
}

/// element type + hasher
#[derive(Serialize, Deserialize, Clone, Copy, Debug, PartialEq, Eq, Hash)]
pub struct Ty {
    pub field: FieldId,
    /// extension degree 1, 2, 3 (3 not for f128)
    pub ext: u8,
    pub hash: HashId,
}
impl Ty {
    pub fn label(&self) -> String {
        format!("{}^{}", self.field.name(), self.ext)
    }
}

/// all (field, extension, hasher) combinations that exist in /repo
pub fn all_types() -> Vec<Ty> {
    let mut v = vec![];
    for field in [FieldId::F62, FieldId::F64, FieldId::F128] {
        let exts: &[u8] = if field == FieldId::F128 { &[1, 2] } else { &[1, 2, 3] };
        let mut hs = vec![HashId::Blake3_256, HashId::Blake3_192, HashId::Sha3_256];
        match field {
            FieldId::F62 => hs.push(HashId::Rp62_248),
            FieldId::F64 => {
                hs.push(HashId::Rp64_256);
                hs.push(HashId::RpJive64_256)
            },
            FieldId::F128 => {},
        }
        for &ext in exts {
            for &hash in &hs {
                v.push(Ty { field, ext, hash });
            }
        }
    }
    v
}

/// type strategy; Rescue hashers are sampled with weight `rescue_w` against `other_w` for the
/// byte hashers (Rescue is 50-100x slower per leaf)
pub fn ty_strategy(other_w: u32, rescue_w: u32) -> BoxedStrategy<Ty> {
    let all = all_types();
    let fast: Vec<Ty> = all.iter().copied().filter(|t| !t.hash.is_rescue()).collect();
    let slow: Vec<Ty> = all.iter().copied().filter(|t| t.hash.is_rescue()).collect();
    let (nf, ns) = (fast.len(), slow.len());
    prop_oneof![
        other_w => (0..nf).prop_map(move |i| fast[i]),
        rescue_w => (0..ns).prop_map(move |i| slow[i]),
    ]
    .boxed()
}

/// A well-formed FRI schedule.
#[derive(Serialize, Deserialize, Clone, Copy, Debug, PartialEq, Eq, Hash)]
pub struct Sched {
    /// log2 of the folding factor (1..=4)
    pub log_n: u8,
    /// number of committed layers
    pub layers: u8,
    /// log2 of the number of remainder coefficients
    pub log_rem: u8,
    /// log2 of the blowup factor (1..=7)
    pub log_blowup: u8,
    /// log2(remainder_max_degree + 1), 0..=8
    pub log_rmd1: u8,
}

impl Sched {
    pub fn folding(&self) -> usize {
        1 << self.log_n
    }
    pub fn blowup(&self) -> usize {
        1 << self.log_blowup
    }
    pub fn rmd(&self) -> usize {
        (1usize << self.log_rmd1) - 1
    }
    pub fn log_t(&self) -> u32 {
        self.log_rem as u32 + self.layers as u32 * self.log_n as u32
    }
    /// number of coefficients allowed by the degree bound
    pub fn t(&self) -> usize {
        1 << self.log_t()
    }
    pub fn bound(&self) -> usize {
        self.t() - 1
    }
    pub fn log_domain(&self) -> u32 {
        self.log_t() + self.log_blowup as u32
    }
    pub fn domain(&self) -> usize {
        1 << self.log_domain()
    }
    pub fn rem_size(&self) -> usize {
        1 << self.log_rem
    }
    /// domain size of layer l (l = layers is the remainder layer)
    pub fn layer_domain(&self, l: usize) -> usize {
        self.domain() >> (l * self.log_n as usize)
    }

    /// the harness' own statement of well-formedness (independent of how the value was generated)
    pub fn well_formed(&self) -> Result<(), String> {
        self.well_formed_with(false)
    }

    /// `allow_t2`: admit T = 2 (degree bound 1), which the FriOptions documentation covers ("d one less
    /// than a power of two => domain (d + 1) * blowup") but FriVerifier::new's domain formula does not
    pub fn well_formed_with(&self, allow_t2: bool) -> Result<(), String> {
        if !(1..=4).contains(&self.log_n) || !(1..=7).contains(&self.log_blowup) || self.log_rmd1 > 8 {
            return Err("parameter outside the documented ranges".into());
        }
        let (t, n, r1, b) = (self.t(), self.folding(), self.rmd() + 1, self.blowup());
        let d = t * b;
        if t == 2 && !allow_t2 {
            return Err("T = 2: next_power_of_two(bound) != T".into());
        }
        if d < 8 {
            return Err("domain < 8".into());
        }
        // simulate the layer loop on integers
        let mut size = d;
        let mut coeffs = t;
        let mut l = 0;
        while size > r1 * b {
            if size % n != 0 || size / n < 2 || coeffs % n != 0 {
                return Err(format!("layer {l} cannot be folded ({size} rows by {n})"));
            }
            size /= n;
            coeffs /= n;
            l += 1;
        }
        if l != self.layers as usize {
            return Err(format!("layer count {l} != {}", self.layers));
        }
        if coeffs != self.rem_size() || coeffs < 1 || size < 2 {
            return Err("remainder size".into());
        }
        Ok(())
    }
}

/// schedules with 2^min_log_d <= D <= 2^max_log_d (min_log_d >= 3)
pub fn sched_strategy(min_log_d: u32, max_log_d: u32) -> BoxedStrategy<Sched> {
    sched_strategy_layers(0, min_log_d, max_log_d)
}

/// as `sched_strategy`, with at least `min_layers` (0..=2) committed layers
pub fn sched_strategy_layers(min_layers: u8, min_log_d: u32, max_log_d: u32) -> BoxedStrategy<Sched> {
    // (log_n, layers, log_rem, log_blowup, rmd selector); invalid combinations are repaired
    // monotonically (never rejected) so that shrinking keeps working
    (1u8..=4, 0u8..=7, 0u8..=8, 1u8..=7, 0u8..=3)
        .prop_map(move |(log_n, layers, log_rem, log_blowup, rsel)| {
            let mut s = Sched { log_n, layers: layers.max(min_layers), log_rem, log_blowup, log_rmd1: 0 };
            // fit into the size window: drop layers, then remainder size, then blowup
            while s.log_domain() > max_log_d {
                // shrink the largest contributor first (keeps layers / remainder / blowup balanced)
                let lay = s.layers as u32 * s.log_n as u32;
                let (rem, blow) = (s.log_rem as u32, s.log_blowup as u32 - 1);
                if rem >= lay && rem >= blow && s.log_rem > 0 {
                    s.log_rem -= 1;
                } else if blow >= lay && s.log_blowup > 1 {
                    s.log_blowup -= 1;
                } else if s.layers > min_layers {
                    s.layers -= 1;
                } else if s.log_rem > 0 {
                    s.log_rem -= 1;
                } else if s.log_blowup > 1 {
                    s.log_blowup -= 1;
                } else {
                    // min_layers foldings by N do not fit into the window: fold by less
                    s.log_n -= 1;
                }
            }
            while s.log_domain() < min_log_d {
                if s.log_blowup < 7 {
                    s.log_blowup += 1;
                } else {
                    s.log_rem += 1;
                }
            }
            // T = 2 is excluded (see module docs): move to T = 4 or T = 1
            if s.t() == 2 {
                if s.log_domain() >= max_log_d && s.log_blowup > 1 {
                    s.log_blowup -= 1;
                }
                // (layers, log_rem) is (0, 1) or (1, 0) with log_n = 1: one more remainder coefficient bit
                s.log_rem += 1;
            }
            // remainder_max_degree + 1 = 2^log_rmd1 with log_rem <= log_rmd1 (< log_rem + log_n if
            // layers > 0, so that `layers` is the least admissible count)
            let hi = if s.layers > 0 { (s.log_rem + s.log_n - 1).min(8) } else { 8 };
            s.log_rmd1 = (s.log_rem + rsel).min(hi);
            if s.layers == 0 && rsel == 3 {
                s.log_rmd1 = 8;
            }
            s
        })
        .boxed()
}

/// the schedules with T = 2 (degree bound 1): no layer and a 2-coefficient remainder, or one
/// layer folding by 2 into a constant; D = 2 * blowup >= 8
pub fn sched_bound1_strategy() -> BoxedStrategy<Sched> {
    (any::<bool>(), 2u8..=7, 1u8..=8)
        .prop_map(|(one_layer, log_blowup, r)| {
            if one_layer {
                Sched { log_n: 1, layers: 1, log_rem: 0, log_blowup, log_rmd1: 0 }
            } else {
                Sched { log_n: 1, layers: 0, log_rem: 1, log_blowup, log_rmd1: r }
            }
        })
        .boxed()
}

pub fn max_log_domain(tier: Tier) -> u32 {
    tier.pick(12, 14)
}

/// splitmix64: expands a proptest-drawn 64-bit word into the bulk data of a case (coefficients,
/// function values). A pure function of the case; no generator state survives a case.
#[derive(Clone)]
pub struct Expand(pub u64);
impl Expand {
    pub fn new(seed: u64, stream: u64) -> Self {
        Expand(seed ^ stream.wrapping_mul(0x9e3779b97f4a7c15).rotate_left(23))
    }
    pub fn next_u64(&mut self) -> u64 {
        self.0 = self.0.wrapping_add(0x9e3779b97f4a7c15);
        let mut z = self.0;
        z = (z ^ (z >> 30)).wrapping_mul(0xbf58476d1ce4e5b9);
        z = (z ^ (z >> 27)).wrapping_mul(0x94d049bb133111eb);
        z ^ (z >> 31)
    }
    pub fn next_u128(&mut self) -> u128 {
        ((self.next_u64() as u128) << 64) | self.next_u64() as u128
    }
    pub fn below(&mut self, n: usize) -> usize {
        (self.next_u64() % n as u64) as usize
    }
}

/// dispatches a generic function `f::<E, H>(args..)` on a `Ty`
#[macro_export]
macro_rules! with_types {
    ($ty:expr, $f:ident ( $($a:expr),* )) => {{
        use vf_repo::prelude::{B62, B64, B128, Q, C};
        use winter_crypto::hashers as hs;
        use $crate::cfg::{FieldId as Fi, HashId as Hi};
        let ty: $crate::cfg::Ty = $ty;
        match (ty.field, ty.hash, ty.ext) {
            (Fi::F62, Hi::Blake3_256, 1) => $f::<B62, hs::Blake3_256<B62>>($($a),*),
            (Fi::F62, Hi::Blake3_256, 2) => $f::<Q<B62>, hs::Blake3_256<B62>>($($a),*),
            (Fi::F62, Hi::Blake3_256, 3) => $f::<C<B62>, hs::Blake3_256<B62>>($($a),*),
            (Fi::F62, Hi::Blake3_192, 1) => $f::<B62, hs::Blake3_192<B62>>($($a),*),
            (Fi::F62, Hi::Blake3_192, 2) => $f::<Q<B62>, hs::Blake3_192<B62>>($($a),*),
            (Fi::F62, Hi::Blake3_192, 3) => $f::<C<B62>, hs::Blake3_192<B62>>($($a),*),
            (Fi::F62, Hi::Sha3_256, 1) => $f::<B62, hs::Sha3_256<B62>>($($a),*),
            (Fi::F62, Hi::Sha3_256, 2) => $f::<Q<B62>, hs::Sha3_256<B62>>($($a),*),
            (Fi::F62, Hi::Sha3_256, 3) => $f::<C<B62>, hs::Sha3_256<B62>>($($a),*),
            (Fi::F62, Hi::Rp62_248, 1) => $f::<B62, hs::Rp62_248>($($a),*),
            (Fi::F62, Hi::Rp62_248, 2) => $f::<Q<B62>, hs::Rp62_248>($($a),*),
            (Fi::F62, Hi::Rp62_248, 3) => $f::<C<B62>, hs::Rp62_248>($($a),*),
            (Fi::F64, Hi::Blake3_256, 1) => $f::<B64, hs::Blake3_256<B64>>($($a),*),
            (Fi::F64, Hi::Blake3_256, 2) => $f::<Q<B64>, hs::Blake3_256<B64>>($($a),*),
            (Fi::F64, Hi::Blake3_256, 3) => $f::<C<B64>, hs::Blake3_256<B64>>($($a),*),
            (Fi::F64, Hi::Blake3_192, 1) => $f::<B64, hs::Blake3_192<B64>>($($a),*),
            (Fi::F64, Hi::Blake3_192, 2) => $f::<Q<B64>, hs::Blake3_192<B64>>($($a),*),
            (Fi::F64, Hi::Blake3_192, 3) => $f::<C<B64>, hs::Blake3_192<B64>>($($a),*),
            (Fi::F64, Hi::Sha3_256, 1) => $f::<B64, hs::Sha3_256<B64>>($($a),*),
            (Fi::F64, Hi::Sha3_256, 2) => $f::<Q<B64>, hs::Sha3_256<B64>>($($a),*),
            (Fi::F64, Hi::Sha3_256, 3) => $f::<C<B64>, hs::Sha3_256<B64>>($($a),*),
            (Fi::F64, Hi::Rp64_256, 1) => $f::<B64, hs::Rp64_256>($($a),*),
            (Fi::F64, Hi::Rp64_256, 2) => $f::<Q<B64>, hs::Rp64_256>($($a),*),
            (Fi::F64, Hi::Rp64_256, 3) => $f::<C<B64>, hs::Rp64_256>($($a),*),
            (Fi::F64, Hi::RpJive64_256, 1) => $f::<B64, hs::RpJive64_256>($($a),*),
            (Fi::F64, Hi::RpJive64_256, 2) => $f::<Q<B64>, hs::RpJive64_256>($($a),*),
            (Fi::F64, Hi::RpJive64_256, 3) => $f::<C<B64>, hs::RpJive64_256>($($a),*),
            (Fi::F128, Hi::Blake3_256, 1) => $f::<B128, hs::Blake3_256<B128>>($($a),*),
            (Fi::F128, Hi::Blake3_256, 2) => $f::<Q<B128>, hs::Blake3_256<B128>>($($a),*),
            (Fi::F128, Hi::Blake3_192, 1) => $f::<B128, hs::Blake3_192<B128>>($($a),*),
            (Fi::F128, Hi::Blake3_192, 2) => $f::<Q<B128>, hs::Blake3_192<B128>>($($a),*),
            (Fi::F128, Hi::Sha3_256, 1) => $f::<B128, hs::Sha3_256<B128>>($($a),*),
            (Fi::F128, Hi::Sha3_256, 2) => $f::<Q<B128>, hs::Sha3_256<B128>>($($a),*),
            _ => Err(vf_core::Fail::new("harness/no-such-type", format!("{:?}", ty))),
        }
    }};
}

/// dispatches a generic function `f::<E>(args..)` on (field, ext) only
#[macro_export]
macro_rules! with_elem {
    ($ty:expr, $f:ident ( $($a:expr),* )) => {{
        use vf_repo::prelude::{B62, B64, B128, Q, C};
        use $crate::cfg::FieldId as Fi;
        let ty: $crate::cfg::Ty = $ty;
        match (ty.field, ty.ext) {
            (Fi::F62, 1) => $f::<B62>($($a),*),
            (Fi::F62, 2) => $f::<Q<B62>>($($a),*),
            (Fi::F62, 3) => $f::<C<B62>>($($a),*),
            (Fi::F64, 1) => $f::<B64>($($a),*),
            (Fi::F64, 2) => $f::<Q<B64>>($($a),*),
            (Fi::F64, 3) => $f::<C<B64>>($($a),*),
            (Fi::F128, 1) => $f::<B128>($($a),*),
            (Fi::F128, 2) => $f::<Q<B128>>($($a),*),
            _ => Err(vf_core::Fail::new("harness/no-such-type", format!("{:?}", ty))),
        }
    }};
}
