//! C05 — FRI soundness against adversarial provers.
//!
//! `AdvFri` (adv.rs) plays a cheating prover against the real `FriVerifier` / `DefaultVerifierChannel`.
//! The verifier is handed exactly what a verifier has: the commitments, the proof bytes, the values of
//! the function at the positions *its own coin* yields after `FriVerifier::new`.
//!
//! Oracle: the verifier must not return `Ok` unless the adversary's ground truth (`adv::Verdict`) shows
//! that, at the actual query positions, every opened row is the committed one, every folding step is
//! consistent with the true challenges, the remainder sent is the committed one, has an allowed size and
//! agrees with the last folded values -- i.e. nothing a verifier could see is wrong (luck, computed
//! exactly). A panic is "not accepted" (label only; C06 owns panics).
//!
//! One sub-check per strategy family so that a defect in one family (F5: remainder chosen after the
//! queries) does not stop the exploration of the others.

use proptest::prelude::*;
use serde::{Deserialize, Serialize};
use vf_core::{catch, CheckResult, Fail, Obs, Run, SubCheck, Tier, X};
use vf_repo::prelude::*;
use winter_crypto::{DefaultRandomCoin, ElementHasher, RandomCoin};
use winter_fri::{DefaultVerifierChannel, FriOptions, FriProof, FriVerifier};
use winter_math::{FieldElement, StarkField};
use winter_utils::{ByteReader, Deserializable, SliceReader};

use crate::adv::{self, OpenMode, Plan, RemMode, Structure};
use crate::c15::{de_variant, elem, variant, Outcome};
use crate::cfg::{self, Expand, Sched, Ty};
use crate::model;

#[derive(Serialize, Deserialize, Clone, Debug, PartialEq, Eq)]
pub enum FuncKind {
    /// independent uniform values
    Random,
    /// polynomial of degree bound+1 .. domain-1 (selector)
    HighDegree(u16),
    /// x^(bound+1) * Q(x) with deg Q <= bound: too high a degree, and every coefficient below x^(bound+1) is zero
    /// (so the untruncated remainder starts with as many zeros as a remainder within the bound has coefficients)
    HighDegreeLowZeros(u16),
    /// polynomial within the bound, changed on max(1, D >> log_inv_fraction) drawn positions
    Corrupted { log_inv_fraction: u8 },
}

#[derive(Serialize, Deserialize, Clone, Debug, PartialEq, Eq)]
pub enum StructKind {
    Omit,
    Duplicate,
    Swap,
}

#[derive(Serialize, Deserialize, Clone, Debug, PartialEq, Eq)]
pub enum Strat {
    HonestFold,
    LongRemainder { extra: u8 },
    RemainderAfterQueries,
    /// like RemainderAfterQueries, but the remainder commitment is not sent at all (the coin is never
    /// reseeded with it): nothing binds the remainder
    RemainderNoCommitment,
    /// committed layers l >= at come from the honest chain of a polynomial within the bound
    SwitchLayer { at: u16 },
    /// trees commit to the chain of f, rows are opened from the chain of the low-degree polynomial
    OpenOtherChain { from: u16 },
    /// rows of one layer are solved after the queries to fit both neighbours
    UnboundLayer { layer: u16 },
    /// like UnboundLayer, and the proof claims more partitions than that layer has rows (the partition
    /// count is not committed to and may be chosen after the queries): every queried position of the layer
    /// is mapped to the same leaf index, so the opening cannot be authenticated at all
    UnboundLayerManyPartitions { layer: u16, over: u8 },
    /// fold one layer with a different challenge; `crafted`: the function is built so that this wrong
    /// challenge makes everything after it low-degree
    WrongAlpha { layer: u16, alpha: [X; 3], crafted: bool },
    Structure { kind: StructKind, a: u16, b: u16, commitment_too: bool },
}

impl Strat {
    fn name(&self) -> &'static str {
        match self {
            Strat::HonestFold => "honest-fold",
            Strat::LongRemainder { .. } => "long-remainder",
            Strat::RemainderAfterQueries => "remainder-after-queries",
            Strat::RemainderNoCommitment => "remainder-no-commitment",
            Strat::SwitchLayer { .. } => "switch-layer",
            Strat::OpenOtherChain { .. } => "open-other-chain",
            Strat::UnboundLayer { .. } => "unbound-layer",
            Strat::UnboundLayerManyPartitions { .. } => "unbound-layer-many-partitions",
            Strat::WrongAlpha { crafted: true, .. } => "wrong-alpha-crafted",
            Strat::WrongAlpha { .. } => "wrong-alpha",
            Strat::Structure { kind: StructKind::Omit, .. } => "omit-layer",
            Strat::Structure { kind: StructKind::Duplicate, .. } => "duplicate-layer",
            Strat::Structure { kind: StructKind::Swap, .. } => "swap-layers",
        }
    }
}

#[derive(Serialize, Deserialize, Clone, Debug)]
pub struct AdvCase {
    pub ty: Ty,
    pub sched: Sched,
    pub num_queries: u16,
    pub nonce: u64,
    pub func: FuncKind,
    pub seed: u64,
    pub strat: Strat,
}

#[derive(Clone, Copy, PartialEq, Eq)]
pub enum Family {
    HonestFold,
    RemainderAfterQueries,
    SwitchLayer,
    Tamper,
    WrongAlpha,
    Structure,
}

pub struct Adv(pub Family);

fn func_strategy() -> BoxedStrategy<FuncKind> {
    prop_oneof![
        3 => Just(FuncKind::Random),
        3 => any::<u16>().prop_map(FuncKind::HighDegree),
        // exactly bound + 1
        1 => Just(FuncKind::HighDegree(0)),
        2 => any::<u16>().prop_map(FuncKind::HighDegreeLowZeros),
        4 => (0u8..=14).prop_map(|l| FuncKind::Corrupted { log_inv_fraction: l }),
    ]
    .boxed()
}

fn el_strategy() -> BoxedStrategy<[X; 3]> {
    prop_oneof![
        1 => Just([X(0), X(0), X(0)]),
        1 => Just([X(1), X(0), X(0)]),
        4 => (any::<u128>(), any::<u128>(), any::<u128>()).prop_map(|(a, b, c)| [X(a), X(b), X(c)]),
    ]
    .boxed()
}

fn strat_strategy(fam: Family) -> BoxedStrategy<Strat> {
    match fam {
        Family::HonestFold => prop_oneof![3 => Just(Strat::HonestFold), 2 => (1u8..=7).prop_map(|extra| Strat::LongRemainder { extra })].boxed(),
        Family::RemainderAfterQueries => prop_oneof![2 => Just(Strat::RemainderAfterQueries), 1 => Just(Strat::RemainderNoCommitment)].boxed(),
        Family::SwitchLayer => any::<u16>().prop_map(|at| Strat::SwitchLayer { at }).boxed(),
        Family::Tamper => prop_oneof![
            1 => any::<u16>().prop_map(|from| Strat::OpenOtherChain { from }),
            // from the first layer on: every opened row belongs to the low-degree chain
            1 => Just(Strat::OpenOtherChain { from: 0 }),
            2 => any::<u16>().prop_map(|layer| Strat::UnboundLayer { layer }),
            1 => (any::<u16>(), 0u8..4).prop_map(|(layer, over)| Strat::UnboundLayerManyPartitions { layer, over }),
        ]
        .boxed(),
        Family::WrongAlpha => (any::<u16>(), el_strategy(), prop::bool::weighted(0.6))
            .prop_map(|(layer, alpha, crafted)| Strat::WrongAlpha { layer, alpha, crafted })
            .boxed(),
        Family::Structure => (
            prop_oneof![Just(StructKind::Omit), Just(StructKind::Duplicate), Just(StructKind::Swap)],
            any::<u16>(),
            any::<u16>(),
            any::<bool>(),
        )
            .prop_map(|(kind, a, b, commitment_too)| Strat::Structure { kind, a, b, commitment_too })
            .boxed(),
    }
}

impl SubCheck for Adv {
    type Case = AdvCase;
    fn name(&self) -> String {
        match self.0 {
            Family::HonestFold => "honest-fold",
            Family::RemainderAfterQueries => "remainder-after-queries",
            Family::SwitchLayer => "switch-layer",
            Family::Tamper => "tamper",
            Family::WrongAlpha => "wrong-alpha",
            Family::Structure => "structure",
        }
        .into()
    }
    fn cases(&self, tier: Tier) -> u64 {
        match self.0 {
            // every accepted case is shrunk by the engine (<= 400 re-executions) while F5 is open
            Family::RemainderAfterQueries => tier.pick(3_000, 20_000),
            Family::HonestFold => tier.pick(30_000, 300_000),
            _ => tier.pick(25_000, 200_000),
        }
    }
    fn watchdog_secs(&self) -> u64 {
        60
    }
    fn rule(&self) -> String {
        let what = match self.0 {
            Family::HonestFold => "honest folding and honest (truncated) remainder of a bad function; variant: remainder with 2..128 times more coefficients than allowed (agrees with the last layer everywhere, only its size is wrong)",
            Family::RemainderAfterQueries => "honest folding of a bad function; the commitment sent before the queries is to the truncated interpolant, the remainder sent afterwards is interpolated through the queried last-layer points (first `allowed size` of them when there are more)",
            Family::SwitchLayer => "layers below a drawn index come from the bad function, layers from that index on (index = #layers: only the remainder; index 0: the very first commitment) from the honest chain of a polynomial within the bound (the uncorrupted polynomial / the truncation / an unrelated one)",
            Family::Tamper => "values changed after commitment: (a) rows opened from the chain of a polynomial within the bound while the trees commit to the bad function's chain, from a drawn layer on; (b) one layer 'unbound': its rows are solved after the queries so that the queried entries show what the previous layer implies and the row folds to what the next layer / the remainder shows (all other layers consistent)",
            Family::WrongAlpha => "one layer folded with a challenge different from the drawn one; crafted variant: f(x) = A(y^N) + y B(y^N), y = x^(N^i), A = low - alpha' B, so that the wrong challenge at layer i makes every later layer and the remainder perfectly low-degree (only the consistency check of that one folding step can notice)",
            Family::Structure => "honest folding of a bad function, then layer i omitted / duplicated / layers i,j swapped in the proof (and optionally in the commitment list before the challenges and positions are derived from it)",
        };
        format!("{what}; functions: uniformly random / polynomial of degree bound+1..domain-1 / polynomial within the bound changed on 1 .. D/2 positions (values and coefficients expanded from a drawn 64-bit seed by a fixed mixing function, a pure function of the case); schedules well-formed by construction, D = 2^3..2^10 mostly, up to 2^12 quick / 2^14 thorough, folding 2/4/8/16, 1..255 queries from the verifier's coin (duplicates kept), 33 element-type x hasher combinations (Rescue sampled 1:6); non-trivial = function random, beyond the degree bound, or changed on >= 1/4 of the domain; distinct by (strategy, folding, #layers, remainder size, element type, function class)")
    }
    fn required_labels(&self, _t: Tier) -> Vec<String> {
        let mut v: Vec<String> = vec!["func=random".into(), "func=high-degree".into(), "func=corrupted".into(), "layers=1".into(), "layers>=3".into(), "duplicate-positions".into()];
        if matches!(self.0, Family::HonestFold | Family::RemainderAfterQueries) {
            v.push("layers=0".into());
        }
        match self.0 {
            Family::HonestFold => {
                v.push("strategy=honest-fold".into());
                v.push("strategy=long-remainder".into());
            },
            Family::RemainderAfterQueries => {
                v.push("last-positions<=remainder-size".into());
                v.push("last-positions>remainder-size".into());
            },
            Family::SwitchLayer => {
                v.push("switch=first-commitment".into());
                v.push("switch=remainder-only".into());
                v.push("switch=inner-layer".into());
                v.push("accepted-legit".into());
            },
            Family::Tamper => {
                v.push("strategy=open-other-chain".into());
                v.push("strategy=unbound-layer".into());
            },
            Family::WrongAlpha => {
                v.push("strategy=wrong-alpha".into());
                v.push("strategy=wrong-alpha-crafted".into());
            },
            Family::Structure => {
                v.push("strategy=omit-layer".into());
                v.push("strategy=duplicate-layer".into());
                v.push("strategy=swap-layers".into());
            },
        }
        v
    }
    fn strategy(&self, tier: Tier) -> BoxedStrategy<AdvCase> {
        let max = cfg::max_log_domain(tier);
        // families that manipulate committed layers get at least one
        let ml = match self.0 {
            Family::HonestFold | Family::RemainderAfterQueries => 0,
            _ => 1,
        };
        // swapping needs two layers
        let ml2 = if self.0 == Family::Structure { 2 } else { ml };
        let sched = prop_oneof![
            2 => cfg::sched_strategy_layers(ml, 3, 5),
            3 => cfg::sched_strategy_layers(ml, 3, 8),
            2 => cfg::sched_strategy_layers(ml2, 3, 8),
            3 => cfg::sched_strategy_layers(ml2, 4, 10),
            1 => cfg::sched_strategy_layers(ml, 9, max),
        ];
        let queries = prop_oneof![2 => 1u16..=4, 3 => 5u16..=40, 3 => 41u16..=255];
        (cfg::ty_strategy(6, 1), sched, queries, any::<u64>(), func_strategy(), any::<u64>(), strat_strategy(self.0))
            .prop_map(|(ty, sched, num_queries, nonce, func, seed, strat)| AdvCase { ty, sched, num_queries, nonce, func, seed, strat })
            .boxed()
    }
    fn check(&self, c: &AdvCase, obs: &mut Obs) -> CheckResult {
        crate::with_types!(c.ty, adv_generic(c, obs))
    }
}

/// drives the real verifier; the positions are the ones its own coin yields after the commit phase
fn drive<E, H>(out: &adv::AdvOut<E, H>, s: &Sched, f: &[E], num_queries: usize, nonce: u64) -> Outcome
where
    E: FieldElement,
    H: ElementHasher<BaseField = E::BaseField>,
{
    drive_with_bound(out, s, f, num_queries, nonce, s.bound())
}

/// like `drive`, with the degree bound handed to FriVerifier::new chosen by the caller
fn drive_with_bound<E, H>(out: &adv::AdvOut<E, H>, s: &Sched, f: &[E], num_queries: usize, nonce: u64, bound: usize) -> Outcome
where
    E: FieldElement,
    H: ElementHasher<BaseField = E::BaseField>,
{
    let r = catch(|| -> Result<(), (&'static str, String)> {
        let mut reader = SliceReader::new(&out.proof_bytes);
        let proof = FriProof::read_from(&mut reader).map_err(|e| ("read_from", de_variant(&e)))?;
        if reader.has_more_bytes() {
            return Err(("read_from", "UnconsumedBytes".into()));
        }
        let options = FriOptions::new(s.blowup(), s.folding(), s.rmd());
        let mut channel = DefaultVerifierChannel::<E, H>::new(proof, out.commitments.clone(), s.domain(), s.folding())
            .map_err(|e| ("channel", de_variant(&e)))?;
        let mut coin = DefaultRandomCoin::<H>::new(&[]);
        let verifier = FriVerifier::<E, DefaultVerifierChannel<E, H>, H, DefaultRandomCoin<H>>::new(&mut channel, &mut coin, options, bound)
            .map_err(|e| ("new", variant(&e)))?;
        let positions = coin.draw_integers(num_queries, s.domain(), nonce).map_err(|_| ("coin", "draw_integers".to_string()))?;
        if positions != out.positions {
            // the coin the verifier has advanced during the commit phase does not give the positions that
            // follow from absorbing every commitment received, in order (the documented commit phase)
            return Err(("transcript", "positions-differ".into()));
        }
        let claimed: Vec<E> = positions.iter().map(|&p| f[p]).collect();
        verifier.verify(&mut channel, &claimed, &positions).map_err(|e| ("verify", variant(&e)))
    });
    match r {
        Ok(Ok(())) => Outcome::Accepted,
        Ok(Err((st, e))) => Outcome::Rejected(st, e),
        Err(p) => Outcome::Panicked(p),
    }
}

fn random_poly<E: FieldElement>(x: &mut Expand, len: usize) -> Vec<E>
where
    E::BaseField: FA,
{
    let mut c: Vec<E> = (0..len).map(|_| elem::<E>(x)).collect();
    if let Some(last) = c.last_mut() {
        if *last == E::ZERO {
            *last = E::ONE;
        }
    }
    c
}

fn nonzero<E: FieldElement>(x: &mut Expand) -> E
where
    E::BaseField: FA,
{
    let v = elem::<E>(x);
    if v == E::ZERO {
        E::ONE
    } else {
        v
    }
}

fn adv_generic<E, H>(c: &AdvCase, obs: &mut Obs) -> CheckResult
where
    E: FieldElement,
    E::BaseField: FA,
    H: ElementHasher<BaseField = E::BaseField>,
{
    let s = &c.sched;
    s.well_formed().map_err(|e| Fail::new("harness/ill-formed-schedule", format!("{s:?}: {e}")))?;
    let (domain, n, t, big_l) = (s.domain(), s.folding(), s.t(), s.layers as usize);
    let offset = E::BaseField::GENERATOR;
    let q = (c.num_queries as usize).clamp(1, 255.min(domain - 1));
    let mut x = Expand::new(c.seed, 3);

    // ---- strategy, adapted to the schedule ----------------------------------------------------------
    let mut strat = c.strat.clone();
    let needs_layers = matches!(strat, Strat::OpenOtherChain { .. } | Strat::UnboundLayer { .. } | Strat::UnboundLayerManyPartitions { .. } | Strat::WrongAlpha { .. } | Strat::Structure { .. });
    if needs_layers && big_l == 0 {
        obs.label("degraded=no-layers");
        strat = match strat {
            Strat::Structure { .. } | Strat::WrongAlpha { .. } => Strat::HonestFold,
            _ => Strat::SwitchLayer { at: 0 },
        };
    }
    if let Strat::Structure { kind: StructKind::Swap, a, b, commitment_too } = strat {
        if big_l < 2 {
            obs.label("degraded=one-layer");
            strat = Strat::Structure { kind: StructKind::Duplicate, a, b, commitment_too };
        }
    }

    // ---- the function ---------------------------------------------------------------------------------
    let crafted_layer = match &strat {
        Strat::WrongAlpha { layer, crafted: true, .. } => Some(vf_core::pick_index(*layer, big_l)),
        _ => None,
    };
    let mut far = true;
    let mut luck_log2: f64 = 62.0; // -log2 of the chance that a far function looks fine: field coincidences only
    let (f, g, func_label): (Vec<E>, Vec<E>, &'static str) = if let (Some(i), Strat::WrongAlpha { alpha, .. }) = (crafted_layer, &strat) {
        // layer-i function phi(z) = A(z^N) + z B(z^N) with A = low - alpha' B
        let fld = ref_field::<E>();
        let mut a_ref = [0u128; 3];
        for k in 0..fld.deg {
            a_ref[k] = alpha[k].0 % fld.fp.p;
        }
        let alpha_w: E = from_el(&a_ref);
        let d_i = s.layer_domain(i);
        let rows_i = d_i / n;
        let t_next = (t >> (i * s.log_n as usize)) / n;
        let b: Vec<E> = random_poly(&mut x, rows_i);
        let low: Vec<E> = random_poly(&mut x, t_next.max(1));
        let mut coeffs = vec![E::ZERO; d_i];
        for m in 0..rows_i {
            let lo = if m < low.len() { low[m] } else { E::ZERO };
            coeffs[n * m] = lo - alpha_w * b[m];
            coeffs[n * m + 1] = b[m];
        }
        let layer_i = model::eval_coset(&coeffs, d_i, offset);
        let f: Vec<E> = (0..domain).map(|j| layer_i[j % d_i]).collect();
        // g unused by this strategy
        (f.clone(), f, "high-degree")
    } else {
        match &c.func {
            FuncKind::Random => {
                let f: Vec<E> = (0..domain).map(|_| elem::<E>(&mut x)).collect();
                let g = model::eval_coset(&random_poly::<E>(&mut x, t), domain, offset);
                (f, g, "random")
            },
            FuncKind::HighDegree(sel) => {
                let deg = t + vf_core::pick_index(*sel, domain - t);
                let coeffs: Vec<E> = random_poly(&mut x, deg + 1);
                let f = model::eval_coset(&coeffs, domain, offset);
                let g = model::eval_coset(&coeffs[..t], domain, offset);
                (f, g, "high-degree")
            },
            FuncKind::HighDegreeLowZeros(sel) => {
                // degree t .. 2t - 1 (the domain has at least 2t points: blowup >= 2)
                let deg = t + vf_core::pick_index(*sel, t.min(domain - t));
                let mut coeffs: Vec<E> = random_poly(&mut x, deg + 1);
                for c in coeffs.iter_mut().take(t) {
                    *c = E::ZERO;
                }
                let f = model::eval_coset(&coeffs, domain, offset);
                let g = model::eval_coset(&random_poly::<E>(&mut x, t), domain, offset);
                (f, g, "high-degree-low-zeros")
            },
            FuncKind::Corrupted { log_inv_fraction } => {
                let g = model::eval_coset(&random_poly::<E>(&mut x, t), domain, offset);
                let count = (domain >> (*log_inv_fraction).max(1)).max(1);
                let mut f = g.clone();
                let mut touched = std::collections::BTreeSet::new();
                for _ in 0..count {
                    let p = x.below(domain);
                    if touched.insert(p) {
                        f[p] += nonzero::<E>(&mut x);
                    }
                }
                let delta = touched.len() as f64 / domain as f64;
                far = delta >= 0.25 && delta <= (1.0 - 1.0 / s.blowup() as f64) / 2.0;
                // a query misses every changed row of the first layer with probability 1 - kappa
                let rows0 = domain / n.min(domain);
                let rows_touched: std::collections::BTreeSet<usize> = touched.iter().map(|p| p % rows0).collect();
                let kappa = if big_l == 0 { delta } else { rows_touched.len() as f64 / rows0 as f64 };
                luck_log2 = if kappa >= 1.0 { 62.0 } else { -(1.0 - kappa).log2() * q as f64 };
                (f, g, "corrupted")
            },
        }
    };

    // ---- the plan ---------------------------------------------------------------------------------------
    let mut plan = Plan::honest(f.clone(), q, c.nonce);
    match &strat {
        Strat::HonestFold => {},
        Strat::LongRemainder { extra } => {
            // at least twice the allowed size, at most the full interpolant, at most 65535 bytes on the wire
            let mut e = (*extra).clamp(1, s.log_blowup);
            while e > 1 && (s.rem_size() << e) * E::ELEMENT_BYTES > 65535 {
                e -= 1;
            }
            plan.remainder = RemMode::Long { extra: e };
        },
        Strat::RemainderAfterQueries => plan.remainder = RemMode::AfterQueries,
        Strat::RemainderNoCommitment => {
            plan.remainder = RemMode::AfterQueries;
            plan.omit_rem_commitment = true;
        },
        Strat::SwitchLayer { at } => {
            let at = vf_core::pick_index(*at, big_l + 1);
            plan.g = Some(g.clone());
            plan.switch_at = Some(at);
            obs.label(if at == 0 { "switch=first-commitment" } else if at == big_l { "switch=remainder-only" } else { "switch=inner-layer" });
        },
        Strat::OpenOtherChain { from } => {
            plan.g = Some(g.clone());
            plan.open = OpenMode::OtherChain { from: vf_core::pick_index(*from, big_l) };
        },
        Strat::UnboundLayer { layer } => {
            let l = vf_core::pick_index(*layer, big_l);
            plan.g = Some(g.clone());
            plan.switch_at = Some(l + 1);
            plan.open = OpenMode::Unbound { layer: l };
            obs.label(format!("unbound={}", if l == 0 { "first" } else if l + 1 == big_l { "last" } else { "middle" }));
        },
        Strat::UnboundLayerManyPartitions { layer, over } => {
            let l = vf_core::pick_index(*layer, big_l);
            plan.g = Some(g.clone());
            plan.switch_at = Some(l + 1);
            plan.open = OpenMode::Unbound { layer: l };
            // rows of layer l = layer domain / folding factor; claim 2^(1 + over) times as many partitions,
            // or (over = 3) the largest count the format can carry without overflowing a usize
            let rows = s.layer_domain(l) / n;
            plan.log_partitions = if *over == 3 { 62 } else { (rows.ilog2() as u8) + 1 + *over };
            obs.label(format!("unbound+partitions={}", if l == 0 { "first" } else if l + 1 == big_l { "last" } else { "middle" }));
        },
        Strat::WrongAlpha { layer, alpha, .. } => {
            let fld = ref_field::<E>();
            let mut a_ref = [0u128; 3];
            for k in 0..fld.deg {
                a_ref[k] = alpha[k].0 % fld.fp.p;
            }
            plan.wrong_alpha = Some((vf_core::pick_index(*layer, big_l), from_el(&a_ref)));
        },
        Strat::Structure { kind, a, b, commitment_too } => {
            let i = vf_core::pick_index(*a, big_l);
            plan.structure = match kind {
                StructKind::Omit => Structure::Omit { layer: i, commitment_too: *commitment_too },
                StructKind::Duplicate => Structure::Duplicate { layer: i, commitment_too: *commitment_too },
                StructKind::Swap => {
                    let j = (i + 1 + vf_core::pick_index(*b, big_l - 1)) % big_l;
                    Structure::Swap { a: i, b: j, commitment_too: *commitment_too }
                },
            };
        },
    }

    obs.label(format!("strategy={}", strat.name()));
    obs.label(format!("func={func_label}"));
    obs.label(format!("elem={}", c.ty.label()));
    obs.label(format!("hash={:?}", c.ty.hash));
    obs.label(format!("folding={n}"));
    obs.label(if big_l >= 3 { "layers>=3".to_string() } else { format!("layers={big_l}") });
    obs.label(format!("rem-size=2^{}", s.log_rem));
    obs.label(if luck_log2 >= 40.0 { "luck<2^-40" } else { "luck>=2^-40(decided-exactly)" });

    // ---- play ---------------------------------------------------------------------------------------------
    let out = adv::run::<E, H>(s, &plan);
    let mut sorted = out.positions.clone();
    sorted.sort();
    sorted.dedup();
    if sorted.len() < out.positions.len() {
        obs.label("duplicate-positions");
    }
    if matches!(strat, Strat::RemainderAfterQueries | Strat::RemainderNoCommitment) {
        obs.label(if out.last_positions <= s.rem_size() { "last-positions<=remainder-size" } else { "last-positions>remainder-size" });
    }
    let verdict = &out.verdict;
    let outcome = drive::<E, H>(&out, s, &f, q, c.nonce);
    obs.comparisons += 1;
    obs.nontrivial_if(far);
    obs.distinct_key(vf_core::hash_of(&(strat.name(), s.log_n, s.layers, s.log_rem, c.ty.field, c.ty.ext, func_label)));
    let describe = || {
        format!(
            "{} {:?} on {s:?} (D={domain}, bound={}, N={n}, layers={big_l}, remainder size {}), function {:?} seed {:#x}, {q} queries nonce {}: positions {:?} ({} distinct in the last layer); ground truth {verdict:?}; remainder sent {} committed {}",
            c.ty.label(),
            c.ty.hash,
            s.bound(),
            s.rem_size(),
            c.func,
            c.seed,
            c.nonce,
            out.positions,
            out.last_positions,
            if out.rem_sent == out.rem_committed { "==" } else { "!=" },
            if out.rem_sent == out.rem_committed { "(same)" } else { "(different polynomial)" },
        )
    };
    match outcome {
        Outcome::Accepted => {
            if verdict.legit() {
                // nothing a verifier could have seen was wrong at these positions
                obs.label(if verdict.trailing_duplicate { "accepted-legit(trailing-duplicate-ignored)" } else { "accepted-legit" });
                if std::env::var("VF_FRI_DEBUG").is_ok() && !matches!(strat, Strat::SwitchLayer { .. } | Strat::UnboundLayer { .. } | Strat::UnboundLayerManyPartitions { .. } | Strat::OpenOtherChain { .. }) {
                    eprintln!("DEBUG accepted-legit: {}", describe());
                }
                Ok(())
            } else {
                obs.label(format!("ACCEPTED-NOT-LEGIT:{}", strat.name()));
                Err(Fail::new(
                    if strat.name() == self_family_name(&strat) { "accepted".to_string() } else { format!("{}/accepted", strat.name()) },
                    format!("verifier accepted although {}: {}", verdict.first_bad.clone().unwrap_or_default(), describe()),
                ))
            }
        },
        Outcome::Rejected(stage, what) => {
            if stage == "transcript" {
                return Err(Fail::new(
                    "transcript/positions-differ",
                    format!("after FriVerifier::new the public coin does not give the positions that follow from absorbing every received commitment in order: {}", describe()),
                ));
            }
            obs.label(format!("rejected:{stage}:{what}"));
            // (a proof with a duplicated trailing layer may be refused for its shape)
            // (a proof that claims more partitions than a layer has rows cannot be authenticated whatever it
            // carries: refusing it is right even when the rows happen to equal the committed ones)
            let many_partitions = matches!(strat, Strat::UnboundLayerManyPartitions { .. });
            if many_partitions && verdict.legit() {
                obs.label("many-partitions:rows-equal-committed-ones");
            }
            if verdict.legit() && !verdict.trailing_duplicate && !many_partitions {
                return Err(Fail::new(
                    format!("legit-rejected/{what}"),
                    format!("every opened value, folding step and the remainder are consistent at the queried positions, yet the verifier rejected ({stage}: {what}): {}", describe()),
                ));
            }
            Ok(())
        },
        Outcome::Panicked(p) => {
            obs.label(format!("panic:{}", p.key()));
            Ok(())
        },
    }
}

/// sub-check name when the strategy is the family's only/primary one
fn self_family_name(s: &Strat) -> &'static str {
    match s {
        Strat::HonestFold => "honest-fold",
        Strat::RemainderAfterQueries => "remainder-after-queries",
        Strat::RemainderNoCommitment => "remainder-after-queries",
        Strat::SwitchLayer { .. } => "switch-layer",
        Strat::WrongAlpha { crafted: false, .. } => "wrong-alpha",
        _ => "",
    }
}

// DEGREE BOUNDS THAT ARE NOT OF THE FORM 2^k - 1
// ================================================================================================

#[derive(Serialize, Deserialize, Clone, Debug)]
pub struct CutCase {
    pub ty: Ty,
    pub sched: Sched,
    pub num_queries: u16,
    pub nonce: u64,
    pub seed: u64,
    /// selects the claimed bound among the admissible ones below the schedule's 2^k - 1
    pub cut_sel: u16,
    /// selects the degree of the polynomial between the claimed bound + 1 and 2^k - 1
    pub deg_sel: u16,
}

pub struct ReducedBound;

fn cut_generic<E, H>(c: &CutCase, obs: &mut Obs) -> CheckResult
where
    E: FieldElement,
    E::BaseField: FA,
    H: ElementHasher<BaseField = E::BaseField>,
{
    let s = &c.sched;
    s.well_formed().map_err(|e| Fail::new("harness/ill-formed-schedule", format!("{s:?}: {e}")))?;
    let (domain, t, big_l) = (s.domain(), s.t(), s.layers as usize);
    let offset = E::BaseField::GENERATOR;
    let q = (c.num_queries as usize).clamp(1, 255.min(domain - 1));
    let mut x = Expand::new(c.seed, 5);
    // claimed bound t' - 1 with t' a multiple of N^L (so that every folding step divides it), t/2 < t' < t
    // (the verifier derives the same domain from it: next_power_of_two(t' - 1) = t)
    let unit = 1usize << (s.log_n as usize * big_l);
    let steps = (t / 2) / unit; // number of admissible t' = t - j * unit with t' > t / 2, j = 1 .. steps - 1 (t' = t/2 excluded)
    if steps < 2 {
        obs.label("excluded:no-admissible-bound-below");
        return Ok(());
    }
    let j = 1 + vf_core::pick_index(c.cut_sel, steps - 1);
    let t_claimed = t - j * unit;
    debug_assert!(t_claimed > t / 2 && t_claimed < t);
    let bound = t_claimed - 1;
    if bound.next_power_of_two() != t {
        obs.label("excluded:domain-would-differ");
        return Ok(());
    }
    // a polynomial whose degree exceeds the claimed bound but not the schedule's 2^k - 1
    let deg = t_claimed + vf_core::pick_index(c.deg_sel, t - t_claimed);
    let coeffs: Vec<E> = random_poly(&mut x, deg + 1);
    let f = model::eval_coset(&coeffs, domain, offset);
    obs.label(format!("excess={}", if deg == t_claimed { "1" } else if deg == t - 1 { "max" } else { "between" }));
    obs.label(if big_l == 0 { "layers=0".to_string() } else { format!("layers>={}", big_l.min(2)) });
    // an honest prover of the 2^k schedule: every layer, every opening and the remainder are consistent
    let plan = Plan::honest(f.clone(), q, c.nonce);
    let out = adv::run::<E, H>(s, &plan);
    obs.nontrivial();
    match drive_with_bound(&out, s, &f, q, c.nonce, bound) {
        Outcome::Accepted => Err(Fail::new(
            "reduced-bound/accepted",
            format!(
                "{}: the evaluations of a polynomial of degree {deg} were accepted for the claimed degree bound {bound} ({s:?}, domain {domain}, {q} queries)",
                c.ty.label()
            ),
        )),
        Outcome::Rejected(stage, what) => {
            obs.label(format!("rejected:{stage}:{what}"));
            Ok(())
        },
        Outcome::Panicked(p) => {
            obs.label(format!("panic:{}", p.key()));
            Ok(())
        },
    }
}

impl SubCheck for ReducedBound {
    type Case = CutCase;
    fn name(&self) -> String {
        "reduced-bound".into()
    }
    fn cases(&self, tier: Tier) -> u64 {
        tier.pick(6_000, 120_000)
    }
    fn rule(&self) -> String {
        "a well-formed schedule for the bound 2^k - 1 and a claimed bound t' - 1 below it (t' a multiple of folding^layers, 2^(k-1) < t' < 2^k, so that the verifier derives the same domain); the function is a polynomial of degree t' .. 2^k - 1 proven honestly under the 2^k schedule (every layer, opening and the remainder consistent); oracle: FriVerifier::new(.., t' - 1) followed by verify must not accept; non-trivial = an admissible claimed bound exists".into()
    }
    fn required_labels(&self, _t: Tier) -> Vec<String> {
        ["excess=1", "excess=max", "layers=0", "layers>=2"].iter().map(|s| s.to_string()).collect()
    }
    fn strategy(&self, tier: Tier) -> BoxedStrategy<CutCase> {
        let max = tier.pick(10, 13);
        let sched = prop_oneof![2 => cfg::sched_strategy_layers(0, 3, 8), 2 => cfg::sched_strategy_layers(1, 4, 9), 1 => cfg::sched_strategy_layers(2, 5, max)];
        let queries = prop_oneof![2 => 1u16..=4, 3 => 5u16..=40, 1 => 41u16..=255];
        (cfg::ty_strategy(6, 1), sched, queries, any::<u64>(), any::<u64>(), any::<u16>(), any::<u16>())
            .prop_map(|(ty, sched, num_queries, nonce, seed, cut_sel, deg_sel)| CutCase { ty, sched, num_queries, nonce, seed, cut_sel, deg_sel })
            .boxed()
    }
    fn check(&self, c: &CutCase, obs: &mut Obs) -> CheckResult {
        crate::with_types!(c.ty, cut_generic(c, obs))
    }
}

pub fn run(run: &mut Run) {
    run.assume("field arithmetic of /repo is correct (C07/C08); the harness' fold / FFT / Lagrange routines are validated against vf_ref in C15");
    run.assume("hash collisions and coincidences of independent uniform field elements (probability <= 2^-60 per comparison) do not occur; apart from these, whether an acceptance is legitimate is computed exactly from the actual query positions");
    run.assume("for the structure family (layers omitted / duplicated / swapped) an acceptance is never counted as legitimate; its base strategy is honest folding of a bad function");
    run.assume("positions are drawn by the verifier's own coin after FriVerifier::new (DefaultRandomCoin over the commitments it received); the adversary predicts them by replaying the same coin");
    if let Err(e) = vf_ref::field::selfcheck() {
        run.inconclusive(format!("reference self-check failed: {e}"));
        return;
    }
    for fam in [Family::HonestFold, Family::SwitchLayer, Family::Tamper, Family::WrongAlpha, Family::Structure, Family::RemainderAfterQueries] {
        run.sub(&Adv(fam));
    }
    run.sub(&ReducedBound);
}
