//! AdvFri: an independent FRI prover assembled from public pieces only (hashers, `MerkleTree`,
//! `BatchMerkleProof::serialize_nodes`, the public coin) plus the harness' own folding. It writes the
//! `FriProof` wire format itself (`FriProof::new` / `FriProofLayer::new` are crate-private):
//!
//!   u8 #layers | per layer: u32 len, values (rows of N elements, in folded-position order),
//!   u32 len, BatchMerkleProof nodes | u16 len, remainder coefficients | u8 log2(#partitions)
//!
//! With `Plan::honest` it is a differential reference for `FriProver` (C15); with the other plans it is
//! the adversary of C05. Every run also returns the *ground truth* of what was committed, opened and
//! sent, from which `judge` decides exactly whether an acceptance would be legitimate.

use std::collections::BTreeMap;

use winter_crypto::{DefaultRandomCoin, ElementHasher, Hasher, MerkleTree, RandomCoin};
use winter_math::{FieldElement, StarkField};

use crate::cfg::Sched;
use crate::model::{fold_row, horner, interp_coset, lagrange_coeffs, model_fold_positions, own_fold, LayerGeom};

#[derive(Clone, Copy, Debug, PartialEq, Eq)]
pub enum RemMode {
    /// interpolate the last layer, keep the allowed number of coefficients, commit to them, send them
    Honest,
    /// commit to and send 2^extra times more coefficients than allowed (capped at the full interpolant)
    Long { extra: u8 },
    /// commit as `Honest`; after the positions are known send the polynomial of allowed size through
    /// the queried last-layer points
    AfterQueries,
}

#[derive(Clone, Copy, Debug, PartialEq, Eq)]
pub enum OpenMode {
    /// open what was committed
    Committed,
    /// from layer `from` on open the rows of the *other* chain although the trees commit to this one
    OtherChain { from: usize },
    /// rows of layer `layer` are solved after the queries so that they match both neighbours
    Unbound { layer: usize },
}

#[derive(Clone, Copy, Debug, PartialEq, Eq)]
pub enum Structure {
    None,
    Omit { layer: usize, commitment_too: bool },
    Duplicate { layer: usize, commitment_too: bool },
    Swap { a: usize, b: usize, commitment_too: bool },
}

pub struct Plan<E: FieldElement> {
    /// the function the verifier is asked about (its values are handed to `verify`)
    pub f: Vec<E>,
    /// a second function whose honest chain (true challenges) is computed alongside
    pub g: Option<Vec<E>>,
    /// committed layer l is taken from g's chain for l >= switch_at (layers() = only the remainder)
    pub switch_at: Option<usize>,
    /// fold f's chain at this layer with this challenge instead of the drawn one
    pub wrong_alpha: Option<(usize, E)>,
    pub remainder: RemMode,
    pub open: OpenMode,
    pub structure: Structure,
    pub num_queries: usize,
    pub nonce: u64,
    /// do not send the remainder commitment at all
    pub omit_rem_commitment: bool,
    /// log2 of the partition count written into the proof (layout-only metadata, not committed to; 0 = one
    /// partition as every honest prover writes)
    pub log_partitions: u8,
}

impl<E: FieldElement> Plan<E> {
    pub fn honest(f: Vec<E>, num_queries: usize, nonce: u64) -> Self {
        Plan {
            f,
            g: None,
            switch_at: None,
            wrong_alpha: None,
            remainder: RemMode::Honest,
            open: OpenMode::Committed,
            structure: Structure::None,
            num_queries,
            nonce,
            omit_rem_commitment: false,
            log_partitions: 0,
        }
    }
}

pub struct AdvOut<E: FieldElement, H: Hasher> {
    /// commitments as sent (layer roots, then the remainder commitment)
    pub commitments: Vec<H::Digest>,
    pub proof_bytes: Vec<u8>,
    /// positions a verifier derives from `commitments`
    pub positions: Vec<usize>,
    /// f at `positions`
    pub claimed: Vec<E>,
    /// exact verdict: would an acceptance be legitimate
    pub verdict: Verdict,
    pub rem_sent: Vec<E>,
    pub rem_committed: Vec<E>,
    /// number of distinct positions in the last (remainder) layer
    pub last_positions: usize,
}

#[derive(Clone, Debug, Default)]
pub struct Verdict {
    /// every opened row equals the committed row
    pub rows_bound: bool,
    /// remainder sent == remainder committed
    pub remainder_bound: bool,
    /// claimed values / folded values match the opened rows at every queried position of every layer
    pub foldings_consistent: bool,
    /// remainder within the allowed size
    pub remainder_size_ok: bool,
    /// remainder agrees with the folded values at every last-layer position
    pub remainder_consistent: bool,
    /// proof has the shape the schedule prescribes, or deviates only in a way that leaves everything the
    /// verifier reads untouched (see `trailing_duplicate`)
    pub structure_ok: bool,
    /// the last committed layer (and optionally its commitment) was duplicated right before the remainder:
    /// the verifier reads the same L layers, the same L roots and derives the same challenges
    pub trailing_duplicate: bool,
    /// first layer at which something the verifier can see is wrong (for labels)
    pub first_bad: Option<String>,
}
impl Verdict {
    pub fn legit(&self) -> bool {
        self.rows_bound
            && self.remainder_bound
            && self.foldings_consistent
            && self.remainder_size_ok
            && self.remainder_consistent
            && self.structure_ok
    }
    fn bad(&mut self, what: String) {
        if self.first_bad.is_none() {
            self.first_bad = Some(what);
        }
    }
}

fn commit_rows<E, H>(evals: &[E], geo: &LayerGeom<E::BaseField>) -> MerkleTree<H>
where
    E: FieldElement,
    H: ElementHasher<BaseField = E::BaseField>,
{
    let leaves: Vec<H::Digest> = (0..geo.rows).map(|r| H::hash_elements(&geo.row(evals, r))).collect();
    MerkleTree::<H>::new(leaves).expect("well-formed schedule: >= 2 rows, power of two")
}

/// what a verifier derives from the commitments it received: the challenges and the positions
pub fn replay_coin<E, H>(commitments: &[H::Digest], num_queries: usize, domain: usize, nonce: u64) -> (Vec<E>, Vec<usize>)
where
    E: FieldElement,
    H: ElementHasher<BaseField = E::BaseField>,
{
    let mut coin = DefaultRandomCoin::<H>::new(&[]);
    let mut alphas = vec![];
    for c in commitments {
        coin.reseed(*c);
        alphas.push(coin.draw::<E>().expect("alpha"));
    }
    let positions = coin.draw_integers(num_queries, domain, nonce).expect("positions");
    (alphas, positions)
}

pub fn encode_proof<E: FieldElement>(layers: &[(Vec<u8>, Vec<u8>)], remainder: &[E], log_partitions: u8) -> Vec<u8> {
    let mut out = vec![layers.len() as u8];
    for (values, paths) in layers {
        out.extend((values.len() as u32).to_le_bytes());
        out.extend(values);
        out.extend((paths.len() as u32).to_le_bytes());
        out.extend(paths);
    }
    let mut rb = vec![];
    for c in remainder {
        c.write_into(&mut rb);
    }
    out.extend((rb.len() as u16).to_le_bytes());
    out.extend(rb);
    out.push(log_partitions);
    out
}

/// Runs the adversary described by `plan` on schedule `s`.
pub fn run<E, H>(s: &Sched, plan: &Plan<E>) -> AdvOut<E, H>
where
    E: FieldElement,
    H: ElementHasher<BaseField = E::BaseField>,
{
    let n = s.folding();
    let big_l = s.layers as usize;
    let offset = E::BaseField::GENERATOR;
    let domain = s.domain();
    assert_eq!(plan.f.len(), domain);

    // ---- commit phase -------------------------------------------------------------------------
    let mut coin = DefaultRandomCoin::<H>::new(&[]);
    let mut fc = plan.f.clone(); // chain of f
    let mut gc = plan.g.clone(); // chain of g
    let mut committed: Vec<Vec<E>> = vec![];
    let mut other: Vec<Option<Vec<E>>> = vec![];
    let mut trees: Vec<MerkleTree<H>> = vec![];
    let mut geoms: Vec<LayerGeom<E::BaseField>> = vec![];
    let mut commitments: Vec<H::Digest> = vec![];
    let use_g = |l: usize| plan.switch_at.map(|sw| l >= sw).unwrap_or(false) && plan.g.is_some();
    for l in 0..big_l {
        let geo = LayerGeom::new(s.layer_domain(l), n, offset);
        let (cur, oth) = if use_g(l) { (gc.clone().unwrap(), Some(fc.clone())) } else { (fc.clone(), gc.clone()) };
        let tree = commit_rows::<E, H>(&cur, &geo);
        coin.reseed(*tree.root());
        commitments.push(*tree.root());
        let alpha: E = coin.draw().expect("alpha");
        let fa = match plan.wrong_alpha {
            Some((wl, a)) if wl == l => a,
            _ => alpha,
        };
        fc = own_fold(&fc, n, offset, fa);
        if let Some(g) = &gc {
            gc = Some(own_fold(g, n, offset, alpha));
        }
        committed.push(cur);
        other.push(oth);
        trees.push(tree);
        geoms.push(geo);
    }
    let last: Vec<E> = if use_g(big_l) { gc.clone().unwrap() } else { fc.clone() };
    let last_other: Option<Vec<E>> = if use_g(big_l) { Some(fc.clone()) } else { gc.clone() };
    let rem_geo = LayerGeom::new(s.layer_domain(big_l), n.min(s.layer_domain(big_l)), offset);
    let full = interp_coset(&last, offset);
    let allowed = s.rem_size();
    let rem_committed: Vec<E> = match plan.remainder {
        RemMode::Long { extra } => full[..(allowed << extra).min(full.len())].to_vec(),
        _ => full[..allowed].to_vec(),
    };
    let rc = H::hash_elements(&rem_committed);
    commitments.push(rc);

    // ---- structure manipulation of the commitment list ---------------------------------------------
    let mut sent_commitments = commitments.clone();
    let mut structure_ok = true;
    let mut trailing_duplicate = false;
    match plan.structure {
        Structure::None => {},
        Structure::Omit { layer, commitment_too } => {
            structure_ok = false;
            if commitment_too {
                sent_commitments.remove(layer);
            }
        },
        Structure::Duplicate { layer, commitment_too } => {
            if layer + 1 == big_l {
                trailing_duplicate = true;
            } else {
                structure_ok = false;
            }
            if commitment_too {
                let c = sent_commitments[layer];
                sent_commitments.insert(layer + 1, c);
            }
        },
        Structure::Swap { a, b, commitment_too } => {
            structure_ok = false;
            if commitment_too {
                sent_commitments.swap(a, b);
            }
        },
    }

    if plan.omit_rem_commitment {
        // the remainder commitment is withheld: such a proof can never be legitimate
        sent_commitments.pop();
        structure_ok = false;
    }

    // ---- the verifier's coins ---------------------------------------------------------------------
    let (true_alphas, positions) = replay_coin::<E, H>(&sent_commitments, plan.num_queries, domain, plan.nonce);
    let claimed: Vec<E> = positions.iter().map(|&p| plan.f[p]).collect();

    // ---- query phase + ground truth ---------------------------------------------------------------
    let mut verdict = Verdict {
        rows_bound: true,
        remainder_bound: true,
        foldings_consistent: true,
        remainder_size_ok: true,
        remainder_consistent: true,
        structure_ok,
        trailing_duplicate,
        first_bad: None,
    };
    if !structure_ok {
        verdict.bad("structure".into());
    }
    // values the verifier expects at the positions of the current layer
    let mut expect: BTreeMap<usize, E> = BTreeMap::new();
    for (&p, &v) in positions.iter().zip(claimed.iter()) {
        expect.insert(p, v);
    }
    let mut cur_positions = positions.clone();
    // position lists per layer (rows to open in layer l = positions of layer l + 1)
    let mut row_lists: Vec<Vec<usize>> = vec![];
    {
        let mut ps = positions.clone();
        for l in 0..big_l {
            ps = model_fold_positions(&ps, s.layer_domain(l), n);
            row_lists.push(ps.clone());
        }
    }
    let last_positions: Vec<usize> = row_lists.last().cloned().unwrap_or_else(|| {
        let mut v = vec![];
        for p in &positions {
            if !v.contains(p) {
                v.push(*p);
            }
        }
        v
    });

    // the remainder that will be sent (needed by Unbound on the last committed layer)
    let rem_sent: Vec<E> = match plan.remainder {
        RemMode::AfterQueries => {
            // values the verifier will compute at the last-layer positions: fold of the rows as they
            // will be opened. With OpenMode::Committed these are last[p] (chains are folded honestly
            // from the committed layer) unless a switch/wrong challenge sits right before; compute
            // them by the definition instead of assuming.
            let mut vals: Vec<(usize, E)> = vec![];
            if big_l == 0 {
                for &p in &last_positions {
                    vals.push((p, plan.f[p]));
                }
            } else {
                let geo = &geoms[big_l - 1];
                let src = opened_source(plan, big_l - 1, &committed, &other);
                for &r in &last_positions {
                    vals.push((r, fold_row(&geo.row(src, r), geo.x(r), geo.wn, true_alphas[big_l - 1])));
                }
            }
            let k = vals.len().min(allowed);
            let xs: Vec<E> = vals[..k].iter().map(|(p, _)| E::from(rem_geo.x(*p))).collect();
            let ys: Vec<E> = vals[..k].iter().map(|(_, v)| *v).collect();
            let mut c = lagrange_coeffs(&xs, &ys);
            c.resize(allowed, E::ZERO);
            c
        },
        _ => rem_committed.clone(),
    };

    let mut proof_layers: Vec<(Vec<u8>, Vec<u8>)> = vec![];
    for l in 0..big_l {
        let geo = &geoms[l];
        let rows = &row_lists[l];
        let alpha = true_alphas.get(l).copied().unwrap_or(E::ZERO);
        let src = opened_source(plan, l, &committed, &other);
        let mut next_expect: BTreeMap<usize, E> = BTreeMap::new();
        let mut value_bytes = vec![];
        for &r in rows {
            let committed_row = geo.row(&committed[l], r);
            let mut row = geo.row(src, r);
            if plan.open == (OpenMode::Unbound { layer: l }) {
                // constraints: queried entries must show the expected values; the row must fold to what
                // the next layer (or the remainder) will show
                let target = if l + 1 < big_l {
                    opened_source(plan, l + 1, &committed, &other)[r]
                } else {
                    horner(&rem_sent, E::from(rem_geo.x(r)))
                };
                let mut xs = vec![alpha];
                let mut ys = vec![target];
                let mut free = vec![];
                for j in 0..n {
                    let p = r + j * geo.rows;
                    let x = E::from(geo.x(p));
                    match expect.get(&p) {
                        Some(v) if xs.len() < n => {
                            xs.push(x);
                            ys.push(*v);
                        },
                        _ => free.push((x, committed_row[j])),
                    }
                }
                for (x, y) in free {
                    if xs.len() < n {
                        xs.push(x);
                        ys.push(y);
                    }
                }
                let poly = lagrange_coeffs(&xs, &ys);
                row = (0..n).map(|j| horner(&poly, E::from(geo.x(r + j * geo.rows)))).collect();
            }
            // ground truth
            if row != committed_row {
                verdict.rows_bound = false;
                verdict.bad(format!("unbound-row@{}", layer_tag(l, big_l)));
            }
            for j in 0..n {
                let p = r + j * geo.rows;
                if let Some(v) = expect.get(&p) {
                    if *v != row[j] {
                        verdict.foldings_consistent = false;
                        verdict.bad(format!("folding@{}", layer_tag(l, big_l)));
                    }
                }
            }
            next_expect.insert(r, fold_row(&row, geo.x(r), geo.wn, alpha));
            for v in &row {
                v.write_into(&mut value_bytes);
            }
        }
        let paths = trees[l].prove_batch(rows).expect("distinct rows within the tree").serialize_nodes();
        proof_layers.push((value_bytes, paths));
        expect = next_expect;
        cur_positions = rows.clone();
    }
    let _ = cur_positions;

    if rem_sent != rem_committed {
        verdict.remainder_bound = false;
        verdict.bad("remainder-unbound".into());
    }
    if rem_sent.len() > allowed {
        verdict.remainder_size_ok = false;
        verdict.bad("remainder-size".into());
    }
    for (&p, v) in expect.iter() {
        if horner(&rem_sent, E::from(rem_geo.x(p))) != *v {
            verdict.remainder_consistent = false;
            verdict.bad("remainder-values".into());
        }
    }
    let _ = last_other;

    // ---- structure manipulation of the proof ------------------------------------------------------
    match plan.structure {
        Structure::None => {},
        Structure::Omit { layer, .. } => {
            proof_layers.remove(layer);
        },
        Structure::Duplicate { layer, .. } => {
            let c = proof_layers[layer].clone();
            proof_layers.insert(layer + 1, c);
        },
        Structure::Swap { a, b, .. } => proof_layers.swap(a, b),
    }

    let proof_bytes = encode_proof(&proof_layers, &rem_sent, plan.log_partitions);
    AdvOut {
        commitments: sent_commitments,
        proof_bytes,
        positions,
        claimed,
        verdict,
        rem_sent,
        rem_committed,
        last_positions: last_positions.len(),
    }
}

fn layer_tag(l: usize, big_l: usize) -> &'static str {
    if l == 0 {
        "first"
    } else if l + 1 == big_l {
        "last"
    } else {
        "middle"
    }
}

/// the evaluations from which layer l's rows are opened
fn opened_source<'a, E: FieldElement>(
    plan: &Plan<E>,
    l: usize,
    committed: &'a [Vec<E>],
    other: &'a [Option<Vec<E>>],
) -> &'a [E] {
    match plan.open {
        OpenMode::OtherChain { from } if l >= from => match &other[l] {
            Some(o) => o,
            None => &committed[l],
        },
        _ => &committed[l],
    }
}
