//! Reference models for the FRI checks.
//!
//! Two layers:
//!   * `ref_*`: coefficient-domain definitions over `vf_ref::Field` (plain integers, O(n^2), n <= 256):
//!     interpolation as a naive inverse DFT and the folding *by definition* (interleaved coefficient
//!     slices combined with powers of the challenge) -- the oracle of the folding identity;
//!   * the harness' own evaluation-domain algorithms over /repo's field *arithmetic* (textbook radix-2
//!     FFT, per-row inverse DFT fold, Lagrange through few points). They share no code with
//!     `winter_fri::folding` / `winter_math::fft`; C15 validates them against the `ref_*` definitions
//!     and C05 uses them for the adversary and for the exact "was this acceptance legitimate" oracle.

use vf_ref::{El, Field};
use winter_math::{FieldElement, StarkField};

// POSITIONS
// ================================================================================================

/// `fold_positions` by its documentation: position mod folded size, duplicates discarded, first
/// occurrence keeps its place
pub fn model_fold_positions(positions: &[usize], source: usize, folding: usize) -> Vec<usize> {
    let target = source / folding;
    let mut seen = std::collections::BTreeSet::new();
    let mut out = vec![];
    for p in positions {
        let q = p % target;
        if seen.insert(q) {
            out.push(q);
        }
    }
    out
}

/// number of layers by closed formula (T coefficients, folding 2^log_n, remainder_max_degree+1 = r1):
/// least L >= 0 with T / N^L <= r1
pub fn model_num_layers(domain: usize, blowup: usize, log_n: u32, rmd: usize) -> usize {
    let bound = (rmd + 1) * blowup;
    if domain <= bound {
        return 0;
    }
    // ceil(log_N(domain / bound)) computed on exact integers
    let mut l = 0usize;
    let mut cap = bound as u128;
    while cap < domain as u128 {
        cap <<= log_n;
        l += 1;
    }
    l
}

// COEFFICIENT-DOMAIN REFERENCE (vf_ref)
// ================================================================================================

/// coefficients (ascending, n of them) of the unique polynomial of degree < n with
/// f(offset * g^i) = evals[i]; g must have order exactly n = evals.len()
pub fn ref_interpolate(f: &Field, evals: &[El], g: u128, offset: u128) -> Vec<El> {
    let n = evals.len();
    let fp = f.fp;
    let ginv = fp.inv(g);
    let ninv = fp.inv(n as u128 % fp.p);
    let oinv = fp.inv(offset);
    let mut out = Vec::with_capacity(n);
    let mut om = 1u128; // offset^-m
    for m in 0..n {
        let step = fp.pow(ginv, m as u128); // g^-m
        let mut acc = f.zero();
        let mut w = 1u128; // g^(-i m)
        for e in evals.iter() {
            acc = f.add(&acc, &f.mul_base(e, w));
            w = fp.mul(w, step);
        }
        out.push(f.mul_base(&acc, fp.mul(ninv, om)));
        om = fp.mul(om, oinv);
    }
    out
}

/// the folded function by definition: with f(x) = sum_k x^k f_k(x^N) (f_k = coefficients k, k+N, ...),
/// out[i] = sum_k alpha^k f_k((offset g^i)^N), i = 0..n/N
pub fn ref_fold(f: &Field, coeffs: &[El], g: u128, offset: u128, folding: usize, alpha: &El) -> Vec<El> {
    let n = coeffs.len();
    let rows = n / folding;
    let fp = f.fp;
    let slices: Vec<Vec<El>> = (0..folding).map(|k| coeffs.iter().skip(k).step_by(folding).copied().collect()).collect();
    let mut out = Vec::with_capacity(rows);
    for i in 0..rows {
        let x = fp.mul(offset, fp.pow(g, i as u128));
        let y = f.from_base(fp.pow(x, folding as u128));
        let mut acc = f.zero();
        let mut ak = f.one();
        for s in &slices {
            acc = f.add(&acc, &f.mul(&ak, &vf_ref::poly::eval(f, s, &y)));
            ak = f.mul(&ak, alpha);
        }
        out.push(acc);
    }
    out
}

// OWN EVALUATION-DOMAIN ALGORITHMS OVER /repo FIELD ARITHMETIC
// ================================================================================================

fn bit_reverse<T>(a: &mut [T]) {
    let n = a.len();
    if n < 2 {
        return;
    }
    let bits = n.trailing_zeros();
    for i in 0..n {
        let j = i.reverse_bits() >> (usize::BITS - bits);
        if i < j {
            a.swap(i, j);
        }
    }
}

/// textbook iterative radix-2 transform: a[i] <- sum_j a[j] w^(ij), w of order a.len()
pub fn dft_in_place<E: FieldElement>(a: &mut [E], w: E::BaseField) {
    let n = a.len();
    if n < 2 {
        return;
    }
    bit_reverse(a);
    let mut len = 2;
    while len <= n {
        let wlen = w.exp_vartime(((n / len) as u64).into());
        let half = len / 2;
        let mut tw = Vec::with_capacity(half);
        let mut t = E::BaseField::ONE;
        for _ in 0..half {
            tw.push(E::from(t));
            t *= wlen;
        }
        for block in a.chunks_mut(len) {
            for j in 0..half {
                let u = block[j];
                let v = block[j + half] * tw[j];
                block[j] = u + v;
                block[j + half] = u - v;
            }
        }
        len *= 2;
    }
}

pub fn domain_generator<B: StarkField>(size: usize) -> B {
    debug_assert!(size.is_power_of_two() && size >= 2);
    B::get_root_of_unity(size.trailing_zeros())
}

/// evaluations of `coeffs` (degree < size) at offset * g^i, i = 0..size, natural order
pub fn eval_coset<E: FieldElement>(coeffs: &[E], size: usize, offset: E::BaseField) -> Vec<E> {
    assert!(coeffs.len() <= size);
    let mut a = vec![E::ZERO; size];
    let mut o = E::BaseField::ONE;
    for (i, c) in coeffs.iter().enumerate() {
        a[i] = *c * E::from(o);
        o *= offset;
    }
    if size >= 2 {
        dft_in_place(&mut a, domain_generator::<E::BaseField>(size));
    }
    a
}

/// inverse of `eval_coset`
pub fn interp_coset<E: FieldElement>(evals: &[E], offset: E::BaseField) -> Vec<E> {
    let n = evals.len();
    let mut a = evals.to_vec();
    if n >= 2 {
        dft_in_place(&mut a, domain_generator::<E::BaseField>(n).inv());
    }
    let ninv = E::BaseField::from(n as u32).inv();
    let oinv = offset.inv();
    let mut s = ninv;
    for c in a.iter_mut() {
        *c *= E::from(s);
        s *= oinv;
    }
    a
}

pub fn horner<E: FieldElement>(p: &[E], x: E) -> E {
    p.iter().rev().fold(E::ZERO, |acc, c| acc * x + *c)
}

/// value at `alpha` of the polynomial of degree < N through (x * w^j, row[j]), w = N-th root
/// `wn` (the generator of the layer domain raised to #rows): inverse DFT of size N, naive
pub fn fold_row<E: FieldElement>(row: &[E], x: E::BaseField, wn: E::BaseField, alpha: E) -> E {
    let n = row.len();
    let ninv = E::BaseField::from(n as u32).inv();
    let winv = wn.inv();
    let xinv = x.inv();
    let mut acc = E::ZERO;
    let mut ak = E::ONE; // alpha^k
    let mut xk = ninv; // x^-k / N
    let mut wk = E::BaseField::ONE; // w^-k
    for _k in 0..n {
        // c_k = (1/N) x^-k sum_j row[j] w^(-jk)
        let mut s = E::ZERO;
        let mut t = E::BaseField::ONE;
        for v in row {
            s += *v * E::from(t);
            t *= wk;
        }
        acc += s * E::from(xk) * ak;
        ak *= alpha;
        xk *= xinv;
        wk *= winv;
    }
    acc
}

/// geometry of one layer: `size` evaluations at offset * g^i, folded by `folding`
#[derive(Clone, Copy)]
pub struct LayerGeom<B: StarkField> {
    #[allow(dead_code)]
    pub size: usize,
    pub folding: usize,
    pub rows: usize,
    pub g: B,
    pub wn: B,
    pub offset: B,
}
impl<B: StarkField> LayerGeom<B> {
    pub fn new(size: usize, folding: usize, offset: B) -> Self {
        let g = domain_generator::<B>(size);
        let rows = size / folding;
        LayerGeom { size, folding, rows, g, wn: g.exp_vartime((rows as u64).into()), offset }
    }
    /// x coordinate of position p
    pub fn x(&self, p: usize) -> B {
        self.offset * self.g.exp_vartime((p as u64).into())
    }
    /// the `folding` entries of row r of `evals` (entry j is position r + j * rows)
    pub fn row<E: Copy>(&self, evals: &[E], r: usize) -> Vec<E> {
        (0..self.folding).map(|j| evals[r + j * self.rows]).collect()
    }
}

/// the harness' own degree-respecting projection (natural order in, natural order out)
pub fn own_fold<E: FieldElement>(evals: &[E], folding: usize, offset: E::BaseField, alpha: E) -> Vec<E> {
    let geo = LayerGeom::<E::BaseField>::new(evals.len(), folding, offset);
    let mut out = Vec::with_capacity(geo.rows);
    let mut x = offset;
    for r in 0..geo.rows {
        out.push(fold_row(&geo.row(evals, r), x, geo.wn, alpha));
        x *= geo.g;
    }
    out
}

/// coefficients of the polynomial of degree < xs.len() through the points (xs distinct), O(n^2)
pub fn lagrange_coeffs<E: FieldElement>(xs: &[E], ys: &[E]) -> Vec<E> {
    let n = xs.len();
    if n == 0 {
        return vec![];
    }
    // master polynomial M(x) = prod (x - x_i), ascending, degree n
    let mut m = vec![E::ZERO; n + 1];
    m[0] = E::ONE;
    for (k, x) in xs.iter().enumerate() {
        // multiply by (X - x)
        for i in (0..=k + 1).rev() {
            let lower = if i > 0 { m[i - 1] } else { E::ZERO };
            m[i] = lower - m[i] * *x;
        }
    }
    let mut out = vec![E::ZERO; n];
    let mut q = vec![E::ZERO; n];
    for i in 0..n {
        // q = M / (X - x_i) by synthetic division
        let mut carry = E::ZERO;
        for k in (0..n).rev() {
            carry = m[k + 1] + carry * xs[i];
            q[k] = carry;
        }
        let den = horner(&q, xs[i]);
        let scale = ys[i] * den.inv();
        for k in 0..n {
            out[k] += q[k] * scale;
        }
    }
    out
}

// CONVERSIONS
// ================================================================================================

pub fn els_to_ref<E: FieldElement>(v: &[E]) -> Vec<El>
where
    E::BaseField: vf_repo::FA,
{
    v.iter().map(vf_repo::to_el).collect()
}
