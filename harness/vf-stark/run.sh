#!/bin/bash
# vf-stark checks; C06 additionally runs the coverage-guided fuzzer (/verif/fuzz, target proof_bytes)
set -u
ROOT="${VERIF_ROOT:-/verif}"
TGT="${CARGO_TARGET_DIR:-$ROOT/target}"
BIN="$TGT/vf/vf-stark"
if [ "${1:-}" = "--replay" ]; then
  FILE="$2"
  case "$FILE" in
    *.fuzz) # a libFuzzer crash input: replay it through the fuzz target in strict mode
      cd "$ROOT/harness" && VF_FUZZ_STRICT=1 cargo +nightly fuzz run --fuzz-dir "$ROOT/fuzz" proof_bytes "$FILE" -- -runs=1 >"$ROOT/work/fuzz/replay.log" 2>&1
      if [ $? -ne 0 ]; then
        grep -m1 "C06 VIOLATION" "$ROOT/work/fuzz/replay.log"
        echo "VIOLATION property=C06 replay=$FILE"; exit 1
      fi
      echo "replay: fuzz input passes"; exit 0 ;;
  esac
  exec "$BIN" --replay "$FILE"
fi
PROP="$1"; TIER="${2:-quick}"
if [ "$PROP" != "C06" ]; then
  exec "$BIN" "$PROP" "$TIER"
fi

"$BIN" C06 "$TIER"; RC=$?
[ $RC -eq 1 ] && exit 1

# ---- coverage-guided stage ---------------------------------------------------------------------------
FZ="$ROOT/work/fuzz"; mkdir -p "$FZ"
LOG="$FZ/build-proof_bytes.log"
( cd "$ROOT/harness" && cargo +nightly fuzz build --fuzz-dir "$ROOT/fuzz" proof_bytes >"$LOG" 2>&1 )
if [ $? -ne 0 ]; then
  echo "INCONCLUSIVE: fuzz target build failed (see $LOG)"; tail -5 "$LOG"; exit 2
fi
CORPUS="$FZ/corpus-proof_bytes-$TIER"; rm -rf "$CORPUS"; mkdir -p "$CORPUS" "$FZ/artifacts"
"$BIN" --emit-corpus "$CORPUS" >/dev/null || { echo "INCONCLUSIVE: cannot emit seed corpus"; exit 2; }
# committed regression inputs are replayed first (they are just part of the corpus)
cp "$ROOT"/regress/C06/*.fuzz "$CORPUS"/ 2>/dev/null
SEED=$(( ${VERIF_SEED:-0} + 1 ))
if [ "$TIER" = "thorough" ]; then ARGS="-max_total_time=900 -jobs=12 -workers=12"; else ARGS="-runs=150000"; fi
OUT="$FZ/run-proof_bytes.log"; rm -f "$ROOT"/harness/fuzz-*.log
( cd "$ROOT/harness" && cargo +nightly fuzz run --fuzz-dir "$ROOT/fuzz" proof_bytes "$CORPUS" -- $ARGS -seed=$SEED -len_control=0 -max_len=16384 -rss_limit_mb=4096 -malloc_limit_mb=1024 -timeout=60 -artifact_prefix="$FZ/artifacts/" -print_final_stats=1 >"$OUT" 2>&1 )
FRC=$?
RUNS=$(grep -h "stat::number_of_executed_units" "$OUT" "$ROOT"/harness/fuzz-*.log 2>/dev/null | awk '{s+=$2} END {print s+0}')
python3 - "$ROOT/evidence/C06.json" "$RUNS" "$FRC" "$TIER" <<'PY'
import json,sys
p,runs,frc,tier=sys.argv[1],int(sys.argv[2]),int(sys.argv[3]),sys.argv[4]
try:
    e=json.load(open(p))
    e["coverage"]["libfuzzer_proof_bytes"]={"executions":runs,"exit_code":frc,"seed_corpus":"honest proofs of the 10 fixed configurations, generated at run time (+ committed regress/C06/*.fuzz)","oracle":"in-target: panic capture + allocation proportion (vf_stark::c06::hostile); open known findings tolerated","engine":"cargo-fuzz / libFuzzer with ASan, -len_control=0"}
    e["coverage"]["evaluations"]+=runs
    json.dump(e,open(p,"w"),indent=1)
except Exception as ex:
    print("evidence merge failed:",ex)
PY
if [ $FRC -ne 0 ]; then
  ART=$(ls -t "$FZ"/artifacts/* 2>/dev/null | head -1)
  if [ -n "$ART" ]; then
    mkdir -p "$ROOT/work/replay"; DEST="$ROOT/work/replay/C06-libfuzzer-$(basename "$ART").fuzz"; cp "$ART" "$DEST"
    grep -h -m1 "C06 VIOLATION" "$OUT" "$ROOT"/harness/fuzz-*.log 2>/dev/null | head -1
    echo "VIOLATION property=C06 replay=$DEST"; exit 1
  fi
  echo "INCONCLUSIVE: fuzzer exited with $FRC without an artifact (see $OUT)"; exit 2
fi
echo "[C06] libFuzzer proof_bytes: $RUNS executions, no crash"
exit $RC
