//! C03 — proof integrity: any change to the decoded content of an accepted proof causes rejection.
//!
//! Oracle: mutated bytes either fail to parse, decode to the very same proof (excluded, counted), fall
//! under the exclusions the property lists (FRI partition count; plus a nonce edit that provably
//! yields the same query positions) — or must not verify.

use std::collections::HashMap;
use std::sync::{Arc, Mutex, OnceLock};

use proptest::prelude::*;
use proptest::strategy::ValueTree;
use proptest::test_runner::{Config, RngAlgorithm, TestRng, TestRunner};
use serde::{Deserialize, Serialize};
use vf_core::{pick_index, CheckResult, Fail, Obs, Run, SubCheck, Tier, X};
use vf_repo::{from_el, to_el, El, Field, FA};
use winter_air::proof::Proof;
use winter_crypto::{DefaultRandomCoin, Digest, ElementHasher};
use winter_math::fields::{CubeExtension, QuadExtension};
use winter_math::{FieldElement, StarkField};
use winter_utils::Serializable;

use crate::c04::{derive_spec, replay, SpecOp};
use crate::coin::Event;
use crate::common::*;
use crate::desc::Desc;
use crate::dissect::{apply, dissect, mutation_strategy, Field as PField, Mutation};
use crate::gen::*;

/// an accepted proof together with everything the mutators need
pub struct Baseline {
    pub desc: Arc<Desc>,
    pub opts: RealOpts,
    pub labels: Vec<String>,
    pub proof: Proof,
    pub bytes: Vec<u8>,
    pub fields: Vec<PField>,
    /// sorted, de-duplicated query positions in the LDE domain
    pub positions: Vec<usize>,
}

fn positions_of<B: FA, H: ElementHasher<BaseField = B>>(proof: &Proof, desc: &Arc<Desc>, ext: u8) -> Option<(Vec<usize>, u32)> {
    let spec = match ext {
        1 => derive_spec::<B, H, B>(proof, desc).ok()?.0,
        2 => derive_spec::<B, H, QuadExtension<B>>(proof, desc).ok()?.0,
        _ => derive_spec::<B, H, CubeExtension<B>>(proof, desc).ok()?.0,
    };
    let log = replay::<B, H>(&spec);
    let mut pow = 0;
    for e in log.iter().rev() {
        match e {
            Event::CheckLeadingZeros(_, r) => pow = *r,
            _ => {},
        }
    }
    match log.last()? {
        Event::DrawIntegers(_, _, _, Some(v)) => {
            let mut p = v.clone();
            p.sort_unstable();
            p.dedup();
            Some((p, pow))
        },
        _ => None,
    }
}

fn ref_kind<H>() -> Option<vf_ref::hashes::Kind> {
    use vf_ref::hashes::Kind;
    let n = std::any::type_name::<H>();
    [("RpJive64_256", Kind::RpJive64_256), ("Rp64_256", Kind::Rp64_256), ("Rp62_248", Kind::Rp62_248), ("Blake3_256", Kind::Blake3_256), ("Blake3_192", Kind::Blake3_192), ("Sha3_256", Kind::Sha3_256)]
        .iter()
        .find(|(s, _)| n.contains(s))
        .map(|(_, k)| *k)
}

/// inverse of RefH::as_bytes32
fn digest_to_ref(h: &vf_ref::hashes::RefH, b: &[u8; 32]) -> vf_ref::hashes::Dg {
    use vf_ref::hashes::Dg;
    if h.is_rescue() {
        let bits = h.fp.bits as usize;
        let mut e = [0u128; 4];
        for (k, v) in e.iter_mut().enumerate() {
            for i in 0..bits {
                let pos = k * bits + i;
                if (b[pos / 8] >> (pos % 8)) & 1 == 1 {
                    *v |= 1 << i;
                }
            }
        }
        Dg::Elems(e)
    } else {
        Dg::Bytes(b[..h.digest_bytes()].to_vec())
    }
}

/// Query positions and proof-of-work measure of the proof's nonce by the harness' own definition of the
/// public coin and of the hash functions (vf-ref; nothing of /repo's hashing is executed): decides whether
/// a proof that differs from an accepted one in its nonce only is a legitimate proof by the documented
/// transcript (same positions, grinding condition met) or an accepted alteration.
fn ref_positions_of<B: FA, H: ElementHasher<BaseField = B>>(proof: &Proof, desc: &Arc<Desc>, ext: u8) -> Option<(Vec<usize>, u32)> {
    use vf_ref::coin::RefCoin;
    let spec = match ext {
        1 => derive_spec::<B, H, B>(proof, desc).ok()?.0,
        2 => derive_spec::<B, H, QuadExtension<B>>(proof, desc).ok()?.0,
        _ => derive_spec::<B, H, CubeExtension<B>>(proof, desc).ok()?.0,
    };
    let h = vf_ref::hashes::RefH::new(ref_kind::<H>()?, B::FP);
    let mut coin: Option<RefCoin> = None;
    let mut pow = 0u32;
    let mut positions = None;
    for op in &spec {
        match op {
            SpecOp::New(seed) => coin = Some(RefCoin::new(h.clone(), &seed.iter().map(|e| e.to_u128()).collect::<Vec<_>>())),
            SpecOp::Reseed(d) => coin.as_mut()?.reseed(&digest_to_ref(&h, &d.as_bytes())),
            SpecOp::Draw(deg) => {
                coin.as_mut()?.draw(*deg).ok()?;
            },
            SpecOp::Pow(nonce) => pow = coin.as_ref()?.pow_measure(*nonce),
            SpecOp::Ints(n, d, nonce) => {
                if !d.is_power_of_two() || *n >= *d {
                    return None;
                }
                let mut p: Vec<usize> = coin.as_mut()?.draw_integers(*n, *d as u64, *nonce).into_iter().map(|x| x as usize).collect();
                p.sort_unstable();
                p.dedup();
                positions = Some(p);
            },
        }
    }
    positions.map(|p| (p, pow))
}

pub fn baseline<B: FA, H: ElementHasher<BaseField = B> + Send + Sync>(shape: &Shape, cell_budget: usize) -> Result<Option<Baseline>, Fail> {
    let inst = realize::<B>(shape, cell_budget);
    if inst.weak_seed_binding() {
        // see Instance::weak_seed_binding: such a proof is accepted under a changed context with
        // probability 2^-(queries * log2(lde) + grinding), which is within its stated soundness error
        return Ok(None);
    }
    let desc = Arc::new(inst.desc.clone());
    let options = make_options(&inst.opts)?;
    let proof = match prove_with::<B, H, DefaultRandomCoin<H>>(&desc, &inst.trace, options, None) {
        ProveOutcome::Proof(p) => p,
        _ => return Ok(None),
    };
    if !matches!(verify_with::<B, H, DefaultRandomCoin<H>>(proof.clone(), &desc, &min_sec0()), VerifyOutcome::Ok) {
        return Ok(None);
    }
    let bytes = proof.to_bytes();
    let fields = dissect(&bytes).ok_or_else(|| Fail::new("harness/dissect", "an honest proof does not follow the layout the dissector walks"))?;
    let positions = positions_of::<B, H>(&proof, &desc, inst.opts.ext).ok_or_else(|| Fail::new("harness/positions", "cannot replay the transcript of an honest proof"))?.0;
    match ref_positions_of::<B, H>(&proof, &desc, inst.opts.ext) {
        Some((p, pow)) if p == positions && pow >= inst.opts.grinding => {},
        other => {
            return Err(Fail::new(
                "reference-transcript/positions",
                format!("the query positions / proof-of-work of an honest accepted proof differ from the documented transcript computed with the reference hash functions: reference {other:?}, library {positions:?}"),
            ))
        },
    }
    if positions.len() != proof.num_unique_queries as usize {
        return Err(Fail::new(
            "reference-transcript/unique-queries",
            format!("the documented transcript of an honest accepted proof gives {} distinct query positions, the proof says num_unique_queries = {}", positions.len(), proof.num_unique_queries),
        ));
    }
    Ok(Some(Baseline { desc, opts: inst.opts.clone(), labels: inst.labels.clone(), proof, bytes, fields, positions }))
}

fn strip_index(path: &str) -> String {
    let mut out = String::new();
    let mut skip = false;
    for c in path.chars() {
        if c == '[' {
            skip = true;
            out.push_str("[]");
        } else if c == ']' {
            skip = false;
        } else if !skip {
            out.push(c);
        }
    }
    out
}

#[derive(Debug, PartialEq)]
pub enum Verdict {
    ParseFail,
    ParsePanic,
    SameDecoded,
    ExcludedPartitions,
    ExcludedNonce,
    Rejected,
    VerifierPanic,
    /// accepted, and the changed proof's context is encoded into the very same public-coin seed elements
    AcceptedIdenticalSeed,
    Accepted,
}

/// the C03 oracle for one mutated byte string
pub fn judge<B: FA, H: ElementHasher<BaseField = B>>(base: &Baseline, mutated: &[u8], obs: &mut Obs) -> Verdict {
    let parsed = match vf_core::catch(|| Proof::from_bytes(mutated)) {
        Ok(Ok(p)) => p,
        Ok(Err(_)) => return Verdict::ParseFail,
        Err(p) => {
            obs.label(format!("panic:{}", p.key()));
            return Verdict::ParsePanic;
        },
    };
    if parsed == base.proof {
        return Verdict::SameDecoded;
    }
    // layout-only metadata: the FRI partition count
    if vf_core::catch(|| parsed.fri_proof.num_partitions()).ok() != Some(base.proof.fri_proof.num_partitions()) {
        let pb = parsed.to_bytes();
        if let Some(fields) = dissect(&pb) {
            if let (Some(f), Some(f0)) = (fields.iter().find(|f| f.path == "fri.num_partitions"), base.fields.iter().find(|f| f.path == "fri.num_partitions")) {
                let mut nb = pb.clone();
                nb[f.off] = base.bytes[f0.off];
                if let Ok(Ok(p2)) = vf_core::catch(|| Proof::from_bytes(&nb)) {
                    if p2 == base.proof {
                        // the property puts accepted partition-count edits outside the claim; rejected ones are fine anyway
                        return Verdict::ExcludedPartitions;
                    }
                }
            }
        }
    }
    let only_nonce = {
        let mut p2 = parsed.clone();
        p2.pow_nonce = base.proof.pow_nonce;
        p2 == base.proof
    };
    match verify_with::<B, H, DefaultRandomCoin<H>>(parsed.clone(), &base.desc, &min_sec0()) {
        VerifyOutcome::Err(_) => Verdict::Rejected,
        VerifyOutcome::Panic(p) => {
            obs.label(format!("panic:{}", p.key()));
            Verdict::VerifierPanic
        },
        VerifyOutcome::Ok => {
            if only_nonce {
                // a different nonce that satisfies the proof-of-work condition and leads to the very
                // same query positions is a legitimate proof of the same statement
                if let Some((pos, pow)) = ref_positions_of::<B, H>(&parsed, &base.desc, base.opts.ext) {
                    if pos == base.positions && pow >= base.opts.grinding {
                        return Verdict::ExcludedNonce;
                    }
                }
            }
            {
                use winter_math::ToElements;
                let a: Vec<B> = parsed.context.to_elements();
                let b: Vec<B> = base.proof.context.to_elements();
                let mut p2 = parsed.clone();
                p2.context = base.proof.context.clone();
                if a == b && p2 == base.proof {
                    return Verdict::AcceptedIdenticalSeed;
                }
            }
            Verdict::Accepted
        },
    }
}

fn count(v: &Verdict, what: &str, obs: &mut Obs) -> CheckResult {
    match v {
        Verdict::ParseFail => obs.label("parse-fail"),
        Verdict::ParsePanic => obs.label("parse-panic"),
        Verdict::SameDecoded => obs.label("excluded:same-decoded-content"),
        Verdict::ExcludedPartitions => obs.label("excluded:partition-count"),
        Verdict::ExcludedNonce => obs.label("excluded:nonce-same-positions"),
        Verdict::Rejected => {
            obs.label("rejected");
            obs.nontrivial();
        },
        Verdict::VerifierPanic => {
            obs.label("verifier-panic");
            obs.nontrivial();
        },
        Verdict::AcceptedIdenticalSeed => {
            return Err(Fail::new(
                "accepted/context-with-identical-seed-elements",
                format!("a proof whose context was changed ({what}) is still accepted: both contexts are encoded into the same public-coin seed elements"),
            ))
        },
        Verdict::Accepted => {
            return Err(Fail::new(
                format!("accepted/{}", strip_index(what)),
                format!("a proof whose decoded content was changed ({what}) is still accepted"),
            ))
        },
    }
    Ok(())
}

// cache of baselines for the enumerated sub-check
fn cache() -> &'static Mutex<HashMap<u64, Option<Arc<Baseline>>>> {
    static C: OnceLock<Mutex<HashMap<u64, Option<Arc<Baseline>>>>> = OnceLock::new();
    C.get_or_init(|| Mutex::new(HashMap::new()))
}

pub fn cached_baseline<B: FA, H: ElementHasher<BaseField = B> + Send + Sync>(shape: &Shape, budget: usize) -> Result<Option<Arc<Baseline>>, Fail> {
    let key = vf_core::hash_str(&serde_json::to_string(shape).unwrap_or_default());
    if let Some(b) = cache().lock().unwrap().get(&key) {
        return Ok(b.clone());
    }
    let b = baseline::<B, H>(shape, budget)?.map(Arc::new);
    cache().lock().unwrap().insert(key, b.clone());
    Ok(b)
}

// EXHAUSTIVE BIT FLIPS
// ================================================================================================

#[derive(Serialize, Deserialize, Clone, Debug)]
pub struct FlipCase {
    pub shape: Shape,
    pub bit: usize,
}

fn flip_one<B: FA, H: ElementHasher<BaseField = B> + Send + Sync>(c: &FlipCase, obs: &mut Obs) -> CheckResult {
    let Some(base) = cached_baseline::<B, H>(&c.shape, 1 << 13)? else {
        obs.label("no-baseline");
        return Ok(());
    };
    if c.bit >= base.bytes.len() * 8 {
        return Ok(());
    }
    let (mutated, what) = apply(&base.bytes, &base.fields, &Mutation::FlipBit { bit: c.bit });
    obs.label(format!("span={}", strip_index(what.trim_start_matches("flip-bit@")).split('.').next().unwrap_or("")));
    let v = judge::<B, H>(&base, &mutated, obs);
    count(&v, &what, obs)
}

pub fn basket(count: usize, seed: u64) -> Vec<Shape> {
    let mut bytes = [0u8; 32];
    bytes[..8].copy_from_slice(&seed.to_le_bytes());
    bytes[8] = 0xC3;
    let mut runner = TestRunner::new_with_rng(Config::default(), TestRng::from_seed(RngAlgorithm::ChaCha, &bytes));
    let params = GenParams { max_log_n: 4, max_grinding: 2, fixed: None, allow_aux: true, allow_degenerate: false };
    let strat = shape_strategy(&params);
    let mut out: Vec<Shape> = vec![];
    let mut guard = 0;
    while out.len() < count && guard < 1000 {
        guard += 1;
        let mut s = strat.new_tree(&mut runner).expect("shape").current();
        if s.rules.len() > 4 {
            s.rules.truncate(1 + s.rules.len() % 4);
        }
        s.opts.log_blowup = s.opts.log_blowup.clamp(2, 3);
        // enough position material that a nonce edit cannot keep the positions by luck
        s.opts.queries = s.opts.queries.clamp(8, 12);
        s.meta_len = s.meta_len.min(4);
        // make the basket diverse: alternate aux / no aux and the three fields
        let want_aux = out.len() % 2 == 1;
        if s.aux.is_some() != want_aux || s.field as usize != out.len() % 3 {
            continue;
        }
        out.push(s);
    }
    out
}

// STRUCTURED MUTATIONS
// ================================================================================================

#[derive(Serialize, Deserialize, Clone, Debug)]
pub struct MutCase {
    pub shape: Shape,
    pub muts: Vec<Mutation>,
}

pub struct Structured {
    pub tier: Tier,
}

fn mut_one<B: FA, H: ElementHasher<BaseField = B> + Send + Sync>(c: &MutCase, tier: Tier, obs: &mut Obs) -> CheckResult {
    let Some(base) = baseline::<B, H>(&c.shape, tier.pick(1 << 15, 1 << 18))? else {
        obs.label("no-baseline");
        return Ok(());
    };
    for m in &c.muts {
        let (mutated, what) = apply(&base.bytes, &base.fields, m);
        obs.label(format!("mut={}", strip_index(&what).split('@').next().unwrap_or("")));
        let v = judge::<B, H>(&base, &mutated, obs);
        count(&v, &what, obs)?;
    }
    Ok(())
}

impl SubCheck for Structured {
    type Case = MutCase;
    fn name(&self) -> String {
        "structured".into()
    }
    fn cases(&self, tier: Tier) -> u64 {
        tier.pick(1_500, 40_000)
    }
    fn watchdog_secs(&self) -> u64 {
        300
    }
    fn shrink_iters(&self) -> usize {
        40
    }
    fn rule(&self) -> String {
        "an accepted proof of a generated GenAir instance (all configurations of C01, smaller sizes) and 8 structure-aware mutations of its bytes each: bit flips, byte substitution by 0x00/0x01/0x7f/0x80/0xff, every length/count/scalar field set to 0/1/max-1/max/+1/-1/*2/random, data fields zeroed/filled/flipped/rotated/with two chunks swapped (reordered openings), truncation and extension of every length-prefixed component with and without fixing the prefix, cut, trailing bytes; non-trivial = the mutated bytes parsed, differed in decoded content and were judged by the verifier".into()
    }
    fn strategy(&self, tier: Tier) -> BoxedStrategy<MutCase> {
        let p = GenParams { max_log_n: tier.pick(6, 8), max_grinding: 4, fixed: None, allow_aux: true, allow_degenerate: false };
        (shape_strategy(&p), prop::collection::vec(mutation_strategy(), 8)).prop_map(|(shape, muts)| MutCase { shape, muts }).boxed()
    }
    fn check(&self, c: &MutCase, obs: &mut Obs) -> CheckResult {
        let tier = self.tier;
        crate::dispatch!(c.shape.field, c.shape.hasher, mut_one, c, tier, obs)
    }
}

// ADAPTIVE SUBSTITUTIONS (need the query positions)
// ================================================================================================

#[derive(Serialize, Deserialize, Clone, Debug)]
pub struct AdaptCase {
    pub shape: Shape,
    /// 0 remainder + c*V(x) ; 1 gkr None -> Some ; 2 trailing bytes in the Lagrange OOD block ; 3 other nonces ; 4 surplus node vector in an opening ; 5 trace metadata + trailing zero bytes
    pub kind: u8,
    pub c: X,
    pub extra: Vec<u8>,
}

pub struct Adaptive {
    pub tier: Tier,
}

fn fold_positions(pos: &[usize], domain: usize, folding: usize) -> Vec<usize> {
    let target = domain / folding;
    let mut out: Vec<usize> = vec![];
    for p in pos {
        let q = p % target;
        if !out.contains(&q) {
            out.push(q);
        }
    }
    out
}

fn adapt_one<B: FA, H: ElementHasher<BaseField = B> + Send + Sync>(c: &AdaptCase, tier: Tier, obs: &mut Obs) -> CheckResult {
    let mut shape = c.shape.clone();
    if c.kind == 0 {
        // favour situations in which the attack is possible: few queries, a large remainder
        shape.opts.queries = shape.opts.queries.clamp(1, 6);
        shape.opts.log_rem = shape.opts.log_rem.max(3);
    }
    if c.kind == 2 {
        if let Some(a) = &mut shape.aux {
            a.lagrange = true;
        }
    }
    if c.kind == 5 {
        shape.meta_len = 1 + shape.meta_len % 40;
    }
    let Some(base) = baseline::<B, H>(&shape, tier.pick(1 << 15, 1 << 18))? else {
        obs.label("no-baseline");
        return Ok(());
    };
    let fp = B::FP;
    match c.kind {
        0 => {
            // FRI remainder R replaced by R + c * V, V vanishing on every queried last-layer point
            let o = &base.opts;
            let lde = base.desc.n() * o.blowup;
            let (layers, _) = fri_schedule(lde, o.blowup, o.folding, o.rem_deg);
            let mut pos = base.positions.clone();
            let mut dom = lde;
            for _ in 0..layers {
                pos = fold_positions(&pos, dom, o.folding);
                dom /= o.folding;
            }
            let Some(rf) = base.fields.iter().find(|f| f.path == "fri.remainder") else { return Ok(()) };
            let f = Field::ext(fp, o.ext as usize);
            let eb = fp.elem_bytes * f.deg;
            let m = rf.len / eb;
            obs.label(if pos.len() < m { "remainder-attack:possible" } else { "remainder-attack:impossible" });
            if pos.len() >= m || m == 0 {
                return Ok(());
            }
            // last-layer points x_p = offset * g_f^p, g_f = generator of the folded domain
            let g_lde = B::get_root_of_unity(lde.ilog2()).to_u128();
            let g_f = fp.pow(g_lde, (lde / dom) as u128);
            let offset = fp.generator;
            let xs: Vec<El> = pos.iter().map(|p| f.from_base(fp.mul(offset, fp.pow(g_f, *p as u128)))).collect();
            let v = vf_ref::poly::from_roots(&f, &xs);
            let mut cc = [0u128; 3];
            cc[0] = (c.c.0 % fp.p).max(1);
            // read R, add c*V, write back
            let mut coeffs: Vec<El> = (0..m)
                .map(|i| {
                    let mut e = [0u128; 3];
                    for k in 0..f.deg {
                        e[k] = fp.from_le_bytes(&base.bytes[rf.off + i * eb + k * fp.elem_bytes..rf.off + i * eb + (k + 1) * fp.elem_bytes]);
                    }
                    e
                })
                .collect();
            for (i, vc) in v.iter().enumerate() {
                coeffs[i] = f.add(&coeffs[i], &f.mul(vc, &cc));
            }
            let mut mutated = base.bytes.clone();
            for (i, e) in coeffs.iter().enumerate() {
                let b = f.to_le_bytes(e);
                mutated[rf.off + i * eb..rf.off + (i + 1) * eb].copy_from_slice(&b);
            }
            let verdict = judge::<B, H>(&base, &mutated, obs);
            count(&verdict, "fri.remainder+c*V(queried points)", obs)
        },
        1 => {
            // a GKR proof attached to a proof whose AIR does not use one
            let Some(gf) = base.fields.iter().find(|f| f.path == "gkr.flag") else { return Ok(()) };
            if base.bytes[gf.off] != 0 {
                obs.label("gkr:already-present");
                return Ok(());
            }
            let mut mutated = base.bytes[..gf.off].to_vec();
            mutated.push(1);
            let extra: Vec<u8> = c.extra.iter().copied().take(60).collect();
            // vint64 length prefix for lengths < 128: (len << 1) | 1
            mutated.push(((extra.len() as u8) << 1) | 1);
            mutated.extend(&extra);
            let verdict = judge::<B, H>(&base, &mutated, obs);
            count(&verdict, "gkr.none->some", obs)
        },
        2 => {
            let has = base.fields.iter().any(|f| f.path == "ood.lagrange" && f.len > 0);
            if !has {
                obs.label("lagrange:absent");
                return Ok(());
            }
            let idx = base.fields.iter().filter(|f| f.kind == crate::dissect::Kind::Data).position(|f| f.path == "ood.lagrange").unwrap();
            let ndata = base.fields.iter().filter(|f| f.kind == crate::dissect::Kind::Data).count();
            // selector that maps onto that data field
            let sel = (((idx as u32) << 16) / ndata as u32 + (1 << 16) / (2 * ndata as u32)) as u16;
            debug_assert_eq!(pick_index(sel, ndata), idx);
            let n = ((c.extra.len() as u8) % 48).max(1);
            let (mutated, what) = apply(&base.bytes, &base.fields, &Mutation::Extend { field_sel: sel, n, fill: c.extra.first().copied().unwrap_or(0), fix_len: true });
            if !what.contains("ood.lagrange") {
                return Err(Fail::new("harness/selector", what));
            }
            let verdict = judge::<B, H>(&base, &mutated, obs);
            count(&verdict, "ood.lagrange+trailing-bytes", obs)
        },
        5 => {
            // trace metadata extended by zero bytes (length prefix fixed up): another context
            let (Some(lf), Some(mf)) = (base.fields.iter().find(|f| f.path == "context.trace_info.meta.len"), base.fields.iter().find(|f| f.path == "context.trace_info.meta")) else {
                return Ok(());
            };
            if mf.len == 0 || mf.len + 3 > 65535 {
                return Ok(());
            }
            let chunk = fp.elem_bytes - 1;
            let t = mf.len % chunk;
            let end = mf.off + mf.len;
            if c.c.0 % 3 == 0 && mf.len > chunk && t != 0 {
                // the short last chunk completed by the tail of the chunk before it: what an encoder that reuses
                // its chunk buffer without clearing it would read anyway
                let prev = end - t - chunk;
                let tail: Vec<u8> = base.bytes[prev + t..prev + chunk].to_vec();
                obs.label("meta+previous-chunk-tail");
                let mut mutated = base.bytes.clone();
                mutated.splice(end..end, tail.iter().copied());
                mutated[lf.off..lf.off + 2].copy_from_slice(&((mf.len + tail.len()) as u16).to_le_bytes());
                let verdict = judge::<B, H>(&base, &mutated, obs);
                return count(&verdict, "context.trace_info.meta+previous-chunk-tail", obs);
            }
            let space = (chunk - t) % chunk;
            // half of the time just beyond the last chunk (a further element: must be refused), else 1..3 bytes
            let k = if c.extra.len() % 2 == 0 { space + 1 } else { 1 + (c.extra.len() / 2) % 3 };
            obs.label(if k <= space { "meta+zeros:inside-last-chunk" } else { "meta+zeros:new-chunk" });
            let mut mutated = base.bytes.clone();
            mutated.splice(end..end, std::iter::repeat(0u8).take(k));
            mutated[lf.off..lf.off + 2].copy_from_slice(&((mf.len + k) as u16).to_le_bytes());
            let verdict = judge::<B, H>(&base, &mutated, obs);
            count(&verdict, "context.trace_info.meta+trailing-zero-bytes", obs)
        },
        4 => {
            // a batch opening extended by a surplus (empty or filled) vector of authentication nodes:
            // count byte + 1, vector appended, length prefix fixed up
            let targets: Vec<&crate::dissect::Field> = base.fields.iter().filter(|f| f.path.ends_with(".paths") && f.len > 0).collect();
            if targets.is_empty() {
                return Ok(());
            }
            let f = targets[pick_index(c.extra.first().copied().unwrap_or(0) as u16 * 257, targets.len())];
            let lf = base.fields.iter().find(|x| x.path == format!("{}.len", f.path));
            let Some(lf) = lf else { return Ok(()) };
            let filled = c.extra.len() % 2 == 1;
            // digest size of this configuration = commitments bytes / number of digests
            let com = base.fields.iter().find(|x| x.path == "commitments");
            let o = &base.opts;
            let layers = fri_schedule(base.desc.n() * o.blowup, o.blowup, o.folding, o.rem_deg).0;
            let segs = if base.desc.aux.is_some() { 2 } else { 1 };
            let digest = com.map(|c| c.len / (segs + 2 + layers)).unwrap_or(32);
            let mut extra: Vec<u8> = vec![if filled { 1 } else { 0 }];
            if filled {
                extra.extend(std::iter::repeat(0x5a).take(digest));
            }
            if base.bytes[f.off] == 255 {
                return Ok(());
            }
            let mut mutated = base.bytes.clone();
            mutated[f.off] += 1;
            let end = f.off + f.len;
            mutated.splice(end..end, extra.iter().copied());
            let new_len = (f.len + extra.len()) as u32;
            mutated[lf.off..lf.off + 4].copy_from_slice(&new_len.to_le_bytes());
            let what = format!("{}+surplus-node-vector", strip_index(&f.path));
            let verdict = judge::<B, H>(&base, &mutated, obs);
            count(&verdict, &what, obs)
        },
        _ => {
            // other nonces; accepted ones must lead to the same positions (then
            // excluded) — exercises the exclusion logic itself
            let Some(nf) = base.fields.iter().find(|f| f.path == "pow_nonce") else { return Ok(()) };
            let p64 = (fp.p & (u64::MAX as u128)) as u64;
            let candidates: Vec<u64> = (1..=6u64)
                .map(|delta| base.proof.pow_nonce.wrapping_add(delta.wrapping_mul(1 + c.c.0 as u64 % 1000)))
                // nonces that differ by (multiples of) the field modulus or only in the top bit: a coin that
                // reduces the nonce into one field element would not tell them apart
                .chain([base.proof.pow_nonce.wrapping_add(p64), base.proof.pow_nonce.wrapping_add(p64.wrapping_mul(2)), base.proof.pow_nonce ^ (1 << 63)])
                .collect();
            for nonce in candidates {
                let mut mutated = base.bytes.clone();
                mutated[nf.off..nf.off + 8].copy_from_slice(&nonce.to_le_bytes());
                let verdict = judge::<B, H>(&base, &mutated, obs);
                count(&verdict, "pow_nonce", obs)?;
            }
            Ok(())
        },
    }
}

impl SubCheck for Adaptive {
    type Case = AdaptCase;
    fn name(&self) -> String {
        "adaptive".into()
    }
    fn cases(&self, tier: Tier) -> u64 {
        tier.pick(1_200, 25_000)
    }
    fn watchdog_secs(&self) -> u64 {
        300
    }
    fn shrink_iters(&self) -> usize {
        40
    }
    fn rule(&self) -> String {
        "consistency-preserving substitutions computed from the verifier's query positions (obtained by replaying the transcript): the FRI remainder plus c times the vanishing polynomial of the queried last-layer points (whenever the number of distinct last-layer positions is below the remainder size), a GKR proof attached to a proof that does not use one, trailing bytes inside the Lagrange OOD block, other nonces (small offsets, + the field modulus, + twice the modulus, top bit), a surplus empty or filled node vector appended to a trace / constraint / FRI-layer opening with count byte and length prefix fixed up, the trace metadata extended by one to three zero bytes or by the tail of its last full chunk; non-trivial = the substitution was applicable and judged".into()
    }
    fn required_labels(&self, _t: Tier) -> Vec<String> {
        vec!["remainder-attack:possible".into(), "meta+zeros:inside-last-chunk".into(), "meta+zeros:new-chunk".into(), "meta+previous-chunk-tail".into()]
    }
    fn strategy(&self, tier: Tier) -> BoxedStrategy<AdaptCase> {
        let p = GenParams { max_log_n: tier.pick(6, 8), max_grinding: 4, fixed: None, allow_aux: true, allow_degenerate: false };
        (shape_strategy(&p), 0u8..6, any::<u128>().prop_map(X), prop::collection::vec(any::<u8>(), 1..60))
            .prop_map(|(shape, kind, c, extra)| AdaptCase { shape, kind, c, extra })
            .boxed()
    }
    fn check(&self, c: &AdaptCase, obs: &mut Obs) -> CheckResult {
        let tier = self.tier;
        crate::dispatch!(c.shape.field, c.shape.hasher, adapt_one, c, tier, obs)
    }
}

pub fn run(run: &mut Run) {
    run.assume("collision resistance of the hash functions; a random OOD point / FRI challenge hitting a root has probability < 2^-40");
    run.assume("exclusions: edits of the FRI partition count (listed by the property), and a nonce edit that satisfies the proof-of-work condition and provably (coin replay) leads to the same set of query positions");
    let tier = run.tier;
    let shapes = basket(tier.pick(4, 12), run.seed);
    let mut cases = vec![];
    for s in &shapes {
        // proof sizes are not known before proving: enumerate up to a generous bound, out-of-range bits are skipped
        let probe: Option<usize> = {
            let sc = s.clone();
            let mut o = Obs::default();
            let c = FlipCase { shape: sc, bit: usize::MAX };
            let _ = crate::dispatch!(c.shape.field, c.shape.hasher, flip_one, &c, &mut o);
            let key = vf_core::hash_str(&serde_json::to_string(s).unwrap_or_default());
            cache().lock().unwrap().get(&key).and_then(|b| b.as_ref().map(|b| b.bytes.len()))
        };
        if let Some(len) = probe {
            let limit = tier.pick(6 * 1024, 12 * 1024);
            if len <= limit {
                for bit in 0..len * 8 {
                    cases.push(FlipCase { shape: s.clone(), bit });
                }
            }
        }
    }
    run.note("exhaustive_bitflip_proofs", serde_json::json!(shapes.len()));
    run.enumerate(
        "bitflips-exhaustive",
        "every single-bit flip of the serialized proofs of a basket of small configurations (drawn by the C01 strategy under the run seed: three fields, with and without auxiliary segment, 8..12 queries, proofs up to 6 KiB quick / 12 KiB thorough); non-trivial = the flipped proof parsed with different decoded content and was judged by the verifier",
        true,
        cases.into_iter(),
        |c: &FlipCase, obs: &mut Obs| crate::dispatch!(c.shape.field, c.shape.hasher, flip_one, c, obs),
    );
    run.sub(&Structured { tier });
    run.sub(&Adaptive { tier });
    let _ = (to_el::<vf_repo::B64>, from_el::<vf_repo::B64>);
}
