//! The GenAir family: run-time described computations, their by-construction valid traces and the
//! harness' executable definition of trace validity (`ref_valid`). Everything in this file works on
//! integer residues with the reference field arithmetic only; nothing here calls /repo.

use std::collections::BTreeSet;

use serde::{Deserialize, Serialize};
use vf_core::X;
use vf_ref::Fp;

/// transition rule of one main column
#[derive(Serialize, Deserialize, Clone, Debug, PartialEq, Eq)]
pub enum Rule {
    /// next[j] = a * cur[j]^d + b * cur[k] + e          (a != 0, d >= 1)
    Poly { a: X, d: u32, b: X, k: usize, e: X },
    /// next[j] = a * per[m] * cur[j]^d + b * cur[k] + e (a != 0, d >= 1)
    PerPoly { a: X, d: u32, m: usize, b: X, k: usize, e: X },
    /// next[j] = ratio * cur[j]  (column = c * ratio^i: constant, low degree x^k or periodic)
    Geo { ratio: X },
}

#[derive(Serialize, Deserialize, Clone, Debug, PartialEq, Eq)]
pub enum Assert {
    Single { col: usize, step: usize, value: X },
    Periodic { col: usize, first: usize, stride: usize, value: X },
    Sequence { col: usize, first: usize, stride: usize, values: Vec<X> },
}

impl Assert {
    pub fn col(&self) -> usize {
        match self {
            Assert::Single { col, .. } | Assert::Periodic { col, .. } | Assert::Sequence { col, .. } => *col,
        }
    }
    /// the (step, value) pairs this assertion names, by the documented meaning
    pub fn cells(&self, n: usize) -> Vec<(usize, u128)> {
        match self {
            Assert::Single { step, value, .. } => vec![(*step, value.0)],
            Assert::Periodic { first, stride, value, .. } => (0..n / stride).map(|i| (first + i * stride, value.0)).collect(),
            Assert::Sequence { first, stride, values, .. } => values.iter().enumerate().map(|(i, v)| (first + i * stride, v.0)).collect(),
        }
    }
    pub fn kind(&self) -> &'static str {
        match self {
            Assert::Single { .. } => "single",
            Assert::Periodic { .. } => "periodic",
            Assert::Sequence { .. } => "sequence",
        }
    }
}

/// auxiliary (randomized) segment: regular columns are running sums / products over a main column
#[derive(Serialize, Deserialize, Clone, Debug, PartialEq, Eq)]
pub struct AuxDesc {
    /// per regular aux column: (kind 0 = sum: next = cur + r * main[c]; kind k >= 1 = product of degree k + 1:
    /// next = cur * (main[c] + r)^k, source main column c)
    pub cols: Vec<(u8, usize)>,
    pub num_rands: usize,
    pub lagrange: bool,
}

impl AuxDesc {
    pub fn width(&self) -> usize {
        self.cols.len() + self.lagrange as usize
    }
}

/// A complete statement: the computation description together with its asserted values.
#[derive(Serialize, Deserialize, Clone, Debug, PartialEq, Eq)]
pub struct Desc {
    pub log_n: u32,
    pub rules: Vec<Rule>,
    /// periodic columns: values over one cycle (length = power of two >= 2, <= n)
    pub periodic: Vec<Vec<X>>,
    pub exemptions: usize,
    pub assertions: Vec<Assert>,
    pub aux: Option<AuxDesc>,
    pub meta: Vec<u8>,
    /// LDE coset the computation asks for through `Air::domain_offset()` (0 = default, 1 = generator^-1,
    /// 2 = generator^3); part of the statement, so prover and verifier agree on it
    #[serde(default)]
    pub offset_sel: u8,
}

impl Desc {
    pub fn n(&self) -> usize {
        1 << self.log_n
    }
    pub fn width(&self) -> usize {
        self.rules.len()
    }
    pub fn aux_width(&self) -> usize {
        self.aux.as_ref().map(|a| a.width()).unwrap_or(0)
    }

    /// canonical encoding of the statement as integers (these become the public input elements)
    pub fn to_ints(&self) -> Vec<u128> {
        let mut v: Vec<u128> = vec![self.log_n as u128, self.rules.len() as u128, self.exemptions as u128];
        for r in &self.rules {
            match r {
                Rule::Poly { a, d, b, k, e } => v.extend([1, a.0, *d as u128, b.0, *k as u128, e.0]),
                Rule::PerPoly { a, d, m, b, k, e } => v.extend([2, a.0, *d as u128, *m as u128, b.0, *k as u128, e.0]),
                Rule::Geo { ratio } => v.extend([3, ratio.0]),
            }
        }
        v.push(self.periodic.len() as u128);
        for p in &self.periodic {
            v.push(p.len() as u128);
            v.extend(p.iter().map(|x| x.0));
        }
        v.push(self.assertions.len() as u128);
        for a in &self.assertions {
            match a {
                Assert::Single { col, step, value } => v.extend([1, *col as u128, *step as u128, value.0]),
                Assert::Periodic { col, first, stride, value } => v.extend([2, *col as u128, *first as u128, *stride as u128, value.0]),
                Assert::Sequence { col, first, stride, values } => {
                    v.extend([3, *col as u128, *first as u128, *stride as u128, values.len() as u128]);
                    v.extend(values.iter().map(|x| x.0));
                },
            }
        }
        match &self.aux {
            None => v.push(0),
            Some(a) => {
                v.extend([1, a.cols.len() as u128, a.num_rands as u128, a.lagrange as u128]);
                for (k, c) in &a.cols {
                    v.extend([*k as u128, *c as u128]);
                }
            },
        }
        if self.offset_sel != 0 {
            v.extend([0xD0, self.offset_sel as u128]);
        }
        v
    }
}

pub fn periodic_at(p: &[X], step: usize) -> u128 {
    p[step % p.len()].0
}

/// applies the rule of column j to row `cur` at step `step`, giving next[j]
pub fn apply_rule(fp: &Fp, d: &Desc, j: usize, cur: &[u128], step: usize) -> u128 {
    match &d.rules[j] {
        Rule::Poly { a, d: deg, b, k, e } => {
            let t = fp.mul(a.0, fp.pow(cur[j], *deg as u128));
            fp.add(fp.add(t, fp.mul(b.0, cur[*k])), e.0)
        },
        Rule::PerPoly { a, d: deg, m, b, k, e } => {
            let per = periodic_at(&d.periodic[*m], step);
            let t = fp.mul(fp.mul(a.0, per), fp.pow(cur[j], *deg as u128));
            fp.add(fp.add(t, fp.mul(b.0, cur[*k])), e.0)
        },
        Rule::Geo { ratio } => fp.mul(ratio.0, cur[j]),
    }
}

/// Main trace (column-major, residues): the rule is iterated from `first_row` for the enforced
/// transitions; rows after the last enforced transition are free and taken from `free_pool`
/// (geometric columns continue their rule so that periodic assertions stay satisfiable).
pub fn build_trace(fp: &Fp, d: &Desc, first_row: &[X], free_pool: &[X]) -> Vec<Vec<u128>> {
    let n = d.n();
    let w = d.width();
    let mut cols: Vec<Vec<u128>> = vec![Vec::with_capacity(n); w];
    let mut cur: Vec<u128> = (0..w).map(|j| first_row[j % first_row.len()].0 % fp.p).collect();
    for (j, c) in cols.iter_mut().enumerate() {
        c.push(cur[j]);
    }
    let last_enforced = n - d.exemptions; // transitions at steps 0..last_enforced-1
    let mut free_i = 0usize;
    for step in 0..n - 1 {
        let mut next = vec![0u128; w];
        for j in 0..w {
            let geo = matches!(d.rules[j], Rule::Geo { .. });
            if step < last_enforced || geo {
                next[j] = apply_rule(fp, d, j, &cur, step);
            } else {
                next[j] = if free_pool.is_empty() { 0 } else { free_pool[free_i % free_pool.len()].0 % fp.p };
                free_i += 1;
            }
        }
        for (j, c) in cols.iter_mut().enumerate() {
            c.push(next[j]);
        }
        cur = next;
    }
    cols
}

/// The harness' executable definition of validity of a main trace for a statement:
/// every rule holds at every non-exempt step and every asserted cell holds its asserted value.
/// Returns the first violation found, if any.
pub fn ref_valid(fp: &Fp, d: &Desc, trace: &[Vec<u128>]) -> Result<(), String> {
    let n = d.n();
    let w = d.width();
    if trace.len() != w || trace.iter().any(|c| c.len() != n) {
        return Err("shape".into());
    }
    for a in &d.assertions {
        for (step, value) in a.cells(n) {
            if trace[a.col()][step] != value {
                return Err(format!("assertion {} on column {} violated at step {step}", a.kind(), a.col()));
            }
        }
    }
    let mut cur = vec![0u128; w];
    for step in 0..n - d.exemptions {
        for j in 0..w {
            cur[j] = trace[j][step];
        }
        for j in 0..w {
            if apply_rule(fp, d, j, &cur, step) != trace[j][step + 1] {
                return Err(format!("transition of column {j} violated at step {step}"));
            }
        }
    }
    Ok(())
}

/// cells (col, step) named by the assertions, for the harness' own overlap bookkeeping
pub fn asserted_cells(d: &Desc) -> BTreeSet<(usize, usize)> {
    let mut s = BTreeSet::new();
    for a in &d.assertions {
        for (step, _) in a.cells(d.n()) {
            s.insert((a.col(), step));
        }
    }
    s
}

/// declared degree of the transition constraint of main column j: (base degree, cycle lengths)
pub fn declared_degree(d: &Desc, j: usize) -> (usize, Vec<usize>) {
    match &d.rules[j] {
        Rule::Poly { d: deg, .. } => (*deg as usize, vec![]),
        Rule::PerPoly { d: deg, m, .. } => (*deg as usize, vec![d.periodic[*m].len()]),
        Rule::Geo { .. } => (1, vec![]),
    }
}

/// minimum blowup factor the documented rule requires for a declared degree
pub fn min_blowup(base: usize, cycles: usize) -> usize {
    (base + cycles - 1).next_power_of_two().max(2)
}
