//! RecordingCoin: a `RandomCoin` that delegates to `DefaultRandomCoin` and logs every operation
//! (with arguments and results) into a thread-local transcript. Substituted for the prover's and the
//! verifier's coin through their public type parameters; no hook in /repo is needed.

use std::cell::RefCell;
use std::marker::PhantomData;

use winter_crypto::{DefaultRandomCoin, Digest, ElementHasher, Hasher, RandomCoin, RandomCoinError};
use winter_math::{FieldElement, StarkField};
use winter_utils::Serializable;

#[derive(Clone, Debug, PartialEq, Eq)]
pub enum Event {
    /// seed elements, serialized canonically
    New(Vec<u8>),
    Reseed(Vec<u8>),
    /// (extension degree, canonical bytes of the drawn element) or error
    Draw(usize, Option<Vec<u8>>),
    CheckLeadingZeros(u64, u32),
    DrawIntegers(usize, usize, u64, Option<Vec<usize>>),
}

impl Event {
    pub fn short(&self) -> String {
        match self {
            Event::New(s) => format!("new({}B)", s.len()),
            Event::Reseed(d) => format!("reseed({:02x}{:02x}..)", d[0], d[1]),
            Event::Draw(deg, _) => format!("draw<{deg}>"),
            Event::CheckLeadingZeros(v, r) => format!("pow({v})={r}"),
            Event::DrawIntegers(n, d, nonce, _) => format!("ints({n},{d},{nonce})"),
        }
    }
}

thread_local! {
    static LOG: RefCell<Vec<Event>> = const { RefCell::new(Vec::new()) };
}

pub fn take_log() -> Vec<Event> {
    LOG.with(|l| std::mem::take(&mut *l.borrow_mut()))
}
pub fn clear_log() {
    LOG.with(|l| l.borrow_mut().clear());
}
fn push(e: Event) {
    LOG.with(|l| l.borrow_mut().push(e));
}

pub struct RecordingCoin<B: StarkField, H: ElementHasher<BaseField = B>> {
    inner: DefaultRandomCoin<H>,
    _p: PhantomData<B>,
}

pub fn seed_bytes<B: StarkField>(seed: &[B]) -> Vec<u8> {
    let mut v = Vec::new();
    for s in seed {
        s.write_into(&mut v);
    }
    v
}

impl<B: StarkField, H: ElementHasher<BaseField = B>> RandomCoin for RecordingCoin<B, H> {
    type BaseField = B;
    type Hasher = H;

    fn new(seed: &[B]) -> Self {
        push(Event::New(seed_bytes(seed)));
        RecordingCoin { inner: DefaultRandomCoin::new(seed), _p: PhantomData }
    }

    fn reseed(&mut self, data: <H as Hasher>::Digest) {
        push(Event::Reseed(data.as_bytes().to_vec()));
        self.inner.reseed(data);
    }

    fn check_leading_zeros(&self, value: u64) -> u32 {
        let r = self.inner.check_leading_zeros(value);
        push(Event::CheckLeadingZeros(value, r));
        r
    }

    fn draw<E: FieldElement<BaseField = B>>(&mut self) -> Result<E, RandomCoinError> {
        let r = self.inner.draw::<E>();
        push(Event::Draw(E::EXTENSION_DEGREE, r.as_ref().ok().map(|e| e.to_bytes())));
        r
    }

    fn draw_integers(&mut self, num_values: usize, domain_size: usize, nonce: u64) -> Result<Vec<usize>, RandomCoinError> {
        let r = self.inner.draw_integers(num_values, domain_size, nonce);
        push(Event::DrawIntegers(num_values, domain_size, nonce, r.as_ref().ok().cloned()));
        r
    }
}
