//! C02 — soundness against invalid executions and against other statements.
//!
//! Oracle: the reference validity predicate `ref_valid`. A fault that leaves the trace valid must
//! still prove and verify; a fault that makes it invalid must never be accepted (the prover is built
//! without debug assertions, so it does not validate the trace itself). A proof for one statement
//! must be rejected under any different public inputs, trace shape or parameters.

use std::sync::Arc;

use proptest::prelude::*;
use proptest::strategy::ValueTree;
use proptest::test_runner::{Config, RngAlgorithm, TestRng, TestRunner};
use serde::{Deserialize, Serialize};
use vf_core::{pick_index, CheckResult, Fail, Obs, Run, SubCheck, Tier, X};
use vf_repo::FA;
use winter_air::proof::{Context, Proof};
use winter_air::{Air, ProofOptions, TraceInfo};
use winter_crypto::{DefaultRandomCoin, ElementHasher};
use winter_prover::Trace;

use crate::common::*;
use crate::desc::*;
use crate::gen::*;
use crate::genair::{AuxFault, GenAir, GenPub, GenTrace};

fn small_params(tier: Tier) -> GenParams {
    GenParams { max_log_n: tier.pick(6, 9), max_grinding: 4, fixed: None, allow_aux: true, allow_degenerate: false }
}
fn small_budget(tier: Tier) -> usize {
    tier.pick(1 << 16, 1 << 19)
}

// CELL FAULTS
// ================================================================================================

#[derive(Serialize, Deserialize, Clone, Debug)]
pub struct FaultCase {
    pub shape: Shape,
    pub col_sel: u16,
    pub step_sel: u16,
    pub delta: X,
    /// fault in the auxiliary segment instead of the main one (if the instance has one)
    pub in_aux: bool,
}

pub struct CellFault {
    pub tier: Tier,
}

/// (accepted?, detail)
fn prove_and_verify<B: FA, H: ElementHasher<BaseField = B> + Send + Sync>(
    desc: &Arc<Desc>,
    trace: &[Vec<u128>],
    options: ProofOptions,
    aux_fault: Option<AuxFault>,
    obs: &mut Obs,
) -> Result<bool, Fail> {
    match prove_with::<B, H, DefaultRandomCoin<H>>(desc, trace, options, aux_fault) {
        ProveOutcome::Proof(p) => match verify_with::<B, H, DefaultRandomCoin<H>>(p, desc, &min_sec0()) {
            VerifyOutcome::Ok => Ok(true),
            VerifyOutcome::Err(e) => {
                obs.label(format!("rejected:{}", variant(&format!("{e:?}"))));
                Ok(false)
            },
            VerifyOutcome::Panic(p) => {
                obs.label("rejected:verifier-panic");
                let _ = p;
                Ok(false)
            },
        },
        ProveOutcome::Err(e) => {
            obs.label("prover-refused");
            let _ = e;
            Ok(false)
        },
        ProveOutcome::Panic(p) => {
            obs.label("prover-panicked");
            let _ = p;
            Ok(false)
        },
    }
}

fn variant(dbg: &str) -> String {
    dbg.split(|c: char| !c.is_alphanumeric()).next().unwrap_or("").to_string()
}

fn fault_one<B: FA, H: ElementHasher<BaseField = B> + Send + Sync>(c: &FaultCase, tier: Tier, obs: &mut Obs) -> CheckResult {
    let fp = B::FP;
    let inst = realize::<B>(&c.shape, small_budget(tier));
    let desc = Arc::new(inst.desc.clone());
    let options = make_options(&inst.opts)?;
    let n = desc.n();
    let k = desc.exemptions;
    let delta = {
        let d = c.delta.0 % fp.p;
        if d == 0 {
            1
        } else {
            d
        }
    };
    let asserted: Vec<(usize, usize)> = asserted_cells(&desc).into_iter().collect();
    // position classes named by the property
    let (col, step, class) = {
        let w = desc.width();
        match c.step_sel % 4 {
            0 => {
                let steps = [0, 1, n - k - 1, n - k, (n - k + 1).min(n - 1), n - 1];
                let i = (c.step_sel as usize / 4) % 6;
                let cols = [0, w - 1, pick_index(c.col_sel, w)];
                (cols[(c.col_sel as usize) % 3], steps[i], ["step=0", "step=1", "step=last-enforced", "step=n-k", "step=n-k+1", "step=n-1"][i])
            },
            1 if !asserted.is_empty() => {
                let (col, step) = asserted[pick_index(c.step_sel, asserted.len())];
                (col, step, "step=asserted")
            },
            _ => (pick_index(c.col_sel, w), pick_index(c.step_sel, n), "step=random"),
        }
    };
    obs.label(class);
    if c.in_aux && desc.aux.is_some() {
        // fault in the auxiliary segment, injected after it has been built
        let aux = desc.aux.as_ref().unwrap();
        // the Lagrange kernel column (last one, if present) takes part too: its boundary constraint and its
        // log2(n) transition constraints determine every row, so any cell fault makes it invalid, while
        // scaling the whole column keeps the (homogeneous) transition constraints and breaks the boundary only
        let acol = if aux.lagrange && (c.col_sel / 3) % 2 == 1 { aux.cols.len() } else { pick_index(c.col_sel, aux.cols.len()) };
        if acol == aux.cols.len() {
            let whole = (c.col_sel / 6) % 2 == 0;
            obs.label(if whole { "aux-fault:lagrange-boundary-only" } else { "aux-fault:lagrange-cell" });
            let fault = AuxFault { col: acol, row: step, delta: (delta as u32).max(1), whole_column: whole };
            let accepted = prove_and_verify::<B, H>(&desc, &inst.trace, options, Some(fault), obs)?;
            obs.nontrivial();
            if accepted {
                return Err(Fail::new(
                    "accepted-invalid/lagrange-kernel-cell",
                    format!("a proof whose Lagrange kernel column was corrupted ({}) was accepted (n = {n})", if whole { "whole column scaled".to_string() } else { format!("row {step}") }),
                ));
            }
            return Ok(());
        }
        // regular aux columns: the rule is applied on every row, so rows 0..=n-k are constrained
        // (row r is `current` of step r or `next` of step r-1); row 0 is also asserted
        // every third aux fault transforms the whole column consistently with the transition rule, so
        // that ONLY the boundary assertion of that column is violated
        let whole = c.col_sel % 3 == 0;
        let invalid = whole || step <= n - k;
        obs.label(if whole { "aux-fault:assertion-only" } else if invalid { "aux-fault:invalidating" } else { "aux-fault:harmless" });
        let fault = AuxFault { col: acol, row: step, delta: (delta as u32).max(1), whole_column: whole };
        let accepted = prove_and_verify::<B, H>(&desc, &inst.trace, options, Some(fault), obs)?;
        obs.nontrivial_if(invalid);
        if invalid && accepted {
            return Err(Fail::new("accepted-invalid/aux-cell", format!("a proof for an auxiliary segment violating a constraint at row {step} of aux column {acol} was accepted")));
        }
        if !invalid && !accepted {
            return Err(Fail::new("rejected-valid/aux-cell", format!("a fault in an unconstrained auxiliary cell (row {step}, n = {n}, exemptions = {k}) made the proof fail")));
        }
        return Ok(());
    }
    let mut trace = inst.trace.clone();
    trace[col][step] = fp.add(trace[col][step], delta);
    let verdict = ref_valid(&fp, &desc, &trace);
    // cross-check the reference predicate with Trace::validate (single segment only)
    if desc.aux.is_none() {
        let t = GenTrace::<B>::new(&desc, &trace);
        let air = GenAir::<B>::new(t.info.clone(), GenPub::new(desc.clone()), options.clone());
        let repo_ok = vf_core::catch(|| t.validate::<GenAir<B>, B>(&air, None)).is_ok();
        if repo_ok != verdict.is_ok() {
            return Err(Fail::new(
                "validity-models-disagree",
                format!("reference predicate says {:?} but Trace::validate says valid = {repo_ok} (fault at column {col}, step {step})", verdict),
            ));
        }
    }
    let accepted = prove_and_verify::<B, H>(&desc, &trace, options, None, obs)?;
    match verdict {
        Ok(()) => {
            obs.label("fault:trace-still-valid");
            if !accepted {
                return Err(Fail::new(
                    "rejected-valid/cell",
                    format!("fault at column {col}, step {step} (n = {n}, exemptions = {k}) leaves the trace valid, yet no accepted proof was produced"),
                ));
            }
        },
        Err(why) => {
            obs.label("fault:trace-invalid");
            obs.nontrivial();
            if accepted {
                return Err(Fail::new(
                    format!("accepted-invalid/{class}"),
                    format!("proof of an invalid execution accepted: fault at column {col}, step {step} (n = {n}, exemptions = {k}): {why}"),
                ));
            }
        },
    }
    Ok(())
}

impl SubCheck for CellFault {
    type Case = FaultCase;
    fn name(&self) -> String {
        "cell-fault".into()
    }
    fn cases(&self, tier: Tier) -> u64 {
        tier.pick(1_500, 30_000)
    }
    fn watchdog_secs(&self) -> u64 {
        300
    }
    fn shrink_iters(&self) -> usize {
        40
    }
    fn rule(&self) -> String {
        "a valid GenAir instance (C01 family, smaller sizes) plus one fault: a non-zero delta added to one cell; step drawn from {0, 1, n-k-1, n-k, n-k+1, n-1} / asserted steps of every assertion / random, column from {0, w-1, asserted, random}; or a fault in an auxiliary-segment cell; oracle = reference validity predicate; non-trivial = the fault makes the trace invalid (and an answer was obtained from the verifier or prover)".into()
    }
    fn required_labels(&self, _t: Tier) -> Vec<String> {
        ["fault:trace-invalid", "fault:trace-still-valid", "step=last-enforced", "step=n-k", "step=asserted", "step=0", "aux-fault:invalidating", "aux-fault:assertion-only", "aux-fault:lagrange-cell", "aux-fault:lagrange-boundary-only"].iter().map(|s| s.to_string()).collect()
    }
    fn strategy(&self, tier: Tier) -> BoxedStrategy<FaultCase> {
        (shape_strategy(&small_params(tier)), any::<u16>(), any::<u16>(), prop_oneof![Just(X(1)), any::<u128>().prop_map(X)], prop::bool::weighted(0.3))
            .prop_map(|(shape, col_sel, step_sel, delta, in_aux)| FaultCase { shape, col_sel, step_sel, delta, in_aux })
            .boxed()
    }
    fn check(&self, c: &FaultCase, obs: &mut Obs) -> CheckResult {
        let tier = self.tier;
        crate::dispatch!(c.shape.field, c.shape.hasher, fault_one, c, tier, obs)
    }
}

// CORRELATED FAULTS IN SEVERAL ASSERTED CELLS
// ================================================================================================

#[derive(Serialize, Deserialize, Clone, Debug)]
pub struct MultiCase {
    pub shape: Shape,
    pub step_sel: u16,
    pub col_sel: u16,
    pub delta: X,
    /// 0: (d, -d)   1: (d, d)   2: (d, -2d, d)   3: independent deltas   4: (d, -d) on two steps of one column
    pub pattern: u8,
}

pub struct CorrelatedFaults {
    pub tier: Tier,
}

fn multi_one<B: FA, H: ElementHasher<BaseField = B> + Send + Sync>(c: &MultiCase, tier: Tier, obs: &mut Obs) -> CheckResult {
    let fp = B::FP;
    // steer the shape towards several exempted transitions (the selector's classes 0/1 mostly give one)
    let mut shape = c.shape.clone();
    if shape.exempt_sel % 4 < 2 {
        shape.exempt_sel |= 2;
    }
    let inst = realize::<B>(&shape, small_budget(tier));
    let n = inst.desc.n();
    let k = inst.desc.exemptions;
    let w = inst.desc.width();
    // rows n-k+1 .. n-1 are neither `current` nor `next` of an enforced transition: a fault there can
    // violate assertions only
    if k < 2 {
        obs.label("excluded:no-free-row");
        return Ok(());
    }
    let free: Vec<usize> = (n - k + 1..n).collect();
    let d = {
        let d = c.delta.0 % fp.p;
        if d == 0 {
            1
        } else {
            d
        }
    };
    let neg = |x: u128| fp.sub(0, x);
    // the faulted cells and their deltas
    let cells: Vec<(usize, usize, u128)> = match c.pattern % 5 {
        4 if free.len() >= 2 => {
            let col = pick_index(c.col_sel, w);
            let i = pick_index(c.step_sel, free.len() - 1);
            obs.label("pattern:(d,-d)-two-steps-one-column");
            vec![(col, free[i], d), (col, free[i + 1], neg(d))]
        },
        p => {
            if w < 2 {
                obs.label("excluded:single-column");
                return Ok(());
            }
            let step = free[pick_index(c.step_sel, free.len())];
            let c0 = pick_index(c.col_sel, w);
            let c1 = (c0 + 1 + (c.col_sel as usize % (w - 1))) % w;
            match p {
                1 => {
                    obs.label("pattern:(d,d)");
                    vec![(c0, step, d), (c1, step, d)]
                },
                2 if w >= 3 => {
                    let c2 = (0..w).find(|x| *x != c0 && *x != c1).unwrap();
                    obs.label("pattern:(d,-2d,d)");
                    vec![(c0, step, d), (c1, step, neg(fp.add(d, d))), (c2, step, d)]
                },
                3 => {
                    obs.label("pattern:independent");
                    vec![(c0, step, d), (c1, step, fp.add(fp.mul(d, d), 1).max(1))]
                },
                _ => {
                    obs.label("pattern:(d,-d)");
                    vec![(c0, step, d), (c1, step, neg(d))]
                },
            }
        },
    };
    // statement: the instance's own plus single assertions of the TRUE values of the cells about to be faulted
    let mut d2 = inst.desc.clone();
    let used = asserted_cells(&inst.desc);
    for (col, step, _) in &cells {
        if !used.contains(&(*col, *step)) {
            d2.assertions.push(Assert::Single { col: *col, step: *step, value: X(inst.trace[*col][*step]) });
        }
    }
    let desc = Arc::new(d2);
    let options = make_options(&inst.opts)?;
    if ref_valid(&fp, &desc, &inst.trace).is_err() {
        return Err(Fail::new("harness/extended-statement", "the unfaulted trace does not satisfy the statement extended by true assertions"));
    }
    // control: the unfaulted execution of the extended statement is accepted
    if !prove_and_verify::<B, H>(&desc, &inst.trace, options.clone(), None, obs)? {
        return Err(Fail::new("rejected-valid/extended-statement", format!("the valid execution is not accepted once true assertions at cells {:?} are added", cells.iter().map(|x| (x.0, x.1)).collect::<Vec<_>>())));
    }
    let mut trace = inst.trace.clone();
    for (col, step, delta) in &cells {
        trace[*col][*step] = fp.add(trace[*col][*step], *delta);
    }
    match ref_valid(&fp, &desc, &trace) {
        Ok(()) => Err(Fail::new("harness/fault-not-invalidating", "faulting asserted cells left the trace valid")),
        Err(why) => {
            obs.nontrivial();
            if prove_and_verify::<B, H>(&desc, &trace, options, None, obs)? {
                return Err(Fail::new(
                    "accepted-invalid/correlated-faults",
                    format!("proof of an invalid execution accepted: asserted cells faulted together (col, step, delta) = {cells:?} (n = {n}, exemptions = {k}): {why}"),
                ));
            }
            Ok(())
        },
    }
}

impl SubCheck for CorrelatedFaults {
    type Case = MultiCase;
    fn name(&self) -> String {
        "correlated-faults".into()
    }
    fn cases(&self, tier: Tier) -> u64 {
        tier.pick(1_000, 20_000)
    }
    fn watchdog_secs(&self) -> u64 {
        300
    }
    fn shrink_iters(&self) -> usize {
        40
    }
    fn rule(&self) -> String {
        "a valid GenAir instance with >= 2 exempted transitions; two or three cells of one exempted row (different columns), or two exempted rows of one column, are asserted with their true values and then faulted together with deltas (d, -d), (d, d), (d, -2d, d) or unrelated ones, so that only boundary assertions are violated and the errors cancel in their sum; oracle = reference validity predicate; the unfaulted execution of the same extended statement must be accepted; non-trivial = the faulted trace is invalid and an answer was obtained".into()
    }
    fn required_labels(&self, _t: Tier) -> Vec<String> {
        ["pattern:(d,-d)", "pattern:(d,d)", "pattern:(d,-2d,d)", "pattern:independent", "pattern:(d,-d)-two-steps-one-column"].iter().map(|s| s.to_string()).collect()
    }
    fn strategy(&self, tier: Tier) -> BoxedStrategy<MultiCase> {
        (shape_strategy(&small_params(tier)), any::<u16>(), any::<u16>(), prop_oneof![Just(X(1)), any::<u128>().prop_map(X)], 0u8..5)
            .prop_map(|(shape, step_sel, col_sel, delta, pattern)| MultiCase { shape, step_sel, col_sel, delta, pattern })
            .boxed()
    }
    fn check(&self, c: &MultiCase, obs: &mut Obs) -> CheckResult {
        let tier = self.tier;
        crate::dispatch!(c.shape.field, c.shape.hasher, multi_one, c, tier, obs)
    }
}

// EXHAUSTIVE CELLS OF SMALL TRACES
// ================================================================================================

#[derive(Serialize, Deserialize, Clone, Debug)]
pub struct CellCase {
    pub shape: Shape,
    pub col: usize,
    pub step: usize,
}

fn cell_one<B: FA, H: ElementHasher<BaseField = B> + Send + Sync>(c: &CellCase, obs: &mut Obs) -> CheckResult {
    let fp = B::FP;
    let inst = realize::<B>(&c.shape, 1 << 14);
    let desc = Arc::new(inst.desc.clone());
    let options = make_options(&inst.opts)?;
    if c.col >= desc.width() || c.step >= desc.n() {
        return Ok(());
    }
    let mut trace = inst.trace.clone();
    trace[c.col][c.step] = fp.add(trace[c.col][c.step], 1);
    let verdict = ref_valid(&fp, &desc, &trace);
    let accepted = prove_and_verify::<B, H>(&desc, &trace, options, None, obs)?;
    obs.label(format!("n={}", desc.n()));
    match verdict {
        Ok(()) => {
            obs.label("fault:trace-still-valid");
            if !accepted {
                return Err(Fail::new("rejected-valid/cell", format!("cell ({}, {}) is unconstrained but the proof failed", c.col, c.step)));
            }
        },
        Err(why) => {
            obs.label("fault:trace-invalid");
            obs.nontrivial();
            if accepted {
                return Err(Fail::new("accepted-invalid/cell", format!("cell ({}, {}): {why}", c.col, c.step)));
            }
        },
    }
    Ok(())
}

/// a few small shapes, generated by the same strategy under a fixed library RNG
fn fixed_small_shapes(count: usize, seed: u64) -> Vec<Shape> {
    let mut bytes = [0u8; 32];
    bytes[..8].copy_from_slice(&seed.to_le_bytes());
    bytes[8] = 0xC2;
    let mut runner = TestRunner::new_with_rng(Config::default(), TestRng::from_seed(RngAlgorithm::ChaCha, &bytes));
    let params = GenParams { max_log_n: 4, max_grinding: 0, fixed: None, allow_aux: false, allow_degenerate: false };
    let strat = shape_strategy(&params);
    let mut out = vec![];
    while out.len() < count {
        let mut s = strat.new_tree(&mut runner).expect("shape").current();
        if s.rules.len() > 6 {
            s.rules.truncate(1 + s.rules.len() % 6);
        }
        s.opts.log_blowup = s.opts.log_blowup.min(3);
        out.push(s);
    }
    out
}

// OTHER STATEMENTS: PUBLIC INPUTS, TRACE SHAPE, PARAMETERS
// ================================================================================================

#[derive(Serialize, Deserialize, Clone, Debug)]
pub struct OtherCase {
    pub shape: Shape,
    pub kind: u8,
    pub sel: u16,
    pub sel2: u16,
}

pub struct OtherStatement {
    pub tier: Tier,
}

fn bump(fp: &vf_ref::Fp, x: &mut X, up: bool) {
    x.0 = if up { fp.add(x.0 % fp.p, 1) } else { fp.sub(x.0 % fp.p, 1) };
}

fn perturb_desc(fp: &vf_ref::Fp, d: &Desc, trace: &[Vec<u128>], kind: u8, sel: u16, sel2: u16) -> (Desc, &'static str) {
    let mut out = d.clone();
    let up = sel2 % 2 == 0;
    let n = d.n();
    match kind % 9 {
        0 => {
            // one asserted value +-1
            let i = pick_index(sel, out.assertions.len());
            match &mut out.assertions[i] {
                Assert::Single { value, .. } | Assert::Periodic { value, .. } => bump(fp, value, up),
                Assert::Sequence { values, .. } => {
                    let j = pick_index(sel2, values.len());
                    bump(fp, &mut values[j], up)
                },
            }
            (out, "assertion-value+-1")
        },
        1 => {
            // a rule constant +-1
            let j = pick_index(sel, out.rules.len());
            match &mut out.rules[j] {
                Rule::Poly { a, b, e, .. } | Rule::PerPoly { a, b, e, .. } => match sel2 % 3 {
                    0 => bump(fp, e, up),
                    1 => bump(fp, b, up),
                    _ => {
                        bump(fp, a, up);
                        if a.0 == 0 {
                            a.0 = 2
                        }
                    },
                },
                Rule::Geo { ratio } => bump(fp, ratio, up),
            }
            (out, "rule-constant+-1")
        },
        2 => {
            // swap two values of a sequence assertion, or two assertions' values
            if let Some(Assert::Sequence { values, .. }) = out.assertions.iter_mut().find(|a| matches!(a, Assert::Sequence { .. })) {
                let (i, j) = (pick_index(sel, values.len()), pick_index(sel2, values.len()));
                values.swap(i, j);
            } else if out.assertions.len() >= 2 {
                let vals: Vec<X> = out.assertions.iter().map(|a| X(a.cells(n)[0].1)).collect();
                let l = out.assertions.len();
                for (i, a) in out.assertions.iter_mut().enumerate() {
                    if let Assert::Single { value, .. } | Assert::Periodic { value, .. } = a {
                        *value = vals[(i + 1) % l];
                    }
                }
            }
            (out, "values-swapped")
        },
        3 => {
            // an extra, TRUE assertion (different public inputs, same execution)
            let used = asserted_cells(d);
            let col = pick_index(sel, d.width());
            if let Some(step) = (0..n).map(|o| (pick_index(sel2, n) + o) % n).find(|s| !used.contains(&(col, *s))) {
                out.assertions.push(Assert::Single { col, step, value: X(trace[col][step]) });
            }
            (out, "extra-true-assertion")
        },
        4 => {
            if out.assertions.len() > 1 {
                let i = pick_index(sel, out.assertions.len());
                out.assertions.remove(i);
            }
            (out, "assertion-removed")
        },
        5 => {
            // exemptions +-1 (kept within 1..=n/2+1)
            let k = out.exemptions;
            out.exemptions = if up && k < n / 2 + 1 { k + 1 } else if k > 1 { k - 1 } else { k + 1 };
            (out, "exemptions+-1")
        },
        6 => {
            if let Some(p) = out.periodic.first_mut() {
                let j = pick_index(sel, p.len());
                bump(fp, &mut p[j], up);
            }
            (out, "periodic-value+-1")
        },
        7 => {
            // a single assertion moved to another step / column (value kept)
            let i = pick_index(sel, out.assertions.len());
            if let Assert::Single { step, .. } = &mut out.assertions[i] {
                *step = (*step + 1 + pick_index(sel2, n - 1)) % n;
            }
            (out, "assertion-moved")
        },
        _ => {
            // rule degree +-1 (may change the blowup the AIR needs)
            let j = pick_index(sel, out.rules.len());
            if let Rule::Poly { d, .. } | Rule::PerPoly { d, .. } = &mut out.rules[j] {
                *d = if up { *d + 1 } else { (*d).max(2) - 1 };
            }
            (out, "rule-degree+-1")
        },
    }
}

fn other_one<B: FA, H: ElementHasher<BaseField = B> + Send + Sync>(c: &OtherCase, tier: Tier, obs: &mut Obs) -> CheckResult {
    let fp = B::FP;
    let inst = realize::<B>(&c.shape, small_budget(tier));
    let desc = Arc::new(inst.desc.clone());
    let options = make_options(&inst.opts)?;
    let proof = match prove_with::<B, H, DefaultRandomCoin<H>>(&desc, &inst.trace, options.clone(), None) {
        ProveOutcome::Proof(p) => p,
        _ => {
            obs.label("no-proof");
            return Ok(());
        },
    };
    // the honest statement is accepted (otherwise this case says nothing)
    if !matches!(verify_with::<B, H, DefaultRandomCoin<H>>(proof.clone(), &desc, &min_sec0()), VerifyOutcome::Ok) {
        obs.label("honest-not-accepted");
        return Ok(());
    }
    if inst.weak_seed_binding() {
        // all-constant trace and few queries: the proof is tied to its seed by the query positions only
        obs.label("excluded:constant-trace-below-40-seed-bits");
        return Ok(());
    }
    if c.kind < 9 {
        let (d2, what) = perturb_desc(&fp, &desc, &inst.trace, c.kind, c.sel, c.sel2);
        obs.label(format!("pub:{what}"));
        if d2 == *desc || d2.to_ints().iter().map(|v| v % fp.p).collect::<Vec<_>>() == desc.to_ints().iter().map(|v| v % fp.p).collect::<Vec<_>>() {
            obs.label("excluded:same-statement");
            return Ok(());
        }
        obs.nontrivial();
        let d2 = Arc::new(d2);
        match verify_with::<B, H, DefaultRandomCoin<H>>(proof, &d2, &min_sec0()) {
            VerifyOutcome::Ok => Err(Fail::new(format!("accepted-other-public-inputs/{what}"), format!("a proof for one statement was accepted for different public inputs ({what})"))),
            VerifyOutcome::Err(_) => Ok(()),
            VerifyOutcome::Panic(p) => {
                obs.label(format!("panic:{}", p.key()));
                Ok(())
            },
        }
    } else {
        // different trace shape / parameters in the proof context
        let ti = proof.trace_info().clone();
        let o = inst.opts.clone();
        let (ti2, o2, what): (TraceInfo, RealOpts, &str) = match c.kind % 9 {
            0 => (TraceInfo::new_multi_segment(ti.main_trace_width(), ti.aux_segment_width(), ti.get_num_aux_segment_rand_elements(), ti.length() * 2, ti.meta().to_vec()), o, "trace-length*2"),
            1 if ti.length() > 8 => (TraceInfo::new_multi_segment(ti.main_trace_width(), ti.aux_segment_width(), ti.get_num_aux_segment_rand_elements(), ti.length() / 2, ti.meta().to_vec()), o, "trace-length/2"),
            2 if ti.width() < 255 => (TraceInfo::new_multi_segment(ti.main_trace_width() + 1, ti.aux_segment_width(), ti.get_num_aux_segment_rand_elements(), ti.length(), ti.meta().to_vec()), o, "width+1"),
            3 => {
                let mut m = ti.meta().to_vec();
                if m.len() >= TraceInfo::MAX_META_LENGTH {
                    m[0] ^= 1;
                } else {
                    // every fourth time a zero byte: metadata that differs by trailing zero bytes only; every fourth
                    // time the tail of the previous (ELEMENT_BYTES - 1)-byte chunk: what an encoder that reuses
                    // its chunk buffer without clearing it would make of a short last chunk
                    let chunk = fp.elem_bytes - 1;
                    let t = m.len() % chunk;
                    if c.sel2 % 4 == 1 && m.len() > chunk && t != 0 && m.len() + (chunk - t) <= TraceInfo::MAX_META_LENGTH {
                        let prev_start = m.len() - t - chunk;
                        let tail: Vec<u8> = m[prev_start + t..prev_start + chunk].to_vec();
                        m.extend(tail);
                        obs.label("ctx:meta-extended-by-previous-chunk-tail");
                    } else {
                        m.push(if c.sel2 % 4 == 0 { 0 } else { c.sel as u8 });
                    }
                }
                (TraceInfo::new_multi_segment(ti.main_trace_width(), ti.aux_segment_width(), ti.get_num_aux_segment_rand_elements(), ti.length(), m), o, "meta-extended")
            },
            4 => {
                let q = if o.queries > 1 { o.queries - 1 } else { o.queries + 1 };
                (ti, RealOpts { queries: q, ..o }, "queries+-1")
            },
            5 if o.blowup < 128 => (ti, RealOpts { blowup: o.blowup * 2, ..o }, "blowup*2"),
            6 => (ti, RealOpts { grinding: if o.grinding > 0 { o.grinding - 1 } else { 1 }, ..o }, "grinding+-1"),
            7 => (ti, RealOpts { folding: if o.folding == 2 { 4 } else { o.folding / 2 }, ..o }, "folding-changed"),
            _ => (ti, RealOpts { rem_deg: if o.rem_deg == 0 { 1 } else { o.rem_deg / 2 }, ..o }, "remainder-degree-changed"),
        };
        obs.label(format!("ctx:{what}"));
        let opts2 = match make_options(&o2) {
            Ok(x) => x,
            Err(_) => return Ok(()),
        };
        let ctx = match vf_core::catch(|| Context::new::<B>(ti2, opts2)) {
            Ok(c) => c,
            Err(_) => return Ok(()),
        };
        if ctx == proof.context {
            obs.label("excluded:same-context");
            return Ok(());
        }
        obs.nontrivial();
        // two different contexts that are encoded into the very same public-coin seed elements (metadata
        // that differs only by trailing zero bytes inside the last chunk) form their own failure class
        use winter_math::ToElements;
        let same_seed = ToElements::<B>::to_elements(&ctx) == ToElements::<B>::to_elements(&proof.context);
        let what: &str = if same_seed {
            obs.label("ctx:same-seed-elements");
            "context-with-identical-seed-elements"
        } else {
            what
        };
        let p2 = Proof { context: ctx, ..proof };
        match verify_with::<B, H, DefaultRandomCoin<H>>(p2, &desc, &min_sec0()) {
            VerifyOutcome::Ok => Err(Fail::new(format!("accepted-other-context/{what}"), format!("a proof was accepted after its context was changed ({what})"))),
            VerifyOutcome::Err(_) => Ok(()),
            VerifyOutcome::Panic(p) => {
                obs.label(format!("panic:{}", p.key()));
                Ok(())
            },
        }
    }
}

impl SubCheck for OtherStatement {
    type Case = OtherCase;
    fn name(&self) -> String {
        "other-statement".into()
    }
    fn cases(&self, tier: Tier) -> u64 {
        tier.pick(1_200, 25_000)
    }
    fn watchdog_secs(&self) -> u64 {
        300
    }
    fn shrink_iters(&self) -> usize {
        40
    }
    fn rule(&self) -> String {
        "an accepted proof verified against a different statement: every kind of public input perturbed (asserted value +-1, rule constant +-1, swapped values, an extra true assertion, a removed assertion, exemptions +-1, periodic value +-1, moved assertion, rule degree +-1) or a different proof context (trace length *2 and /2, width+1, metadata, queries, blowup, grinding, folding factor, remainder degree); perturbations that leave the statement unchanged are excluded and counted; non-trivial = statement really differs".into()
    }
    fn strategy(&self, tier: Tier) -> BoxedStrategy<OtherCase> {
        (shape_strategy(&small_params(tier)), 0u8..18, any::<u16>(), any::<u16>())
            .prop_map(|(shape, kind, sel, sel2)| OtherCase { shape, kind, sel, sel2 })
            .boxed()
    }
    fn check(&self, c: &OtherCase, obs: &mut Obs) -> CheckResult {
        let tier = self.tier;
        crate::dispatch!(c.shape.field, c.shape.hasher, other_one, c, tier, obs)
    }
}

pub fn run(run: &mut Run) {
    run.assume("an invalid trace is accepted by luck only if a random out-of-domain point hits a root of a non-zero polynomial of degree < 2^20 over a field of >= 2^62 elements (< 2^-40 per case), independent of the number of queries");
    run.assume("the prover is built without debug assertions, so it does not validate the trace itself");
    let tier = run.tier;
    // exhaustive: every cell of a few small traces
    let shapes = fixed_small_shapes(tier.pick(6, 24), run.seed);
    let mut cells = vec![];
    for s in &shapes {
        let n = 1usize << s.log_n.clamp(3, 4);
        for col in 0..s.rules.len().min(6) {
            for step in 0..n {
                cells.push(CellCase { shape: s.clone(), col, step });
            }
        }
    }
    run.enumerate(
        "all-cells-small",
        "every (column, step) cell of a few small instances (n = 8 or 16, up to 6 columns, shapes drawn by the C01 strategy under the run seed) corrupted by +1; oracle = reference validity predicate; non-trivial = fault makes the trace invalid",
        true,
        cells.into_iter(),
        |c: &CellCase, obs: &mut Obs| crate::dispatch!(c.shape.field, c.shape.hasher, cell_one, c, obs),
    );
    run.sub(&CellFault { tier });
    run.sub(&CorrelatedFaults { tier });
    run.sub(&OtherStatement { tier });
}
