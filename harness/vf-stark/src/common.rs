//! Shared plumbing for the STARK-level checks: building options, proving and verifying an instance.

use std::sync::Arc;

use vf_core::{catch, Fail, PanicSig};
use vf_repo::FA;
use winter_air::proof::Proof;
use winter_air::{FieldExtension, ProofOptions};
use winter_crypto::{ElementHasher, RandomCoin};
use winter_prover::Prover;
use winter_verifier::{verify, AcceptableOptions, VerifierError};

use crate::desc::Desc;
use crate::gen::{Instance, RealOpts};
use crate::genair::{AuxFault, GenAir, GenProver, GenPub, GenTrace};

pub fn field_ext(e: u8) -> FieldExtension {
    match e {
        1 => FieldExtension::None,
        2 => FieldExtension::Quadratic,
        _ => FieldExtension::Cubic,
    }
}

pub fn make_options(o: &RealOpts) -> Result<ProofOptions, Fail> {
    catch(|| ProofOptions::new(o.queries, o.blowup, o.grinding, field_ext(o.ext), o.folding, o.rem_deg))
        .map_err(|p| Fail::new("harness/options-refused", format!("the generator produced options the constructor refuses: {}", p.msg)))
}

pub enum ProveOutcome {
    Proof(Proof),
    Err(String),
    Panic(PanicSig),
}

/// is this the documented "could not draw after 1000 tries" event (outside the claims)?
pub fn is_coin_exhaustion(msg: &str) -> bool {
    msg.contains("failed to draw") || msg.contains("FailedToDrawFieldElement") || msg.contains("failed to generate the random elements")
}

pub fn prove_with<B, H, R>(desc: &Arc<Desc>, trace_cols: &[Vec<u128>], options: ProofOptions, aux_fault: Option<AuxFault>) -> ProveOutcome
where
    B: FA,
    H: ElementHasher<BaseField = B> + Send + Sync,
    R: RandomCoin<BaseField = B, Hasher = H> + Send + Sync,
{
    let r = catch(|| {
        let trace = GenTrace::<B>::new(desc, trace_cols);
        let mut prover = GenProver::<B, H, R>::new(desc.clone(), options);
        prover.aux_fault = aux_fault;
        prover.prove(trace)
    });
    match r {
        Ok(Ok(p)) => ProveOutcome::Proof(p),
        Ok(Err(e)) => ProveOutcome::Err(format!("{e}")),
        Err(p) => ProveOutcome::Panic(p),
    }
}

pub fn prove_instance<B, H, R>(inst: &Instance, desc: &Arc<Desc>) -> Result<ProveOutcome, Fail>
where
    B: FA,
    H: ElementHasher<BaseField = B> + Send + Sync,
    R: RandomCoin<BaseField = B, Hasher = H> + Send + Sync,
{
    let options = make_options(&inst.opts)?;
    Ok(prove_with::<B, H, R>(desc, &inst.trace, options, None))
}

pub enum VerifyOutcome {
    Ok,
    Err(VerifierError),
    Panic(PanicSig),
}

pub fn verify_with<B, H, R>(proof: Proof, desc: &Arc<Desc>, acceptable: &AcceptableOptions) -> VerifyOutcome
where
    B: FA,
    H: ElementHasher<BaseField = B>,
    R: RandomCoin<BaseField = B, Hasher = H>,
{
    match catch(|| verify::<GenAir<B>, H, R>(proof, GenPub::new(desc.clone()), acceptable)) {
        Ok(Ok(())) => VerifyOutcome::Ok,
        Ok(Err(e)) => VerifyOutcome::Err(e),
        Err(p) => VerifyOutcome::Panic(p),
    }
}

pub fn min_sec0() -> AcceptableOptions {
    AcceptableOptions::MinConjecturedSecurity(0)
}
