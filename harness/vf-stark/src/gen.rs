//! Generation of GenAir instances: a `Shape` (what proptest generates and shrinks, what replay files
//! carry) is *realised* deterministically into a statement (`Desc`), a by-construction valid trace
//! and an admissible option set. Realisation repairs instead of rejecting (construction over
//! filtering): sizes are capped by a work budget, FRI schedules are made well-formed, assertions
//! that would overlap are dropped.

use std::collections::BTreeSet;

use proptest::prelude::*;
use serde::{Deserialize, Serialize};
use vf_core::{pick_index, Tier, X};
use vf_repo::FA;
use winter_math::StarkField;

use crate::desc::*;

#[derive(Serialize, Deserialize, Clone, Debug)]
pub struct RuleSpec {
    /// 0..=3 Poly, 4 PerPoly, 5 Geo
    pub kind: u8,
    pub a: X,
    pub b: X,
    pub e: X,
    pub d_sel: u16,
    pub k_sel: u16,
    pub m_sel: u16,
}

#[derive(Serialize, Deserialize, Clone, Debug)]
pub struct PerSpec {
    pub log_cycle_sel: u16,
    pub values: Vec<X>,
}

#[derive(Serialize, Deserialize, Clone, Debug)]
pub struct AssertPos {
    /// 0 single, 1 periodic, 2 sequence
    pub kind: u8,
    pub col_sel: u16,
    pub first_sel: u16,
    pub stride_sel: u16,
}

#[derive(Serialize, Deserialize, Clone, Debug)]
pub struct AuxSpec {
    pub cols: Vec<(u8, u16)>,
    pub num_rands: u8,
    pub lagrange: bool,
}

#[derive(Serialize, Deserialize, Clone, Debug, PartialEq, Eq)]
pub struct OptSpec {
    pub queries: u8,
    pub log_blowup: u8,
    pub grinding: u8,
    pub log_folding: u8,
    pub log_rem: u8,
}

#[derive(Serialize, Deserialize, Clone, Debug)]
pub struct Shape {
    /// 0 = f62, 1 = f64, 2 = f128
    pub field: u8,
    /// 0 Blake3_256, 1 Blake3_192, 2 Sha3_256, 3 Rescue (Rp64_256 on f64, Rp62_248 on f62), 4 RpJive64_256 (f64)
    pub hasher: u8,
    /// extension degree 1, 2, 3
    pub ext: u8,
    pub log_n: u32,
    pub rules: Vec<RuleSpec>,
    pub periodic: Vec<PerSpec>,
    pub exempt_sel: u16,
    pub asserts: Vec<AssertPos>,
    pub aux: Option<AuxSpec>,
    pub first_row: Vec<X>,
    pub free_pool: Vec<X>,
    pub opts: OptSpec,
    pub meta_len: u16,
    /// all columns degenerate (constant / low degree): the class named explicitly by C01
    pub degenerate: bool,
    /// LDE coset chosen by the computation through `Air::domain_offset()`: 0 = the default (not overridden),
    /// 1 = the inverse of the field generator, 2 = its cube
    #[serde(default)]
    pub offset_sel: u8,
}

/// everything needed to run one instance
#[derive(Clone, Debug)]
pub struct Instance {
    pub desc: Desc,
    pub trace: Vec<Vec<u128>>,
    pub opts: RealOpts,
    pub labels: Vec<String>,
}

impl Instance {
    /// A proof over a trace whose columns are all constant consists of zero quotients only: nothing in it
    /// but the query positions and the proof-of-work nonce depends on the public-coin seed, so it is bound
    /// to its seed (context and public inputs) by queries * log2(lde size) + grinding bits and no more.
    /// Below 40 such bits "the same proof under another seed is accepted" is an event of the stated
    /// soundness error, not a defect; the acceptance-after-change oracles (C02, C03) leave these out and count them.
    pub fn weak_seed_binding(&self) -> bool {
        let constant = self.trace.iter().all(|c| c.iter().all(|v| *v == c[0]));
        let lde_bits = self.desc.log_n as usize + self.opts.blowup.trailing_zeros() as usize;
        constant && self.opts.queries * lde_bits + (self.opts.grinding as usize) < 40
    }
}

#[derive(Clone, Debug, PartialEq, Eq, Serialize, Deserialize)]
pub struct RealOpts {
    pub queries: usize,
    pub blowup: usize,
    pub grinding: u32,
    pub ext: u8,
    pub folding: usize,
    pub rem_deg: usize,
}

/// simulates the documented FRI layer schedule; returns (number of layers, well-formed?)
pub fn fri_schedule(lde: usize, blowup: usize, folding: usize, rem_deg: usize) -> (usize, bool) {
    let max_rem = (rem_deg + 1) * blowup;
    let mut d = lde;
    let mut layers = 0;
    let mut ok = true;
    while d > max_rem {
        // the layer is committed as a Merkle tree over d / folding rows
        if d / folding < 2 {
            ok = false;
        }
        d /= folding;
        layers += 1;
        if d == 0 {
            return (layers, false);
        }
    }
    // at least one remainder coefficient and at least two remainder evaluations
    if d < blowup || d < 2 {
        ok = false;
    }
    (layers, ok)
}

fn x_strategy() -> BoxedStrategy<X> {
    prop_oneof![
        3 => any::<u128>().prop_map(X),
        1 => (0u128..4).prop_map(X),
    ]
    .boxed()
}

fn rule_strategy() -> BoxedStrategy<RuleSpec> {
    // kinds 0..3 polynomial, 4 with a periodic column, 5 geometric, 6 plateau (see realize)
    (prop_oneof![8 => 0u8..6, 1 => Just(6u8)], x_strategy(), x_strategy(), x_strategy(), any::<u16>(), any::<u16>(), any::<u16>())
        .prop_map(|(kind, a, b, e, d_sel, k_sel, m_sel)| RuleSpec { kind, a, b, e, d_sel, k_sel, m_sel })
        .boxed()
}

const EDGE_WIDTHS: [usize; 10] = [1, 2, 7, 8, 9, 16, 17, 33, 254, 255];

pub struct GenParams {
    pub max_log_n: u32,
    pub max_grinding: u8,
    /// restrict to one (field, hasher) pair if set
    pub fixed: Option<(u8, u8)>,
    pub allow_aux: bool,
    pub allow_degenerate: bool,
}

impl GenParams {
    pub fn for_tier(tier: Tier) -> Self {
        GenParams { max_log_n: tier.pick(8, 12), max_grinding: tier.pick(8, 16), fixed: None, allow_aux: true, allow_degenerate: true }
    }
}

pub fn field_hasher_strategy() -> BoxedStrategy<(u8, u8)> {
    // 12 admissible (field, hasher) pairs
    prop::sample::select(vec![
        (0u8, 0u8),
        (0, 1),
        (0, 2),
        (0, 3),
        (1, 0),
        (1, 1),
        (1, 2),
        (1, 3),
        (1, 4),
        (2, 0),
        (2, 1),
        (2, 2),
    ])
    .boxed()
}

pub fn shape_strategy(p: &GenParams) -> BoxedStrategy<Shape> {
    let fh = match p.fixed {
        Some(x) => Just(x).boxed(),
        None => field_hasher_strategy(),
    };
    let width = prop_oneof![
        3 => 1usize..=6,
        2 => prop::sample::select(EDGE_WIDTHS.to_vec()),
        1 => 1usize..=255,
    ];
    let max_log_n = p.max_log_n;
    let max_grind = p.max_grinding;
    let aux = if p.allow_aux {
        prop::option::weighted(
            0.35,
            (
                prop::collection::vec((prop_oneof![3 => 0u8..2, 1 => 2u8..=8], any::<u16>()), 1..=4),
                prop_oneof![2 => Just(0u8), 3 => 1u8..=4, 1 => Just(255u8), 1 => any::<u8>()],
                any::<bool>(),
            )
                .prop_map(|(cols, num_rands, lagrange)| AuxSpec { cols, num_rands, lagrange }),
        )
        .boxed()
    } else {
        Just(None).boxed()
    };
    let degenerate = if p.allow_degenerate { prop::bool::weighted(0.06).boxed() } else { Just(false).boxed() };
    (
        (fh, 1u8..=3, 3u32..=max_log_n, width),
        (
            prop::collection::vec(
                (any::<u16>(), prop::collection::vec(x_strategy(), 2..=4)).prop_map(|(log_cycle_sel, values)| PerSpec { log_cycle_sel, values }),
                0..=4,
            ),
            any::<u16>(),
            prop::collection::vec(
                (0u8..3, any::<u16>(), any::<u16>(), any::<u16>()).prop_map(|(kind, col_sel, first_sel, stride_sel)| AssertPos { kind, col_sel, first_sel, stride_sel }),
                1..=6,
            ),
            aux,
        ),
        (prop::collection::vec(x_strategy(), 1..=8), prop::collection::vec(x_strategy(), 1..=8)),
        (
            prop_oneof![3 => 1u8..=40, 1 => prop::sample::select(vec![1u8, 2, 254, 255]), 1 => any::<u8>()],
            prop_oneof![4 => 1u8..=3, 1 => 4u8..=7],
            if max_grind == 0 { Just(0u8).boxed() } else { prop_oneof![2 => Just(0u8), 2 => 1u8..=max_grind].boxed() },
            1u8..=4,
            0u8..=8,
        ),
        (prop_oneof![3 => Just(0u16), 1 => 1u16..=40, 1 => Just(65535u16)], degenerate, prop_oneof![5 => Just(0u8), 1 => Just(1u8), 1 => Just(2u8)]),
    )
        .prop_flat_map(|((fh, ext, log_n, width), mid, seeds, o, (meta_len, degenerate, offset_sel))| {
            (prop::collection::vec(rule_strategy(), width), Just((fh, ext, log_n, mid, seeds, o, (meta_len, offset_sel), degenerate)))
        })
        .prop_map(|(rules, ((field, hasher), ext, log_n, (periodic, exempt_sel, asserts, aux), (first_row, free_pool), o, (meta_len, offset_sel), degenerate))| Shape {
            field,
            hasher,
            ext,
            log_n,
            rules,
            periodic,
            exempt_sel,
            asserts,
            aux,
            first_row,
            free_pool,
            opts: OptSpec { queries: o.0.max(1), log_blowup: o.1, grinding: o.2, log_folding: o.3, log_rem: o.4 },
            meta_len,
            degenerate,
            offset_sel,
        })
        .boxed()
}

/// work budget (LDE cells) for one instance
pub fn budget(tier: Tier) -> usize {
    tier.pick(1 << 19, 1 << 22)
}

/// deterministic realisation of a shape for base field B
pub fn realize<B: FA>(s: &Shape, cell_budget: usize) -> Instance {
    let fp = B::FP;
    let mut labels: Vec<String> = vec![];
    let ext = match (s.ext, B::cubic_supported()) {
        (3, false) => 2,
        (e, _) => e.clamp(1, 3),
    };
    let blowup = 1usize << s.opts.log_blowup.clamp(1, 7);
    // --- sizes under the budget -----------------------------------------------------------------
    let mut log_n = s.log_n.max(3);
    let mut width = s.rules.len().clamp(1, 255);
    while (1usize << log_n) * blowup * (width + 2) * (ext as usize) > cell_budget && log_n > 3 {
        log_n -= 1;
    }
    while (1usize << log_n) * blowup * (width + 2) * (ext as usize) > cell_budget && width > 1 {
        width = (width / 2).max(1);
    }
    let n = 1usize << log_n;
    let g = B::get_root_of_unity(log_n).to_u128();

    // --- periodic columns -----------------------------------------------------------------------
    let mut periodic: Vec<Vec<X>> = s
        .periodic
        .iter()
        .map(|p| {
            let log_cycle = 1 + pick_index(p.log_cycle_sel, log_n as usize) as u32; // 1..=log_n
            let cycle = 1usize << log_cycle;
            (0..cycle).map(|i| X(fp.add(p.values[i % p.values.len()].0 % fp.p, (i / p.values.len()) as u128))).collect()
        })
        .collect();

    // --- rules ----------------------------------------------------------------------------------
    let nonzero = |x: X| -> X {
        let v = x.0 % fp.p;
        X(if v == 0 { 1 } else { v })
    };
    let geo_exponents: Vec<usize> = vec![0, 1, 2, 3, n / 2, n / 4, 3 * n / 4, n - 1, n / 8];
    let mut rules: Vec<Rule> = Vec::with_capacity(width);
    for (j, r) in s.rules.iter().take(width).enumerate() {
        let k = pick_index(r.k_sel, width);
        let kind = if s.degenerate { 5 } else { r.kind };
        let rule = match kind {
            5 => {
                let exps = if s.degenerate { &geo_exponents[..4] } else { &geo_exponents[..] };
                let ex = exps[pick_index(r.d_sel, exps.len())];
                Rule::Geo { ratio: X(fp.pow(g, ex as u128)) }
            },
            6 => {
                // plateau column: next = per * cur with a periodic column 1, 1, .., 1, rho of cycle c appended for it:
                // the column is constant over stretches of c rows (structured value lists for strided assertions:
                // runs of equal values, equal pairs, ...)
                let log_c = 1 + pick_index(r.m_sel, log_n as usize) as u32;
                let c = 1usize << log_c;
                let mut vals = vec![X(1); c];
                vals[c - 1] = nonzero(r.a);
                periodic.push(vals);
                Rule::PerPoly { a: X(1), d: 1, m: periodic.len() - 1, b: X(0), k, e: X(0) }
            },
            4 if !periodic.is_empty() => {
                let m = pick_index(r.m_sel, periodic.len());
                // min blowup = next_pow2(d + 1 - 1) = next_pow2(d) <= blowup
                let max_d = blowup;
                let d = if r.d_sel % 2 == 0 { 1 + (r.d_sel as usize / 2) % max_d.min(3) } else { 1 + pick_index(r.d_sel, max_d) };
                Rule::PerPoly { a: nonzero(r.a), d: d as u32, m, b: X(r.b.0 % fp.p), k, e: X(r.e.0 % fp.p) }
            },
            _ => {
                // min blowup = next_pow2(d - 1) <= blowup  <=>  d <= blowup + 1
                let max_d = blowup + 1;
                let d = if r.d_sel % 2 == 0 { 1 + (r.d_sel as usize / 2) % max_d.min(3) } else { 1 + pick_index(r.d_sel, max_d) };
                Rule::Poly { a: nonzero(r.a), d: d as u32, b: X(r.b.0 % fp.p), k, e: X(r.e.0 % fp.p) }
            },
        };
        let _ = j;
        rules.push(rule);
    }

    // --- exemptions: 1..=n/2+1, within the documented bound ---------------------------------------
    let mut ce_blowup = 2usize;
    let mut max_eval_degree = 0usize;
    for j in 0..width {
        let (base, cycles) = match &rules[j] {
            Rule::Poly { d, .. } => (*d as usize, vec![]),
            Rule::PerPoly { d, m, .. } => (*d as usize, vec![periodic[*m].len()]),
            Rule::Geo { .. } => (1, vec![]),
        };
        ce_blowup = ce_blowup.max(min_blowup(base, cycles.len()));
        let mut ev = base * (n - 1);
        for c in &cycles {
            ev += (n / c) * (c - 1);
        }
        max_eval_degree = max_eval_degree.max(ev);
    }
    let aux_spec = s.aux.as_ref().filter(|_| !s.degenerate && width < 255);
    if let Some(a) = aux_spec {
        // aux column kind k has degree k + 1, which needs blowup >= next_pow2(k): cap k accordingly
        for (k, _) in a.cols.iter() {
            let kk = (*k as usize).min(blowup);
            ce_blowup = ce_blowup.max(min_blowup(kk + 1, 0));
            max_eval_degree = max_eval_degree.max((kk + 1) * (n - 1));
        }
    }
    let max_by_degree = (n * ce_blowup - 1) + n - max_eval_degree;
    let max_ex = (n / 2 + 1).min(max_by_degree).max(1);
    let exemptions = match s.exempt_sel % 4 {
        0 => 1,
        1 => [1usize, 2, n / 2, n / 2 + 1][(s.exempt_sel as usize / 4) % 4].min(max_ex),
        _ => 1 + pick_index(s.exempt_sel, max_ex),
    };

    // --- aux segment ------------------------------------------------------------------------------
    let aux = aux_spec.map(|a| {
        let room = 255 - width;
        let lagrange = a.lagrange && room >= 2;
        let ncols = a.cols.len().min(room - lagrange as usize).max(1);
        AuxDesc {
            cols: a.cols.iter().take(ncols).map(|(k, c)| ((*k as usize).min(blowup) as u8, pick_index(*c, width))).collect(),
            num_rands: a.num_rands as usize,
            lagrange,
        }
    });

    let meta: Vec<u8> = (0..s.meta_len as usize).map(|i| (i as u8).wrapping_mul(31).wrapping_add(7)).collect();
    let mut desc = Desc { log_n, rules, periodic, exemptions, assertions: vec![], aux, meta, offset_sel: s.offset_sel % 3 };

    // --- trace by construction --------------------------------------------------------------------
    let first_row: Vec<X> = if s.degenerate { s.first_row.iter().map(|x| X(x.0 % fp.p)).collect() } else { s.first_row.clone() };
    let trace = build_trace(&fp, &desc, &first_row, &s.free_pool);

    // --- assertions drawn from the trace itself ------------------------------------------------------
    let mut used: BTreeSet<(usize, usize)> = BTreeSet::new();
    let mut assertions: Vec<Assert> = vec![];
    let k = exemptions;
    for ap in &s.asserts {
        let col0 = pick_index(ap.col_sel, width);
        let cand = match ap.kind {
            1 => {
                // periodic assertion: needs a geometric column; its period P must divide the stride
                let geo = (0..width).map(|o| (col0 + o) % width).find(|c| matches!(desc.rules[*c], Rule::Geo { .. }));
                match geo {
                    Some(col) => {
                        let ratio = match &desc.rules[col] {
                            Rule::Geo { ratio } => ratio.0,
                            _ => unreachable!(),
                        };
                        // period = order of ratio (a power of two dividing n)
                        let mut period = 1usize;
                        let mut r = ratio;
                        while r != 1 && period < n {
                            r = fp.mul(r, r);
                            period *= 2;
                        }
                        let base = period.max(2);
                        let choices = (n / base).ilog2() as usize + 1;
                        let stride = base << pick_index(ap.stride_sel, choices);
                        let first = if ap.first_sel % 2 == 0 { 0 } else { pick_index(ap.first_sel, stride) };
                        Assert::Periodic { col, first, stride, value: X(trace[col][first]) }
                    },
                    None => Assert::Single { col: col0, step: pick_index(ap.first_sel, n), value: X(trace[col0][pick_index(ap.first_sel, n)]) },
                }
            },
            2 => {
                // every other sequence assertion goes to a plateau column if there is one
                let plateau = (0..width).map(|o| (col0 + o) % width).find(|c| matches!(&desc.rules[*c], Rule::PerPoly { a, d: 1, b, e, .. } if a.0 == 1 && b.0 == 0 && e.0 == 0));
                let col0 = match plateau {
                    Some(pc) if ap.col_sel % 2 == 0 => pc,
                    _ => col0,
                };
                let s_log = 1 + pick_index(ap.stride_sel, log_n as usize - 1); // stride 2..n/2
                let stride = 1usize << s_log;
                let len = n / stride;
                let first = if ap.first_sel % 2 == 0 { 0 } else { pick_index(ap.first_sel, stride) };
                Assert::Sequence { col: col0, first, stride, values: (0..len).map(|i| X(trace[col0][first + i * stride])).collect() }
            },
            _ => {
                let specials = [0, 1, n - k - 1, n - k, (n - k + 1).min(n - 1), n - 1];
                let step = if ap.first_sel % 3 == 0 { specials[(ap.first_sel as usize / 3) % 6] } else { pick_index(ap.first_sel, n) };
                Assert::Single { col: col0, step, value: X(trace[col0][step]) }
            },
        };
        let cells: Vec<(usize, usize)> = cand.cells(n).into_iter().map(|(st, _)| (cand.col(), st)).collect();
        if cells.iter().any(|c| used.contains(c)) {
            continue;
        }
        used.extend(cells);
        assertions.push(cand);
    }
    if assertions.is_empty() {
        assertions.push(Assert::Single { col: 0, step: 0, value: X(trace[0][0]) });
    }
    desc.assertions = assertions;

    // --- options --------------------------------------------------------------------------------------
    let lde = n * blowup;
    let mut folding = 1usize << s.opts.log_folding.clamp(1, 4);
    let mut rem_deg = (1usize << s.opts.log_rem.min(8)) - 1;
    // repair the FRI schedule if it is not well-formed: first shrink the folding factor, then grow the remainder
    while !fri_schedule(lde, blowup, folding, rem_deg).1 {
        if folding > 2 {
            folding /= 2;
        } else if rem_deg < 255 {
            rem_deg = rem_deg * 2 + 1;
        } else {
            break;
        }
    }
    let queries = (s.opts.queries as usize).clamp(1, 255).min(lde - 1);
    let opts = RealOpts { queries, blowup, grinding: s.opts.grinding as u32, ext, folding, rem_deg };

    // --- labels -----------------------------------------------------------------------------------------
    labels.push(format!("field={}", B::NAME));
    labels.push(format!("ext={ext}"));
    labels.push(format!("log_n={log_n}"));
    if width > 8 {
        labels.push("width>8".into());
    }
    if width >= 254 {
        labels.push("width>=254".into());
    }
    if desc.assertions.iter().any(|a| matches!(a, Assert::Sequence { values, .. } if values.len() >= 4 && values.windows(2).any(|w| w[0] == w[1]) && values.windows(2).any(|w| w[0] != w[1]))) {
        labels.push("sequence-with-runs-of-equal-values".into());
    }
    if desc.assertions.iter().any(|a| matches!(a, Assert::Sequence { values, .. } if values.len() >= 64)) {
        labels.push("sequence>=64".into());
    }
    for a in &desc.assertions {
        labels.push(format!("assert={}", a.kind()));
        match a {
            Assert::Periodic { first, .. } | Assert::Sequence { first, .. } if *first != 0 => labels.push("assert-first-step!=0".into()),
            _ => {},
        }
    }
    if desc.rules.iter().any(|r| matches!(r, Rule::PerPoly { .. })) {
        labels.push("periodic-column".into());
    }
    if exemptions > 1 {
        labels.push("exemptions>1".into());
    }
    if exemptions == n / 2 + 1 {
        labels.push("exemptions=max".into());
    }
    if let Some(a) = &desc.aux {
        labels.push("aux-segment".into());
        if a.lagrange {
            labels.push("lagrange".into());
        }
        if a.num_rands == 0 {
            labels.push("aux-0-rands".into());
        }
    }
    if s.degenerate {
        labels.push("degenerate-trace".into());
    }
    if desc.offset_sel != 0 {
        labels.push("domain-offset-overridden".into());
    }
    if desc.aux.as_ref().is_some_and(|a| a.cols.len() > desc.rules.len()) {
        labels.push("aux-constraints>main-constraints".into());
    }
    if ce_blowup < blowup {
        labels.push("ce-blowup<lde-blowup".into());
    }
    let (layers, _) = fri_schedule(lde, blowup, folding, rem_deg);
    labels.push(format!("fri-layers={}", layers.min(4)));
    labels.push(format!("folding={folding}"));
    if opts.grinding > 0 {
        labels.push("grinding>0".into());
    }
    if queries >= 254 {
        labels.push("queries>=254".into());
    }
    if desc.rules.iter().any(|r| matches!(r, Rule::Poly { d, .. } | Rule::PerPoly { d, .. } if *d as usize >= 4)) {
        labels.push("degree>=4".into());
    }
    labels.sort();
    labels.dedup();
    Instance { desc, trace, opts, labels }
}
