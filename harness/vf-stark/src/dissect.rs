//! Byte-level dissector of serialized proofs and the structure-aware mutator built on it.
//! The layout is walked by the harness itself (length prefixes as documented by the writers);
//! `dissect` returns None when the bytes do not follow the layout (then only raw mutations apply).

use serde::{Deserialize, Serialize};

#[derive(Clone, Copy, Debug, PartialEq, Eq, Serialize, Deserialize)]
pub enum Kind {
    /// a length / count / size field
    Len,
    /// a single-byte or multi-byte scalar parameter
    Scalar,
    /// opaque payload (elements, digests, bytes)
    Data,
}

#[derive(Clone, Debug)]
pub struct Field {
    pub path: String,
    pub off: usize,
    pub len: usize,
    pub kind: Kind,
}

struct Walker<'a> {
    b: &'a [u8],
    pos: usize,
    out: Vec<Field>,
}

impl<'a> Walker<'a> {
    fn take(&mut self, path: &str, len: usize, kind: Kind) -> Option<&'a [u8]> {
        if self.pos.checked_add(len).map(|e| e > self.b.len()).unwrap_or(true) {
            return None;
        }
        let s = &self.b[self.pos..self.pos + len];
        if len > 0 || kind == Kind::Data {
            self.out.push(Field { path: path.to_string(), off: self.pos, len, kind });
        }
        self.pos += len;
        Some(s)
    }
    fn u8(&mut self, path: &str, kind: Kind) -> Option<usize> {
        self.take(path, 1, kind).map(|s| s[0] as usize)
    }
    fn u16(&mut self, path: &str) -> Option<usize> {
        self.take(path, 2, Kind::Len).map(|s| u16::from_le_bytes([s[0], s[1]]) as usize)
    }
    fn u32(&mut self, path: &str) -> Option<usize> {
        self.take(path, 4, Kind::Len).map(|s| u32::from_le_bytes([s[0], s[1], s[2], s[3]]) as usize)
    }
    fn vint(&mut self, path: &str) -> Option<usize> {
        let first = *self.b.get(self.pos)?;
        let length = first.trailing_zeros() as usize + 1;
        if length == 9 {
            let s = self.take(path, 9, Kind::Len)?;
            Some(u64::from_le_bytes(s[1..9].try_into().ok()?) as usize)
        } else {
            let s = self.take(path, length, Kind::Len)?;
            let mut enc = [0u8; 8];
            enc[..length].copy_from_slice(s);
            Some((u64::from_le_bytes(enc) >> length) as usize)
        }
    }
    fn queries(&mut self, path: &str) -> Option<()> {
        let n = self.u32(&format!("{path}.values.len"))?;
        self.take(&format!("{path}.values"), n, Kind::Data)?;
        let n = self.u32(&format!("{path}.paths.len"))?;
        self.take(&format!("{path}.paths"), n, Kind::Data)?;
        Some(())
    }
}

/// all fields of a serialized proof, in wire order
pub fn dissect(bytes: &[u8]) -> Option<Vec<Field>> {
    let mut w = Walker { b: bytes, pos: 0, out: vec![] };
    // context: trace info
    w.u8("context.trace_info.main_width", Kind::Scalar)?;
    let aux = w.u8("context.trace_info.aux_width", Kind::Scalar)?;
    w.u8("context.trace_info.num_aux_rands", Kind::Scalar)?;
    w.u8("context.trace_info.log_length", Kind::Scalar)?;
    let ml = w.u16("context.trace_info.meta.len")?;
    w.take("context.trace_info.meta", ml, Kind::Data)?;
    let modl = w.u8("context.modulus.len", Kind::Len)?;
    w.take("context.modulus", modl, Kind::Data)?;
    for name in ["num_queries", "blowup", "grinding", "extension", "fri_folding", "fri_remainder_degree"] {
        w.u8(&format!("context.options.{name}"), Kind::Scalar)?;
    }
    w.u8("num_unique_queries", Kind::Len)?;
    let cl = w.u16("commitments.len")?;
    w.take("commitments", cl, Kind::Data)?;
    let segments = if aux > 0 { 2 } else { 1 };
    for i in 0..segments {
        w.queries(&format!("trace_queries[{i}]"))?;
    }
    w.queries("constraint_queries")?;
    let n = w.u16("ood.trace_states.len")?;
    if n > 0 {
        w.u8("ood.trace_states.frame_size", Kind::Len)?;
        w.take("ood.trace_states", n - 1, Kind::Data)?;
    }
    let n = w.u16("ood.lagrange.len")?;
    if n > 0 {
        w.u8("ood.lagrange.frame_size", Kind::Len)?;
        w.take("ood.lagrange", n - 1, Kind::Data)?;
    }
    let n = w.u16("ood.evaluations.len")?;
    w.take("ood.evaluations", n, Kind::Data)?;
    let layers = w.u8("fri.num_layers", Kind::Len)?;
    for i in 0..layers {
        w.queries(&format!("fri.layer[{i}]"))?;
    }
    let n = w.u16("fri.remainder.len")?;
    w.take("fri.remainder", n, Kind::Data)?;
    w.u8("fri.num_partitions", Kind::Scalar)?;
    w.take("pow_nonce", 8, Kind::Scalar)?;
    let flag = w.u8("gkr.flag", Kind::Len)?;
    if flag == 1 {
        let n = w.vint("gkr.len")?;
        w.take("gkr.bytes", n, Kind::Data)?;
    }
    if w.pos != bytes.len() {
        return None;
    }
    Some(w.out)
}

/// A mutation of a serialized proof. Selectors are mapped monotonically onto the available fields.
#[derive(Clone, Debug, Serialize, Deserialize)]
pub enum Mutation {
    FlipBit { bit: usize },
    SetByte { off_sel: u16, value: u8 },
    /// set a length/scalar field to a boundary value: 0 zero, 1 one, 2 max-1, 3 max, 4 +1, 5 -1, 6 *2, 7 random
    FieldValue { field_sel: u16, mode: u8, rnd: u64 },
    /// overwrite part of a data field: 0 zero it, 1 fill 0xff, 2 flip one byte, 3 swap two chunks of `chunk` bytes, 4 rotate
    DataEdit { field_sel: u16, mode: u8, a: u16, b: u16, chunk: u8 },
    /// remove `n` bytes from the end of a data field; optionally fix the length prefix up
    Truncate { field_sel: u16, n: u8, fix_len: bool },
    /// append `n` bytes to a data field; optionally fix the length prefix up
    Extend { field_sel: u16, n: u8, fill: u8, fix_len: bool },
    /// cut the whole proof at an offset
    Cut { off_sel: u16 },
    /// append bytes to the whole proof
    Trailing { n: u8, fill: u8 },
}

fn write_le(dst: &mut [u8], v: u64) {
    let bytes = v.to_le_bytes();
    let n = dst.len().min(8);
    dst[..n].copy_from_slice(&bytes[..n]);
}

fn read_le(src: &[u8]) -> u64 {
    let mut b = [0u8; 8];
    let n = src.len().min(8);
    b[..n].copy_from_slice(&src[..n]);
    u64::from_le_bytes(b)
}

/// finds the length-prefix field that governs a data field (the field just before it whose path is `<path>.len`)
fn len_field_of<'a>(fields: &'a [Field], data: &Field) -> Option<&'a Field> {
    let want = format!("{}.len", data.path);
    fields.iter().find(|f| f.path == want)
}

/// applies a mutation; returns (mutated bytes, description of what was touched)
pub fn apply(bytes: &[u8], fields: &[Field], m: &Mutation) -> (Vec<u8>, String) {
    let mut out = bytes.to_vec();
    let pick = |sel: u16, len: usize| vf_core::pick_index(sel, len.max(1));
    match m {
        Mutation::FlipBit { bit } => {
            let bit = bit % (out.len() * 8).max(1);
            out[bit / 8] ^= 1 << (bit % 8);
            let f = fields.iter().find(|f| f.off <= bit / 8 && bit / 8 < f.off + f.len).map(|f| f.path.clone()).unwrap_or_default();
            (out, format!("flip-bit@{f}"))
        },
        Mutation::SetByte { off_sel, value } => {
            let off = pick(*off_sel, out.len());
            out[off] = *value;
            let f = fields.iter().find(|f| f.off <= off && off < f.off + f.len).map(|f| f.path.clone()).unwrap_or_default();
            (out, format!("set-byte@{f}"))
        },
        Mutation::FieldValue { field_sel, mode, rnd } => {
            let cands: Vec<&Field> = fields.iter().filter(|f| f.kind != Kind::Data && f.len <= 9).collect();
            if cands.is_empty() {
                return (out, "none".into());
            }
            let f = cands[pick(*field_sel, cands.len())];
            let width = f.len.min(8);
            let max = if width >= 8 { u64::MAX } else { (1u64 << (8 * width)) - 1 };
            let cur = read_le(&out[f.off..f.off + width]);
            let v = match mode % 8 {
                0 => 0,
                1 => 1,
                2 => max - 1,
                3 => max,
                4 => cur.wrapping_add(1) & max,
                5 => cur.wrapping_sub(1) & max,
                6 => cur.wrapping_mul(2) & max,
                _ => rnd & max,
            };
            if f.path == "gkr.len" {
                // variable-length size encoding: rewrite as the 9-byte form carrying a 64-bit value
                let big = match mode % 8 {
                    0 => 0u64,
                    1 => 1,
                    2 => u64::MAX - 1,
                    3 => u64::MAX,
                    4 => (f.len as u64) << 33,
                    5 => 1 << 40,
                    6 => 1 << 62,
                    _ => *rnd,
                };
                let mut enc = vec![0u8];
                enc.extend(big.to_le_bytes());
                out.splice(f.off..f.off + f.len, enc);
                return (out, "field-value@gkr.len(9-byte)".into());
            }
            write_le(&mut out[f.off..f.off + width], v);
            (out, format!("field-value@{}", f.path))
        },
        Mutation::DataEdit { field_sel, mode, a, b, chunk } => {
            let cands: Vec<&Field> = fields.iter().filter(|f| f.kind == Kind::Data && f.len > 0).collect();
            if cands.is_empty() {
                return (out, "none".into());
            }
            let f = cands[pick(*field_sel, cands.len())];
            let d = &mut out[f.off..f.off + f.len];
            match mode % 5 {
                0 => d.iter_mut().for_each(|x| *x = 0),
                1 => d.iter_mut().for_each(|x| *x = 0xff),
                2 => {
                    let i = pick(*a, d.len());
                    d[i] ^= (*b as u8) | 1;
                },
                3 => {
                    let c = [8usize, 16, 24, 32, 48, 64][(*chunk as usize) % 6];
                    let n = d.len() / c;
                    if n >= 2 {
                        let (i, j) = (pick(*a, n), pick(*b, n));
                        for k in 0..c {
                            d.swap(i * c + k, j * c + k);
                        }
                    }
                },
                _ => {
                    let r = 1 + pick(*a, d.len().max(2) - 1);
                    d.rotate_left(r % d.len().max(1));
                },
            }
            (out, format!("data-edit{}@{}", mode % 5, f.path))
        },
        Mutation::Truncate { field_sel, n, fix_len } | Mutation::Extend { field_sel, n, fix_len, .. } => {
            let cands: Vec<&Field> = fields.iter().filter(|f| f.kind == Kind::Data).collect();
            if cands.is_empty() {
                return (out, "none".into());
            }
            let f = cands[pick(*field_sel, cands.len())];
            let extend = matches!(m, Mutation::Extend { .. });
            let n = (*n as usize).max(1);
            let new_len = if extend { f.len + n } else { f.len.saturating_sub(n) };
            let end = f.off + f.len;
            if extend {
                let fill = if let Mutation::Extend { fill, .. } = m { *fill } else { 0 };
                out.splice(end..end, std::iter::repeat(fill).take(n));
            } else {
                out.drain(f.off + new_len..end);
            }
            if *fix_len {
                if let Some(lf) = len_field_of(fields, f) {
                    // some blocks carry a one-byte frame-size header inside the counted length
                    let inner_hdr = fields.iter().any(|x| x.path == format!("{}.frame_size", f.path)) as usize;
                    if lf.len <= 4 {
                        write_le(&mut out[lf.off..lf.off + lf.len], (new_len + inner_hdr) as u64);
                    }
                }
            }
            (out, format!("{}{}@{}", if extend { "extend" } else { "truncate" }, if *fix_len { "+fixlen" } else { "" }, f.path))
        },
        Mutation::Cut { off_sel } => {
            let off = pick(*off_sel, out.len());
            out.truncate(off);
            (out, "cut".into())
        },
        Mutation::Trailing { n, fill } => {
            out.extend(std::iter::repeat(*fill).take((*n as usize).max(1)));
            (out, "trailing-bytes".into())
        },
    }
}

pub fn mutation_strategy() -> proptest::strategy::BoxedStrategy<Mutation> {
    use proptest::prelude::*;
    prop_oneof![
        3 => any::<usize>().prop_map(|bit| Mutation::FlipBit { bit }),
        2 => (any::<u16>(), prop::sample::select(vec![0u8, 1, 0x7f, 0x80, 0xff])).prop_map(|(off_sel, value)| Mutation::SetByte { off_sel, value }),
        4 => (any::<u16>(), 0u8..8, any::<u64>()).prop_map(|(field_sel, mode, rnd)| Mutation::FieldValue { field_sel, mode, rnd }),
        4 => (any::<u16>(), 0u8..5, any::<u16>(), any::<u16>(), any::<u8>()).prop_map(|(field_sel, mode, a, b, chunk)| Mutation::DataEdit { field_sel, mode, a, b, chunk }),
        2 => (any::<u16>(), 1u8..=64, any::<bool>()).prop_map(|(field_sel, n, fix_len)| Mutation::Truncate { field_sel, n, fix_len }),
        2 => (any::<u16>(), 1u8..=64, any::<u8>(), any::<bool>()).prop_map(|(field_sel, n, fill, fix_len)| Mutation::Extend { field_sel, n, fill, fix_len }),
        1 => any::<u16>().prop_map(|off_sel| Mutation::Cut { off_sel }),
        1 => (1u8..=16, any::<u8>()).prop_map(|(n, fill)| Mutation::Trailing { n, fill }),
    ]
    .boxed()
}
