//! GenAir: the /repo-facing side of the generated computation family — `Air`, public inputs, trace
//! and prover implementations driven by a `Desc`. Generic over the base field, the hasher and the
//! random coin (so that a recording coin can be substituted).

use std::marker::PhantomData;
use std::sync::Arc;

use vf_repo::FA;
use winter_air::{
    Air, AirContext, Assertion, AuxRandElements, ConstraintCompositionCoefficients, EvaluationFrame, GkrVerifier,
    LagrangeKernelRandElements, ProofOptions, TraceInfo, TransitionConstraintDegree,
};
use winter_crypto::{ElementHasher, RandomCoin};
use winter_math::{ExtensionOf, FieldElement, ToElements};
use winter_prover::matrix::ColMatrix;
use winter_prover::{
    DefaultConstraintEvaluator, DefaultTraceLde, Prover, ProverGkrProof, StarkDomain, Trace, TracePolyTable,
};

use crate::desc::{declared_degree, Assert, Desc, Rule};

// PUBLIC INPUTS
// ================================================================================================

/// The statement being proven: the whole description, every number of which is a public input.
#[derive(Clone, Debug)]
pub struct GenPub<B> {
    pub desc: Arc<Desc>,
    _p: PhantomData<B>,
}
impl<B> GenPub<B> {
    pub fn new(desc: Arc<Desc>) -> Self {
        GenPub { desc, _p: PhantomData }
    }
}
impl<B: FA> ToElements<B> for GenPub<B> {
    fn to_elements(&self) -> Vec<B> {
        self.desc.to_ints().into_iter().map(|v| B::from_u128(v % B::FP.p)).collect()
    }
}

// GKR (dummy, as in winterfell/src/tests.rs: the "proof" is log2(trace length))
// ================================================================================================

#[derive(Debug, Clone, Default)]
pub struct DummyGkr;
impl GkrVerifier for DummyGkr {
    type GkrProof = usize;
    type Error = String;
    fn verify<E, H>(
        &self,
        gkr_proof: usize,
        public_coin: &mut impl RandomCoin<BaseField = E::BaseField, Hasher = H>,
    ) -> Result<LagrangeKernelRandElements<E>, String>
    where
        E: FieldElement,
        H: ElementHasher<BaseField = E::BaseField>,
    {
        if gkr_proof > 64 {
            return Err("gkr proof out of range".into());
        }
        let mut r = Vec::with_capacity(gkr_proof);
        for _ in 0..gkr_proof {
            r.push(public_coin.draw().map_err(|e| e.to_string())?);
        }
        Ok(LagrangeKernelRandElements::new(r))
    }
}

// AIR
// ================================================================================================

enum CRule<B> {
    Poly { a: B, d: u32, b: B, k: usize, e: B },
    PerPoly { a: B, d: u32, m: usize, b: B, k: usize, e: B },
    Geo { ratio: B },
}

pub struct GenAir<B: FA> {
    context: AirContext<B>,
    desc: Arc<Desc>,
    rules: Vec<CRule<B>>,
    /// true when the trace shape handed to `new` does not match the description: the AIR then
    /// falls back to a fixed unsatisfiable computation of the given shape (an AIR must be total,
    /// `Air::new` cannot fail)
    pub poison: bool,
}

fn el<B: FA>(v: u128) -> B {
    B::from_u128(v % B::FP.p)
}

fn shape_matches(desc: &Desc, ti: &TraceInfo) -> bool {
    let (aw, nr) = match &desc.aux {
        Some(a) => (a.width(), a.num_rands),
        None => (0, 0),
    };
    ti.length() == desc.n()
        && ti.main_trace_width() == desc.width()
        && ti.aux_segment_width() == aw
        && ti.get_num_aux_segment_rand_elements() == nr
}

impl<B: FA> Air for GenAir<B> {
    type BaseField = B;
    type PublicInputs = GenPub<B>;
    type GkrProof = usize;
    type GkrVerifier = DummyGkr;

    fn new(trace_info: TraceInfo, pub_inputs: GenPub<B>, options: ProofOptions) -> Self {
        let desc = pub_inputs.desc;
        let poison = !shape_matches(&desc, &trace_info);
        if poison {
            let multi = trace_info.is_multi_segment();
            let context = AirContext::new_multi_segment(
                trace_info,
                vec![TransitionConstraintDegree::new(1)],
                if multi { vec![TransitionConstraintDegree::new(1)] } else { vec![] },
                1,
                if multi { 1 } else { 0 },
                None,
                options,
            );
            return GenAir { context, desc, rules: vec![], poison };
        }
        let main_degrees: Vec<TransitionConstraintDegree> = (0..desc.width())
            .map(|j| {
                let (base, cycles) = declared_degree(&desc, j);
                if cycles.is_empty() {
                    TransitionConstraintDegree::new(base)
                } else {
                    TransitionConstraintDegree::with_cycles(base, cycles)
                }
            })
            .collect();
        let (aux_degrees, num_aux_assertions, lagrange_idx) = match &desc.aux {
            Some(a) => (
                a.cols.iter().map(|(kind, _)| TransitionConstraintDegree::new(*kind as usize + 1)).collect(),
                a.cols.len(),
                if a.lagrange { Some(a.width() - 1) } else { None },
            ),
            None => (vec![], 0, None),
        };
        let context = AirContext::new_multi_segment(
            trace_info,
            main_degrees,
            aux_degrees,
            desc.assertions.len(),
            num_aux_assertions,
            lagrange_idx,
            options,
        )
        .set_num_transition_exemptions(desc.exemptions);
        let rules = desc
            .rules
            .iter()
            .map(|r| match r {
                Rule::Poly { a, d, b, k, e } => CRule::Poly { a: el(a.0), d: *d, b: el(b.0), k: *k, e: el(e.0) },
                Rule::PerPoly { a, d, m, b, k, e } => CRule::PerPoly { a: el(a.0), d: *d, m: *m, b: el(b.0), k: *k, e: el(e.0) },
                Rule::Geo { ratio } => CRule::Geo { ratio: el(ratio.0) },
            })
            .collect();
        GenAir { context, desc, rules, poison }
    }

    fn context(&self) -> &AirContext<B> {
        &self.context
    }

    /// a computation may choose another LDE coset than the default one (provided trait method, overridden
    /// here when the statement says so); any offset outside the LDE subgroup is admissible
    fn domain_offset(&self) -> B {
        match self.desc.offset_sel {
            1 => B::GENERATOR.inv(),
            2 => B::GENERATOR * B::GENERATOR * B::GENERATOR,
            _ => self.options().domain_offset(),
        }
    }

    fn evaluate_transition<E: FieldElement<BaseField = B>>(&self, frame: &EvaluationFrame<E>, periodic: &[E], result: &mut [E]) {
        let cur = frame.current();
        let next = frame.next();
        if self.poison {
            result[0] = next[0] - cur[0] - E::ONE;
            return;
        }
        for (j, rule) in self.rules.iter().enumerate() {
            result[j] = match rule {
                CRule::Poly { a, d, b, k, e } => {
                    next[j] - (cur[j].exp_vartime(E::PositiveInteger::from(*d)).mul_base(*a) + cur[*k].mul_base(*b) + E::from(*e))
                },
                CRule::PerPoly { a, d, m, b, k, e } => {
                    next[j]
                        - ((periodic[*m] * cur[j].exp_vartime(E::PositiveInteger::from(*d))).mul_base(*a)
                            + cur[*k].mul_base(*b)
                            + E::from(*e))
                },
                CRule::Geo { ratio } => next[j] - cur[j].mul_base(*ratio),
            };
        }
    }

    fn get_assertions(&self) -> Vec<Assertion<B>> {
        if self.poison {
            return vec![Assertion::single(0, 0, B::ZERO)];
        }
        self.desc
            .assertions
            .iter()
            .map(|a| match a {
                Assert::Single { col, step, value } => Assertion::single(*col, *step, el(value.0)),
                Assert::Periodic { col, first, stride, value } => Assertion::periodic(*col, *first, *stride, el(value.0)),
                Assert::Sequence { col, first, stride, values } => {
                    Assertion::sequence(*col, *first, *stride, values.iter().map(|v| el(v.0)).collect())
                },
            })
            .collect()
    }

    fn get_periodic_column_values(&self) -> Vec<Vec<B>> {
        if self.poison {
            return vec![];
        }
        self.desc.periodic.iter().map(|p| p.iter().map(|v| el(v.0)).collect()).collect()
    }

    fn evaluate_aux_transition<F, E>(
        &self,
        main_frame: &EvaluationFrame<F>,
        aux_frame: &EvaluationFrame<E>,
        _periodic_values: &[F],
        aux_rand_elements: &[E],
        result: &mut [E],
    ) where
        F: FieldElement<BaseField = B>,
        E: FieldElement<BaseField = B> + ExtensionOf<F>,
    {
        let mcur = main_frame.current();
        let acur = aux_frame.current();
        let anext = aux_frame.next();
        if self.poison {
            result[0] = anext[0] - acur[0] - E::ONE;
            return;
        }
        let aux = self.desc.aux.as_ref().expect("aux description");
        for (j, (kind, c)) in aux.cols.iter().enumerate() {
            let r = aux_rand(aux_rand_elements, j);
            result[j] = if *kind == 0 {
                anext[j] - acur[j] - r.mul_base(mcur[*c])
            } else {
                // product column of degree kind + 1: next = cur * (main + r)^kind
                anext[j] - acur[j] * (E::from(mcur[*c]) + r).exp_vartime(E::PositiveInteger::from(*kind as u32))
            };
        }
    }

    fn get_aux_assertions<E: FieldElement<BaseField = B>>(&self, aux_rand_elements: &[E]) -> Vec<Assertion<E>> {
        if self.poison {
            return vec![Assertion::single(0, 0, E::ZERO)];
        }
        match &self.desc.aux {
            Some(aux) => (0..aux.cols.len()).map(|j| Assertion::single(j, 0, aux_init(aux_rand_elements, j))).collect(),
            None => vec![],
        }
    }

    fn get_auxiliary_proof_verifier<E: FieldElement<BaseField = B>>(&self) -> DummyGkr {
        DummyGkr
    }
}

/// random element used by regular aux column j (ONE when the segment draws no random elements)
pub fn aux_rand<E: FieldElement>(rands: &[E], j: usize) -> E {
    if rands.is_empty() {
        E::ONE
    } else {
        rands[j % rands.len()]
    }
}
/// first-row value of regular aux column j
pub fn aux_init<E: FieldElement>(rands: &[E], j: usize) -> E {
    aux_rand(rands, j) + E::from(j as u32 + 1)
}

// TRACE
// ================================================================================================

#[derive(Clone, Debug)]
pub struct GenTrace<B: FA> {
    pub info: TraceInfo,
    pub main: ColMatrix<B>,
}

impl<B: FA> GenTrace<B> {
    pub fn new(desc: &Desc, cols: &[Vec<u128>]) -> Self {
        let (aw, nr) = match &desc.aux {
            Some(a) => (a.width(), a.num_rands),
            None => (0, 0),
        };
        let info = TraceInfo::new_multi_segment(desc.width(), aw, nr, desc.n(), desc.meta.clone());
        let main = ColMatrix::new(cols.iter().map(|c| c.iter().map(|v| B::from_u128(*v)).collect()).collect());
        GenTrace { info, main }
    }
}

impl<B: FA> Trace for GenTrace<B> {
    type BaseField = B;
    fn info(&self) -> &TraceInfo {
        &self.info
    }
    fn main_segment(&self) -> &ColMatrix<B> {
        &self.main
    }
    fn read_main_frame(&self, row_idx: usize, frame: &mut EvaluationFrame<B>) {
        let next = (row_idx + 1) % self.main.num_rows();
        self.main.read_row_into(row_idx, frame.current_mut());
        self.main.read_row_into(next, frame.next_mut());
    }
}

// PROVER
// ================================================================================================

/// a fault injected into the auxiliary segment after it has been built
#[derive(Clone, Copy, Debug)]
pub struct AuxFault {
    pub col: usize,
    pub row: usize,
    pub delta: u32,
    /// false: add `delta` to the single cell (col, row); true: transform the WHOLE column so that every
    /// transition constraint stays satisfied and only the boundary assertion at row 0 is violated
    /// (sum columns: add delta to every row; product columns: multiply every row by 1 + delta)
    pub whole_column: bool,
}

pub struct GenProver<B: FA, H, R> {
    pub desc: Arc<Desc>,
    pub options: ProofOptions,
    pub aux_fault: Option<AuxFault>,
    _p: PhantomData<(B, H, R)>,
}

impl<B: FA, H, R> GenProver<B, H, R> {
    pub fn new(desc: Arc<Desc>, options: ProofOptions) -> Self {
        GenProver { desc, options, aux_fault: None, _p: PhantomData }
    }
}

/// builds the auxiliary segment for a main trace (also used by the harness' own models)
pub fn build_aux<B: FA, E: FieldElement<BaseField = B>>(desc: &Desc, main: &ColMatrix<B>, rands: &[E], lagrange: Option<&[E]>) -> Vec<Vec<E>> {
    let aux = desc.aux.as_ref().expect("aux description");
    let n = main.num_rows();
    let mut columns: Vec<Vec<E>> = Vec::with_capacity(aux.width());
    for (j, (kind, c)) in aux.cols.iter().enumerate() {
        let r = aux_rand(rands, j);
        let src = main.get_column(*c);
        let mut col = Vec::with_capacity(n);
        let mut v = aux_init(rands, j);
        col.push(v);
        for s in src.iter().take(n - 1) {
            v = if *kind == 0 { v + r.mul_base(*s) } else { v * (E::from(*s) + r).exp_vartime(E::PositiveInteger::from(*kind as u32)) };
            col.push(v);
        }
        columns.push(col);
    }
    if aux.lagrange {
        let r = lagrange.expect("lagrange random elements");
        let mut col = Vec::with_capacity(n);
        for row in 0..n {
            let mut v = E::ONE;
            for (bit, &ri) in r.iter().enumerate() {
                if row & (1 << bit) == 0 {
                    v *= E::ONE - ri;
                } else {
                    v *= ri;
                }
            }
            col.push(v);
        }
        columns.push(col);
    }
    columns
}

impl<B, H, R> Prover for GenProver<B, H, R>
where
    B: FA,
    H: ElementHasher<BaseField = B> + Sync + Send,
    R: RandomCoin<BaseField = B, Hasher = H> + Sync + Send,
{
    type BaseField = B;
    type Air = GenAir<B>;
    type Trace = GenTrace<B>;
    type HashFn = H;
    type RandomCoin = R;
    type TraceLde<E: FieldElement<BaseField = B>> = DefaultTraceLde<E, H>;
    type ConstraintEvaluator<'a, E: FieldElement<BaseField = B>> = DefaultConstraintEvaluator<'a, GenAir<B>, E>;

    fn get_pub_inputs(&self, _trace: &GenTrace<B>) -> GenPub<B> {
        GenPub::new(self.desc.clone())
    }

    fn options(&self) -> &ProofOptions {
        &self.options
    }

    fn new_trace_lde<E: FieldElement<BaseField = B>>(
        &self,
        trace_info: &TraceInfo,
        main_trace: &ColMatrix<B>,
        domain: &StarkDomain<B>,
    ) -> (Self::TraceLde<E>, TracePolyTable<E>) {
        DefaultTraceLde::new(trace_info, main_trace, domain)
    }

    fn new_evaluator<'a, E: FieldElement<BaseField = B>>(
        &self,
        air: &'a GenAir<B>,
        aux_rand_elements: Option<AuxRandElements<E>>,
        composition_coefficients: ConstraintCompositionCoefficients<E>,
    ) -> Self::ConstraintEvaluator<'a, E> {
        DefaultConstraintEvaluator::new(air, aux_rand_elements, composition_coefficients)
    }

    fn generate_gkr_proof<E: FieldElement<BaseField = B>>(
        &self,
        main_trace: &GenTrace<B>,
        public_coin: &mut R,
    ) -> (ProverGkrProof<Self>, LagrangeKernelRandElements<E>) {
        let log_n = main_trace.main.num_rows().ilog2() as usize;
        let mut r = Vec::with_capacity(log_n);
        for _ in 0..log_n {
            r.push(public_coin.draw().expect("draw"));
        }
        (log_n, LagrangeKernelRandElements::new(r))
    }

    fn build_aux_trace<E: FieldElement<BaseField = B>>(&self, main_trace: &GenTrace<B>, aux_rand_elements: &AuxRandElements<E>) -> ColMatrix<E> {
        let lag: Option<Vec<E>> = aux_rand_elements.lagrange().map(|l| l.iter().copied().collect());
        let mut cols = build_aux(&self.desc, &main_trace.main, aux_rand_elements.rand_elements(), lag.as_deref());
        if let Some(f) = self.aux_fault {
            let d = E::from(f.delta.max(1));
            if f.whole_column {
                // product columns and the Lagrange kernel column (index = number of regular columns) are scaled
                let product = self.desc.aux.as_ref().map(|a| f.col >= a.cols.len() || a.cols[f.col].0 != 0).unwrap_or(false);
                for v in cols[f.col].iter_mut() {
                    if product {
                        *v *= E::ONE + d;
                    } else {
                        *v += d;
                    }
                }
            } else {
                cols[f.col][f.row] += d;
            }
        }
        ColMatrix::new(cols)
    }
}
