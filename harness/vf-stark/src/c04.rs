//! C04 — Fiat–Shamir transcript: every challenge is drawn from a coin that has absorbed the context,
//! the public inputs and every earlier prover message, exactly as carried in the proof; prover and
//! verifier derive identical values.
//!
//! Oracle: the protocol's transcript *derived by the harness from the proof object alone* (spec),
//! replayed on a fresh DefaultRandomCoin; both recorded transcripts must equal it.

use std::sync::Arc;

use proptest::prelude::*;
use serde::{Deserialize, Serialize};
use vf_core::{ensure, CheckResult, Fail, Obs, Run, SubCheck, Tier};
use vf_repo::FA;
use winter_air::proof::Proof;
use winter_air::{Air, ProofOptions};
use winter_crypto::{DefaultRandomCoin, Digest, ElementHasher, RandomCoin};
use winter_math::fields::{CubeExtension, QuadExtension};
use winter_math::{FieldElement, ToElements};
use winter_utils::{Deserializable, Serializable, SliceReader};

use crate::coin::{clear_log, seed_bytes, take_log, Event, RecordingCoin};
use crate::common::*;
use crate::desc::Desc;
use crate::gen::*;
use crate::genair::{GenAir, GenPub};

#[derive(Serialize, Deserialize, Clone, Debug)]
pub struct TCase {
    pub shape: Shape,
    /// which absorbed message to disturb in the metamorphic part, and which bit
    pub disturb: u16,
    pub bit: u16,
}

pub struct Transcript {
    pub tier: Tier,
}

/// one operation of the specified transcript
pub enum SpecOp<B: FA, H: ElementHasher<BaseField = B>> {
    New(Vec<B>),
    Reseed(H::Digest),
    Draw(usize),
    Pow(u64),
    Ints(usize, usize, u64),
}

impl<B: FA, H: ElementHasher<BaseField = B>> Clone for SpecOp<B, H> {
    fn clone(&self) -> Self {
        match self {
            SpecOp::New(s) => SpecOp::New(s.clone()),
            SpecOp::Reseed(d) => SpecOp::Reseed(*d),
            SpecOp::Draw(d) => SpecOp::Draw(*d),
            SpecOp::Pow(n) => SpecOp::Pow(*n),
            SpecOp::Ints(a, b, c) => SpecOp::Ints(*a, *b, *c),
        }
    }
}

fn draw_deg<B: FA, H: ElementHasher<BaseField = B>>(coin: &mut DefaultRandomCoin<H>, deg: usize) -> Option<Vec<u8>> {
    match deg {
        1 => coin.draw::<B>().ok().map(|e| e.to_bytes()),
        2 => coin.draw::<QuadExtension<B>>().ok().map(|e| e.to_bytes()),
        _ => coin.draw::<CubeExtension<B>>().ok().map(|e| e.to_bytes()),
    }
}

/// replays the specified transcript on a fresh coin, producing the expected event log
pub fn replay<B: FA, H: ElementHasher<BaseField = B>>(spec: &[SpecOp<B, H>]) -> Vec<Event> {
    let mut out = vec![];
    let mut coin: Option<DefaultRandomCoin<H>> = None;
    for op in spec {
        match op {
            SpecOp::New(seed) => {
                out.push(Event::New(seed_bytes(seed)));
                coin = Some(DefaultRandomCoin::new(seed));
            },
            SpecOp::Reseed(d) => {
                out.push(Event::Reseed(d.as_bytes().to_vec()));
                coin.as_mut().unwrap().reseed(*d);
            },
            SpecOp::Draw(deg) => {
                let r = draw_deg::<B, H>(coin.as_mut().unwrap(), *deg);
                out.push(Event::Draw(*deg, r));
            },
            SpecOp::Pow(nonce) => {
                let r = coin.as_ref().unwrap().check_leading_zeros(*nonce);
                out.push(Event::CheckLeadingZeros(*nonce, r));
            },
            SpecOp::Ints(n, d, nonce) => {
                let r = coin.as_mut().unwrap().draw_integers(*n, *d, *nonce).ok();
                out.push(Event::DrawIntegers(*n, *d, *nonce, r));
            },
        }
    }
    out
}

/// splits the serialized OOD frame into (trace states block, lagrange block, evaluations block)
pub fn split_ood(bytes: &[u8]) -> Option<(Vec<u8>, Vec<u8>, Vec<u8>)> {
    let mut r = SliceReader::new(bytes);
    use winter_utils::ByteReader;
    let n1 = r.read_u16().ok()? as usize;
    let a = r.read_vec(n1).ok()?;
    let n2 = r.read_u16().ok()? as usize;
    let b = r.read_vec(n2).ok()?;
    let n3 = r.read_u16().ok()? as usize;
    let c = r.read_vec(n3).ok()?;
    if r.has_more_bytes() {
        return None;
    }
    Some((a, b, c))
}

fn read_elems<E: FieldElement>(bytes: &[u8]) -> Option<Vec<E>> {
    if bytes.len() % E::ELEMENT_BYTES != 0 {
        return None;
    }
    let mut r = SliceReader::new(bytes);
    (0..bytes.len() / E::ELEMENT_BYTES).map(|_| E::read_from(&mut r).ok()).collect()
}

/// derives the specified transcript from the proof object and the public statement alone
pub fn derive_spec<B: FA, H: ElementHasher<BaseField = B>, E: FieldElement<BaseField = B>>(
    proof: &Proof,
    desc: &Arc<Desc>,
) -> Result<(Vec<SpecOp<B, H>>, usize), Fail> {
    let deg = E::EXTENSION_DEGREE;
    let bad = |m: &str| Fail::new("harness/spec", m.to_string());
    let ti = proof.trace_info().clone();
    let options: ProofOptions = proof.options().clone();
    // the AIR gives the numbers of constraints / assertions / composition columns
    let air = GenAir::<B>::new(ti.clone(), GenPub::new(desc.clone()), options.clone());
    let ctx = air.context();
    let n = ti.length();
    let lde = n * options.blowup_factor();
    let fri = options.to_fri_options();
    let num_layers = {
        // reference loop for the number of FRI layers
        let max_rem = (fri.remainder_max_degree() + 1) * fri.blowup_factor();
        let (mut d, mut l) = (lde, 0);
        while d > max_rem {
            d /= fri.folding_factor();
            l += 1;
        }
        l
    };
    let (trace_roots, constraint_root, fri_roots) = proof
        .commitments
        .clone()
        .parse::<H>(ti.num_segments(), num_layers)
        .map_err(|e| bad(&format!("commitments do not parse: {e}")))?;

    let mut spec: Vec<SpecOp<B, H>> = vec![];
    let mut seed: Vec<B> = proof.context.to_elements();
    seed.extend(GenPub::<B>::new(desc.clone()).to_elements());
    spec.push(SpecOp::New(seed));
    spec.push(SpecOp::Reseed(trace_roots[0]));
    let lagrange = ctx.has_lagrange_kernel_aux_column();
    if ti.is_multi_segment() {
        if lagrange {
            for _ in 0..n.ilog2() {
                spec.push(SpecOp::Draw(deg));
            }
        }
        for _ in 0..ti.get_num_aux_segment_rand_elements() {
            spec.push(SpecOp::Draw(deg));
        }
        spec.push(SpecOp::Reseed(trace_roots[1]));
    }
    let mut coeffs = ctx.num_transition_constraints() + ctx.num_assertions();
    if lagrange {
        coeffs += n.ilog2() as usize + 1;
    }
    for _ in 0..coeffs {
        spec.push(SpecOp::Draw(deg));
    }
    spec.push(SpecOp::Reseed(constraint_root));
    spec.push(SpecOp::Draw(deg)); // z
    // OOD frame: hashes recomputed from the bytes carried in the proof, in wire order
    let (ts, lag, evals) = split_ood(&proof.ood_frame.to_bytes()).ok_or_else(|| bad("ood frame layout"))?;
    if ts.is_empty() || lag.is_empty() {
        return Err(bad("empty ood blocks"));
    }
    let mut elems: Vec<E> = read_elems::<E>(&ts[1..]).ok_or_else(|| bad("ood trace states"))?;
    elems.extend(read_elems::<E>(&lag[1..]).ok_or_else(|| bad("ood lagrange states"))?);
    spec.push(SpecOp::Reseed(H::hash_elements(&elems)));
    let ev: Vec<E> = read_elems::<E>(&evals).ok_or_else(|| bad("ood evaluations"))?;
    spec.push(SpecOp::Reseed(H::hash_elements(&ev)));
    let mut deep = ti.width() + ctx.num_constraint_composition_columns();
    if lagrange {
        deep += 1;
    }
    for _ in 0..deep {
        spec.push(SpecOp::Draw(deg));
    }
    if fri_roots.len() != num_layers + 1 {
        return Err(bad("fri roots"));
    }
    for root in fri_roots.iter().take(num_layers) {
        spec.push(SpecOp::Reseed(*root));
        spec.push(SpecOp::Draw(deg));
    }
    spec.push(SpecOp::Reseed(fri_roots[num_layers]));
    let remainder_pos = spec.len();
    spec.push(SpecOp::Pow(proof.pow_nonce));
    spec.push(SpecOp::Ints(options.num_queries(), lde, proof.pow_nonce));
    Ok((spec, remainder_pos))
}

fn diff(what: &str, got: &[Event], want: &[Event]) -> CheckResult {
    if got == want {
        return Ok(());
    }
    let i = got.iter().zip(want.iter()).position(|(a, b)| a != b).unwrap_or(got.len().min(want.len()));
    let show = |v: &[Event]| v.iter().skip(i.saturating_sub(2)).take(5).map(|e| e.short()).collect::<Vec<_>>().join(" ");
    let kind = match (got.get(i), want.get(i)) {
        (Some(Event::Reseed(_)), Some(Event::Reseed(_))) => "absorbed-value-differs",
        (Some(Event::New(_)), Some(Event::New(_))) => "seed-differs",
        (Some(a), Some(b)) if std::mem::discriminant(a) == std::mem::discriminant(b) => "result-differs",
        (None, _) => "operation-missing",
        (_, None) => "extra-operation",
        _ => "operation-order-differs",
    };
    Err(Fail::new(
        format!("{what}/{kind}"),
        format!("{what} transcript departs from the protocol's transcript at operation {i}: got [.. {}] expected [.. {}]", show(got), show(want)),
    ))
}

fn le_int(bytes: &[u8]) -> u128 {
    bytes.iter().rev().fold(0u128, |acc, b| (acc << 8) | *b as u128)
}

/// The context part of the public-coin seed as documented (air: TraceInfo / ProofOptions / Context
/// `to_elements`), computed from the statement and the options the harness chose — not from the proof:
/// [main width | #aux segments (| aux width | #aux rands)], trace length, the metadata in chunks of
/// ELEMENT_BYTES - 1 bytes (little-endian, zero padded), the two halves of the modulus' little-endian
/// bytes, [extension code | folding factor | remainder max degree], grinding, blowup, queries.
pub fn ref_context_elements(fp: &vf_ref::Fp, desc: &Desc, o: &RealOpts) -> Vec<u128> {
    let mut v = vec![];
    let mut first = desc.width() as u128;
    match &desc.aux {
        None => first <<= 8,
        Some(a) => {
            first = (first << 8) | 1;
            first = (first << 8) | a.width() as u128;
            first = (first << 8) | a.num_rands as u128;
        },
    }
    v.push(first);
    v.push(desc.n() as u128);
    for chunk in desc.meta.chunks(fp.elem_bytes - 1) {
        v.push(le_int(chunk));
    }
    let m = fp.p.to_le_bytes();
    let m = &m[..fp.elem_bytes];
    v.push(le_int(&m[..fp.elem_bytes / 2]) % fp.p);
    v.push(le_int(&m[fp.elem_bytes / 2..]) % fp.p);
    v.push(((o.ext as u128) << 16) | ((o.folding as u128) << 8) | o.rem_deg as u128);
    v.push(o.grinding as u128);
    v.push(o.blowup as u128);
    v.push(o.queries as u128);
    v
}

fn transcript_one<B: FA, H: ElementHasher<BaseField = B> + Send + Sync>(c: &TCase, tier: Tier, obs: &mut Obs) -> CheckResult {
    let inst = realize::<B>(&c.shape, tier.pick(1 << 16, 1 << 19));
    for l in &inst.labels {
        obs.label(l.clone());
    }
    let desc = Arc::new(inst.desc.clone());
    let options = make_options(&inst.opts)?;
    clear_log();
    let proof = match prove_with::<B, H, RecordingCoin<B, H>>(&desc, &inst.trace, options, None) {
        ProveOutcome::Proof(p) => p,
        ProveOutcome::Err(e) => {
            clear_log();
            if is_coin_exhaustion(&e) {
                obs.label("outside-claim:coin-exhaustion");
                return Ok(());
            }
            return Err(Fail::new("prove/error", e));
        },
        ProveOutcome::Panic(p) => {
            clear_log();
            if is_coin_exhaustion(&p.msg) {
                obs.label("outside-claim:coin-exhaustion");
                return Ok(());
            }
            return Err(Fail::new(format!("prove/{}", p.key()), p.msg));
        },
    };
    let prover_log = take_log();
    let v = verify_with::<B, H, RecordingCoin<B, H>>(proof.clone(), &desc, &min_sec0());
    let verifier_log = take_log();
    match v {
        VerifyOutcome::Ok => {},
        VerifyOutcome::Err(e) => return Err(Fail::new("verify/rejected", format!("honest proof rejected: {e}"))),
        VerifyOutcome::Panic(p) => return Err(Fail::new(format!("verify/{}", p.key()), p.msg)),
    }
    // the seed's context part, by the documented layout and from the harness' own inputs
    {
        let lib: Vec<u128> = ToElements::<B>::to_elements(&proof.context).iter().map(|e| e.to_u128()).collect();
        let want = ref_context_elements(&B::FP, &desc, &inst.opts);
        if lib != want {
            return Err(Fail::new(
                "seed/context-elements-differ-from-documented-layout",
                format!("Context::to_elements gives {lib:?}, the documented layout gives {want:?} (metadata of {} bytes)", desc.meta.len()),
            ));
        }
    }
    let (spec, remainder_pos) = match inst.opts.ext {
        1 => derive_spec::<B, H, B>(&proof, &desc)?,
        2 => derive_spec::<B, H, QuadExtension<B>>(&proof, &desc)?,
        _ => derive_spec::<B, H, CubeExtension<B>>(&proof, &desc)?,
    };
    let expected = replay::<B, H>(&spec);
    obs.nontrivial_if(desc.aux.is_some() || inst.opts.ext > 1 || inst.opts.grinding > 0 || inst.labels.iter().any(|l| l == "fri-layers=0" || l == "fri-layers=4"));

    // the prover searches nonces 1, 2, ... until the proof-of-work condition holds: all but the last
    // check belong to the search, not to the transcript
    let grinding = inst.opts.grinding;
    let mut p: Vec<Event> = Vec::with_capacity(prover_log.len());
    let mut search = 0u64;
    for (i, e) in prover_log.iter().enumerate() {
        if let Event::CheckLeadingZeros(nonce, r) = e {
            let last = !matches!(prover_log.get(i + 1), Some(Event::CheckLeadingZeros(..)));
            if !last {
                search += 1;
                ensure!(*r < grinding, "prover/pow-search", "the prover went on searching after nonce {nonce} already satisfied the proof-of-work condition");
                continue;
            }
            ensure!(*r >= grinding, "prover/pow-nonce", "the nonce found by the prover does not satisfy the grinding factor");
        }
        p.push(e.clone());
    }
    obs.label(if search > 0 { "pow-search>0" } else { "pow-search=0" });
    // with a grinding factor of zero the proof-of-work measure is not a challenge that is used (every nonce
    // passes): whether a side evaluates it at all is not part of the property, the nonce handed to the query
    // draw is
    let pow_free = |v: &[Event]| -> Vec<Event> { v.iter().filter(|e| grinding > 0 || !matches!(e, Event::CheckLeadingZeros(..))).cloned().collect() };
    let expected_full = expected;
    let expected = pow_free(&expected_full);
    let p = pow_free(&p);
    diff("prover", &p, &expected)?;
    // the value absorbed with the query draw is the nonce carried in the proof: hand the verifier the same proof
    // with another nonce that passes the proof-of-work check of the reference transcript; whatever the outcome,
    // the verifier must have measured and absorbed that nonce
    if grinding <= 8 {
        if let Some(Event::DrawIntegers(..)) = expected_full.last() {
            let mut n2 = proof.pow_nonce;
            let mut found = None;
            for _ in 0..64 {
                n2 = n2.wrapping_add(1);
                let mut spec_n = spec.clone();
                let k = spec_n.len();
                spec_n[k - 2] = SpecOp::Pow(n2);
                spec_n.truncate(k - 1);
                if let Some(Event::CheckLeadingZeros(_, r)) = replay::<B, H>(&spec_n).last() {
                    if *r >= grinding {
                        found = Some(n2);
                        break;
                    }
                }
            }
            if let Some(n2) = found {
                obs.label("carried-nonce-replaced");
                let mut forged = proof.clone();
                forged.pow_nonce = n2;
                clear_log();
                let _ = verify_with::<B, H, RecordingCoin<B, H>>(forged, &desc, &min_sec0());
                let log2 = take_log();
                let used: Vec<u64> = log2.iter().filter_map(|e| if let Event::DrawIntegers(_, _, n, _) = e { Some(*n) } else { None }).collect();
                ensure!(
                    used == vec![n2],
                    "verifier/absorbed-nonce-is-not-the-carried-one",
                    "the proof carries nonce {n2} (replacing {}), which passes the proof-of-work check; the verifier drew the query positions with nonce(s) {used:?}",
                    proof.pow_nonce
                );
                if grinding > 0 {
                    ensure!(
                        log2.iter().any(|e| matches!(e, Event::CheckLeadingZeros(n, _) if *n == n2)),
                        "verifier/carried-nonce-not-measured",
                        "the verifier did not measure the proof of work of the carried nonce {n2}"
                    );
                }
            }
        }
    }
    // the verifier draws one extra, unused folding challenge after absorbing the remainder commitment
    let mut want_v = expected.clone();
    let mut vlog = pow_free(&verifier_log);
    if let Some(Event::Draw(..)) = vlog.get(remainder_pos) {
        vlog.remove(remainder_pos);
        obs.label("verifier-extra-alpha");
    }
    diff("verifier", &vlog, &want_v)?;
    want_v.clear();

    // metamorphic: disturbing any single absorbed message changes every later challenge
    let absorb_positions: Vec<usize> = spec.iter().enumerate().filter(|(_, o)| matches!(o, SpecOp::New(_) | SpecOp::Reseed(_))).map(|(i, _)| i).collect();
    let at = absorb_positions[vf_core::pick_index(c.disturb, absorb_positions.len())];
    let mut spec2 = spec.clone();
    match &mut spec2[at] {
        SpecOp::New(seed) => {
            let i = vf_core::pick_index(c.bit, seed.len());
            seed[i] += B::ONE;
        },
        SpecOp::Reseed(d) => {
            let mut bytes = d.to_bytes();
            let nbits: usize = bytes.len() << 3;
            let i = vf_core::pick_index(c.bit, nbits);
            bytes[i / 8] ^= 1 << (i % 8);
            match H::Digest::read_from_bytes(&bytes) {
                Ok(nd) if nd.as_bytes() != d.as_bytes() => *d = nd,
                _ => {
                    obs.label("metamorphic:skipped-noncanonical-digest");
                    return Ok(());
                },
            }
        },
        _ => unreachable!(),
    }
    // the nonce is part of the transcript too: another nonce (in particular one that differs by the
    // field modulus, or only in its top bit) must lead to other query positions
    if let Some(Event::DrawIntegers(n, d, nonce, Some(pos))) = expected.last() {
        if (*d as f64).log2() * (*n as f64) >= 40.0 {
            let p64 = (B::FP.p & (u64::MAX as u128)) as u64;
            for (what, n2) in [("nonce+1", nonce.wrapping_add(1)), ("nonce+p", nonce.wrapping_add(p64)), ("nonce^2^63", nonce ^ (1u64 << 63)), ("nonce+2p", nonce.wrapping_add(p64.wrapping_mul(2)))] {
                if n2 == *nonce {
                    continue;
                }
                let mut spec3 = spec.clone();
                let l = spec3.len();
                spec3[l - 2] = SpecOp::Pow(n2);
                spec3[l - 1] = SpecOp::Ints(*n, *d, n2);
                let r3 = replay::<B, H>(&spec3);
                if let Some(Event::DrawIntegers(_, _, _, Some(pos3))) = r3.last() {
                    obs.comparisons += 1;
                    ensure!(pos3 != pos, format!("metamorphic/positions-ignore-{what}"), "the query positions are the same for nonce {nonce} and {n2} ({what}): the nonce is not fully absorbed");
                }
            }
        }
    }
    let disturbed = replay::<B, H>(&spec2);
    let expected = &expected_full;
    for i in at + 1..expected.len() {
        match (&expected[i], &disturbed[i]) {
            (Event::Draw(_, Some(a)), Event::Draw(_, Some(b))) => {
                obs.comparisons += 1;
                ensure!(a != b, "metamorphic/draw-unchanged", "challenge {i} did not change although absorbed message {at} was disturbed");
            },
            (Event::DrawIntegers(n, d, _, Some(a)), Event::DrawIntegers(_, _, _, Some(b))) => {
                // query positions: at least 40 bits of position material must differ to call it
                if (*d as f64).log2() * (*n as f64) >= 40.0 {
                    ensure!(a != b, "metamorphic/positions-unchanged", "query positions did not change although absorbed message {at} was disturbed");
                }
            },
            _ => {},
        }
    }
    Ok(())
}

impl SubCheck for Transcript {
    type Case = TCase;
    fn name(&self) -> String {
        "transcript".into()
    }
    fn cases(&self, tier: Tier) -> u64 {
        tier.pick(1_500, 30_000)
    }
    fn watchdog_secs(&self) -> u64 {
        300
    }
    fn shrink_iters(&self) -> usize {
        40
    }
    fn rule(&self) -> String {
        "GenAir instances (single and multi segment, Lagrange column, extension 1..3, 0..4+ FRI layers, grinding 0..8, 12 field/hasher pairs) proven and verified with a recording coin; the specified transcript is derived from the proof object alone (context and public inputs as seed, roots parsed from the commitments, OOD hashes recomputed from the proof's bytes, draw counts from the AIR) and replayed on a fresh coin; non-trivial = aux segment, extension field, grinding > 0, or 0 / >= 4 FRI layers".into()
    }
    fn required_labels(&self, _t: Tier) -> Vec<String> {
        ["aux-segment", "lagrange", "ext=2", "ext=3", "fri-layers=0", "fri-layers=2", "grinding>0", "pow-search>0", "verifier-extra-alpha", "carried-nonce-replaced"].iter().map(|s| s.to_string()).collect()
    }
    fn strategy(&self, tier: Tier) -> BoxedStrategy<TCase> {
        let p = GenParams { max_log_n: tier.pick(6, 9), max_grinding: 8, fixed: None, allow_aux: true, allow_degenerate: false };
        (shape_strategy(&p), any::<u16>(), any::<u16>()).prop_map(|(shape, disturb, bit)| TCase { shape, disturb, bit }).boxed()
    }
    fn check(&self, c: &TCase, obs: &mut Obs) -> CheckResult {
        let tier = self.tier;
        crate::dispatch!(c.shape.field, c.shape.hasher, transcript_one, c, tier, obs)
    }
}

pub fn run(run: &mut Run) {
    run.assume("the hash functions behave as random oracles for the purpose of 'a disturbed message changes later challenges' (>= 62 bits compared per challenge)");
    run.assume("the verifier's one extra folding challenge drawn after the remainder commitment is unused and tolerated");
    let tier = run.tier;
    run.sub(&Transcript { tier });
}
