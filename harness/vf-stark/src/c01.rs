//! C01 — completeness: every valid execution yields a proof the verifier accepts, also after a
//! serialization round trip.

use std::sync::Arc;

use proptest::prelude::*;
use vf_core::{ensure, CheckResult, Fail, Obs, Run, SubCheck, Tier};
use vf_repo::FA;
use winter_air::proof::Proof;
use winter_air::Air;
use winter_crypto::{DefaultRandomCoin, ElementHasher};
use winter_prover::Trace;

use crate::common::*;
use crate::desc::ref_valid;
use crate::gen::*;
use crate::genair::{GenAir, GenPub, GenTrace};

pub struct Complete {
    pub tier: Tier,
}

pub fn nontrivial_labels() -> [&'static str; 12] {
    [
        "width>8",
        "sequence>=64",
        "periodic-column",
        "exemptions>1",
        "aux-segment",
        "ext=2",
        "ext=3",
        "degenerate-trace",
        "assert=periodic",
        "ce-blowup<lde-blowup",
        "degree>=4",
        "assert-first-step!=0",
    ]
}

fn run_one<B: FA, H: ElementHasher<BaseField = B> + Send + Sync>(shape: &Shape, tier: Tier, obs: &mut Obs) -> CheckResult {
    let inst = realize::<B>(shape, budget(tier));
    for l in &inst.labels {
        obs.label(l.clone());
    }
    obs.label(format!("hasher={}", crate::inst::HASHER_NAMES[crate::inst::admissible(shape.field, shape.hasher).1 as usize]));
    obs.nontrivial_if(inst.labels.iter().any(|l| nontrivial_labels().contains(&l.as_str())) || shape.hasher >= 3);
    // the trace is valid by construction; the executable definition of validity must agree
    if let Err(e) = ref_valid(&B::FP, &inst.desc, &inst.trace) {
        return Err(Fail::new("harness/constructed-trace-invalid", e));
    }
    let desc = Arc::new(inst.desc.clone());
    if std::env::var("VF_DEBUG").is_ok() {
        eprintln!("DESC {}\nOPTS {:?}\nTRACE {:?}", serde_json::to_string(&inst.desc).unwrap(), inst.opts, inst.trace);
    }
    let options = make_options(&inst.opts)?;
    // cross-check of the reference validity predicate with the repository's own (single segment only:
    // the auxiliary segment depends on verifier randomness)
    if desc.aux.is_none() {
        let trace = GenTrace::<B>::new(&desc, &inst.trace);
        let air = GenAir::<B>::new(trace.info.clone(), GenPub::new(desc.clone()), options.clone());
        let v = vf_core::catch(|| trace.validate::<GenAir<B>, B>(&air, None));
        if let Err(p) = v {
            return Err(Fail::new("validity-models-disagree", format!("Trace::validate rejects a trace the reference predicate accepts: {}", p.msg)));
        }
    }
    let proof = match prove_with::<B, H, DefaultRandomCoin<H>>(&desc, &inst.trace, options, None) {
        ProveOutcome::Proof(p) => p,
        ProveOutcome::Err(e) => {
            if is_coin_exhaustion(&e) && B::NAME == "f62" && inst.opts.ext == 3 {
                obs.label("outside-claim:coin-exhaustion");
                return Ok(());
            }
            return Err(Fail::new("prove/error", format!("proving a valid trace failed: {e}")));
        },
        ProveOutcome::Panic(p) => {
            if is_coin_exhaustion(&p.msg) && B::NAME == "f62" && inst.opts.ext == 3 {
                obs.label("outside-claim:coin-exhaustion");
                return Ok(());
            }
            return Err(Fail::new(format!("prove/{}", p.key()), format!("proving a valid trace panicked: {} at {}:{}", p.msg, p.file, p.line)));
        },
    };
    match verify_with::<B, H, DefaultRandomCoin<H>>(proof.clone(), &desc, &min_sec0()) {
        VerifyOutcome::Ok => {},
        VerifyOutcome::Err(e) => return Err(Fail::new("verify/rejected", format!("honest proof rejected: {e}"))),
        VerifyOutcome::Panic(p) => return Err(Fail::new(format!("verify/{}", p.key()), format!("verifier panicked on an honest proof: {} at {}:{}", p.msg, p.file, p.line))),
    }
    // serialization round trip
    let bytes = proof.to_bytes();
    let back = match vf_core::catch(|| Proof::from_bytes(&bytes)) {
        Ok(Ok(p)) => p,
        Ok(Err(e)) => return Err(Fail::new("roundtrip/parse-error", format!("honest proof does not parse back: {e}"))),
        Err(p) => return Err(Fail::new(format!("roundtrip/{}", p.key()), format!("parsing an honest proof panicked: {}", p.msg))),
    };
    ensure!(back == proof, "roundtrip/not-equal", "parsed proof differs from the original");
    ensure!(back.to_bytes() == bytes, "roundtrip/bytes", "re-serialization differs");
    match verify_with::<B, H, DefaultRandomCoin<H>>(back, &desc, &min_sec0()) {
        VerifyOutcome::Ok => Ok(()),
        VerifyOutcome::Err(e) => Err(Fail::new("roundtrip/rejected", format!("proof rejected after serialization round trip: {e}"))),
        VerifyOutcome::Panic(p) => Err(Fail::new(format!("roundtrip-verify/{}", p.key()), format!("verifier panicked after round trip: {}", p.msg))),
    }
}

impl SubCheck for Complete {
    type Case = Shape;
    fn name(&self) -> String {
        "complete".into()
    }
    fn cases(&self, tier: Tier) -> u64 {
        tier.pick(2_500, 40_000)
    }
    fn watchdog_secs(&self) -> u64 {
        300
    }
    fn shrink_iters(&self) -> usize {
        48
    }
    fn rule(&self) -> String {
        "GenAir family: width 1..255 (edge widths 1,2,7,8,9,16,17,33,254,255 favoured), rules next=a*cur^d+b*cur[k]+e / with a periodic factor / geometric (constant, x^k, periodic), degree 1..blowup+1, periodic columns of cycle 2..n, exemptions 1..n/2+1, single/periodic/sequence assertions drawn from the trace (first step 0 and !=0, sequences up to n/2 values), optional aux segment (sum/product columns, 0..255 random elements, Lagrange column), all-degenerate traces, LDE coset left at the default or overridden through Air::domain_offset() (generator^-1, generator^3), 12 field/hasher pairs x extension 1..3, all option sets with a well-formed FRI schedule; trace by construction; non-trivial = width>8, sequence>=64 values, periodic column, exemptions>1, aux segment, extension field, degenerate trace, periodic assertion, ce-blowup<lde-blowup, degree>=4, non-zero first step or a Rescue hasher; distinct by whole shape".into()
    }
    fn required_labels(&self, tier: Tier) -> Vec<String> {
        let mut v: Vec<String> = ["field=f62", "field=f64", "field=f128", "ext=1", "ext=2", "ext=3", "aux-segment", "lagrange", "assert=sequence", "assert=periodic", "periodic-column", "exemptions>1", "width>8", "fri-layers=0", "fri-layers=1", "grinding>0", "hasher=rescue", "hasher=rescue-jive", "domain-offset-overridden", "aux-constraints>main-constraints"]
            .iter()
            .map(|s| s.to_string())
            .collect();
        if tier == Tier::Thorough {
            v.push("width>=254".into());
            v.push("sequence>=64".into());
        }
        v
    }
    fn strategy(&self, tier: Tier) -> BoxedStrategy<Shape> {
        shape_strategy(&GenParams::for_tier(tier))
    }
    fn check(&self, shape: &Shape, obs: &mut Obs) -> CheckResult {
        let tier = self.tier;
        crate::dispatch!(shape.field, shape.hasher, run_one, shape, tier, obs)
    }
}

/// Grinding factors of practical size: the nonce search runs far beyond the first few thousand candidates
/// (2^16..2^20 expected hash evaluations, quick; up to 2^22, thorough) on small single-segment computations.
pub struct HighGrinding {
    pub tier: Tier,
}

impl SubCheck for HighGrinding {
    type Case = Shape;
    fn name(&self) -> String {
        "high-grinding".into()
    }
    fn cases(&self, tier: Tier) -> u64 {
        tier.pick(36, 160)
    }
    fn watchdog_secs(&self) -> u64 {
        600
    }
    fn shrink_iters(&self) -> usize {
        8
    }
    fn rule(&self) -> String {
        "GenAir computations of 8..16 rows without auxiliary segment, every admissible field/hasher pair, grinding factor 16..20 (quick) / 16..22 (thorough): prove, verify, serialize, parse, verify; non-trivial = the nonce found lies beyond the first 65536 candidates; distinct by whole shape".into()
    }
    fn required_labels(&self, _t: Tier) -> Vec<String> {
        vec!["nonce>=2^16".into(), "nonce>=2^18".into()]
    }
    fn strategy(&self, tier: Tier) -> BoxedStrategy<Shape> {
        let p = GenParams { max_log_n: 4, max_grinding: 0, fixed: None, allow_aux: false, allow_degenerate: false };
        let top = tier.pick(20u8, 22u8);
        (shape_strategy(&p), 16u8..=top)
            .prop_map(|(mut s, g)| {
                s.opts.grinding = g;
                s.opts.queries = s.opts.queries.min(8);
                s
            })
            .boxed()
    }
    fn check(&self, shape: &Shape, obs: &mut Obs) -> CheckResult {
        let tier = self.tier;
        crate::dispatch!(shape.field, shape.hasher, run_grind, shape, tier, obs)
    }
}

fn run_grind<B: FA, H: ElementHasher<BaseField = B> + Send + Sync>(shape: &Shape, tier: Tier, obs: &mut Obs) -> CheckResult {
    let inst = realize::<B>(shape, budget(tier));
    let desc = Arc::new(inst.desc.clone());
    let options = make_options(&inst.opts)?;
    obs.label(format!("grinding={}", inst.opts.grinding));
    obs.label(format!("hasher={}", crate::inst::HASHER_NAMES[crate::inst::admissible(shape.field, shape.hasher).1 as usize]));
    let proof = match prove_with::<B, H, DefaultRandomCoin<H>>(&desc, &inst.trace, options, None) {
        ProveOutcome::Proof(p) => p,
        ProveOutcome::Err(e) => {
            if is_coin_exhaustion(&e) && B::NAME == "f62" && inst.opts.ext == 3 {
                obs.label("outside-claim:coin-exhaustion");
                return Ok(());
            }
            return Err(Fail::new("prove/error", format!("proving a valid trace failed: {e}")));
        },
        ProveOutcome::Panic(p) => {
            if is_coin_exhaustion(&p.msg) && B::NAME == "f62" && inst.opts.ext == 3 {
                obs.label("outside-claim:coin-exhaustion");
                return Ok(());
            }
            return Err(Fail::new(format!("prove/{}", p.key()), format!("proving a valid trace panicked: {} at {}:{}", p.msg, p.file, p.line)));
        },
    };
    obs.nontrivial_if(proof.pow_nonce >= 1 << 16);
    if proof.pow_nonce >= 1 << 16 {
        obs.label("nonce>=2^16");
    }
    if proof.pow_nonce >= 1 << 18 {
        obs.label("nonce>=2^18");
    }
    match verify_with::<B, H, DefaultRandomCoin<H>>(proof.clone(), &desc, &min_sec0()) {
        VerifyOutcome::Ok => {},
        VerifyOutcome::Err(e) => return Err(Fail::new("verify/rejected", format!("honest proof (grinding factor {}, nonce {}) rejected: {e}", inst.opts.grinding, proof.pow_nonce))),
        VerifyOutcome::Panic(p) => return Err(Fail::new(format!("verify/{}", p.key()), format!("verifier panicked on an honest proof: {} at {}:{}", p.msg, p.file, p.line))),
    }
    let bytes = proof.to_bytes();
    let back = match vf_core::catch(|| Proof::from_bytes(&bytes)) {
        Ok(Ok(p)) => p,
        Ok(Err(e)) => return Err(Fail::new("roundtrip/parse-error", format!("honest proof does not parse back: {e}"))),
        Err(p) => return Err(Fail::new(format!("roundtrip/{}", p.key()), format!("parsing an honest proof panicked: {}", p.msg))),
    };
    ensure!(back == proof, "roundtrip/not-equal", "parsed proof differs from the original");
    match verify_with::<B, H, DefaultRandomCoin<H>>(back, &desc, &min_sec0()) {
        VerifyOutcome::Ok => Ok(()),
        VerifyOutcome::Err(e) => Err(Fail::new("roundtrip/rejected", format!("proof rejected after serialization round trip: {e}"))),
        VerifyOutcome::Panic(p) => Err(Fail::new(format!("roundtrip-verify/{}", p.key()), format!("verifier panicked after round trip: {}", p.msg))),
    }
}

pub fn run(run: &mut Run) {
    run.assume("a random out-of-domain point hitting a root of a non-zero polynomial of degree < 2^20 (probability < 2^-40) is assumed away");
    run.assume("runs in which the coin exhausts its 1000 rejection-sampling attempts (cubic extension of f62) are outside the claim and counted under the label outside-claim:coin-exhaustion");
    let tier = run.tier;
    run.sub(&Complete { tier });
    run.sub(&HighGrinding { tier });
}
