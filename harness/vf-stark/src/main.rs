fn main() {
    let args = vf_core::parse_args();
    let mut run = vf_core::Run::new(&args, "exploration");
    match args.property.as_str() {
        other => {
            eprintln!("vf-stark does not serve {other} yet (planned: C01 C02 C03 C04 C06 C17)");
            std::process::exit(2);
        },
    }
    #[allow(unreachable_code)]
    run.finish_and_exit();
}
