mod c01;
mod c02;
mod c03;
mod dissect;
mod c04;
mod c06;
mod c17;
mod coin;
mod common;
mod desc;
mod gen;
mod genair;
mod inst;

#[global_allocator]
static ALLOC: vf_core::crash::GuardAlloc = vf_core::crash::GuardAlloc;

fn main() {
    let args = vf_core::parse_args();
    let level = match args.property.as_str() {
        "C02" | "C03" | "C06" => "fault_enumeration",
        _ => "exploration",
    };
    let mut run = vf_core::Run::new(&args, level);
    match args.property.as_str() {
        "C01" => c01::run(&mut run),
        "C02" => c02::run(&mut run),
        "C03" => c03::run(&mut run),
        "C04" => c04::run(&mut run),
        "C06" => c06::run(&mut run),
        "C17" => c17::run(&mut run),
        other => {
            eprintln!("vf-stark does not serve {other} yet");
            std::process::exit(2);
        },
    }
    run.finish_and_exit();
}
