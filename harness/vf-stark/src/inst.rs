//! Static dispatch from run-time (field, hasher) selectors to the generic instantiations.

pub use vf_repo::{B128, B62, B64, FA};
pub use winter_crypto::hashers::{Blake3_192, Blake3_256, Rp62_248, Rp64_256, RpJive64_256, Sha3_256};
pub use winter_crypto::{DefaultRandomCoin, ElementHasher, RandomCoin};

pub const FIELD_NAMES: [&str; 3] = ["f62", "f64", "f128"];
pub const HASHER_NAMES: [&str; 5] = ["blake3_256", "blake3_192", "sha3_256", "rescue", "rescue-jive"];

/// normalises an inadmissible (field, hasher) pair to an admissible one (replay files may carry any)
pub fn admissible(field: u8, hasher: u8) -> (u8, u8) {
    let field = field % 3;
    let hasher = match (field, hasher % 5) {
        (2, 3) | (2, 4) => 0,
        (0, 4) => 3,
        (_, h) => h,
    };
    (field, hasher)
}

/// `dispatch!(field, hasher, func, args...)` calls `func::<B, H>(args...)` for the selected pair
#[macro_export]
macro_rules! dispatch {
    ($field:expr, $hasher:expr, $f:ident $(, $args:expr)*) => {{
        use $crate::inst::*;
        match $crate::inst::admissible($field, $hasher) {
            (0, 0) => $f::<B62, Blake3_256<B62>>($($args),*),
            (0, 1) => $f::<B62, Blake3_192<B62>>($($args),*),
            (0, 2) => $f::<B62, Sha3_256<B62>>($($args),*),
            (0, _) => $f::<B62, Rp62_248>($($args),*),
            (1, 0) => $f::<B64, Blake3_256<B64>>($($args),*),
            (1, 1) => $f::<B64, Blake3_192<B64>>($($args),*),
            (1, 2) => $f::<B64, Sha3_256<B64>>($($args),*),
            (1, 3) => $f::<B64, Rp64_256>($($args),*),
            (1, _) => $f::<B64, RpJive64_256>($($args),*),
            (_, 0) => $f::<B128, Blake3_256<B128>>($($args),*),
            (_, 1) => $f::<B128, Blake3_192<B128>>($($args),*),
            (_, _) => $f::<B128, Sha3_256<B128>>($($args),*),
        }
    }};
}
