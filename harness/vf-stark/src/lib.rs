//! vf-stark: the GenAir family and the STARK-level checks (C01 C02 C03 C04 C06 C17).
pub mod c01;
pub mod c02;
pub mod c03;
pub mod dissect;
pub mod fuzzcfg;
pub mod c04;
pub mod c06;
pub mod c17;
pub mod coin;
pub mod common;
pub mod desc;
pub mod gen;
pub mod genair;
pub mod inst;

pub fn main_entry() {
    let a: Vec<String> = std::env::args().collect();
    if a.len() >= 3 && a[1] == "--emit-corpus" {
        let n = fuzzcfg::emit_corpus(&a[2]);
        println!("wrote {n} seed inputs to {}", a[2]);
        return;
    }
    let args = vf_core::parse_args();
    let level = match args.property.as_str() {
        "C02" | "C03" | "C06" => "fault_enumeration",
        _ => "exploration",
    };
    let mut run = vf_core::Run::new(&args, level);
    match args.property.as_str() {
        "C01" => c01::run(&mut run),
        "C02" => c02::run(&mut run),
        "C03" => c03::run(&mut run),
        "C04" => c04::run(&mut run),
        "C06" => c06::run(&mut run),
        "C17" => c17::run(&mut run),
        other => {
            eprintln!("vf-stark does not serve {other} yet");
            std::process::exit(2);
        },
    }
    run.finish_and_exit();
}
