//! C06 — untrusted input: parsing arbitrary bytes as a proof and verifying any parsed proof against
//! any public inputs returns Ok or Err; it never panics, aborts, overflows, or asks for memory out of
//! proportion to the input.
//!
//! Oracle: `catch_unwind` around parse and verify (profile has overflow checks on), a measuring
//! allocator (largest single request must stay below max(16 MiB, 4096 x input length)), fatal-signal
//! and absurd-allocation containment, watchdog for non-termination.

use std::sync::Arc;

use proptest::prelude::*;
use serde::{Deserialize, Serialize};
use vf_core::{crash, CheckResult, Fail, Obs, Run, SubCheck, Tier};
use vf_repo::FA;
use winter_air::proof::Proof;
use winter_crypto::{DefaultRandomCoin, ElementHasher};
use winter_verifier::AcceptableOptions;

use crate::c03::{baseline, Baseline};
use crate::common::*;
use crate::desc::Desc;
use crate::dissect::{apply, dissect, mutation_strategy, Kind, Mutation};
use crate::gen::*;

fn variant(dbg: &str) -> String {
    dbg.split(|c: char| !c.is_alphanumeric()).next().unwrap_or("").to_string()
}

/// the C06 oracle for one byte string
pub fn hostile<B: FA, H: ElementHasher<BaseField = B>>(bytes: &[u8], descs: &[Arc<Desc>], obs: &mut Obs) -> CheckResult {
    crash::guard_begin();
    let r = (|| -> CheckResult {
        // the same bytes through the streaming reader (Proof::read_from over a ReadAdapter): no panic either;
        // its memory requests are measured together with everything else in this function
        {
            use winter_utils::{Deserializable, ReadAdapter};
            let mut src: &[u8] = bytes;
            if let Err(p) = vf_core::catch(|| {
                let mut adapter = ReadAdapter::new(&mut src);
                Proof::read_from(&mut adapter).is_ok()
            }) {
                return Err(Fail::new(format!("parse-stream/{}", p.key()), format!("Proof::read_from over a ReadAdapter panicked: {} at {}:{}", p.msg, p.file, p.line)));
            }
        }
        let parsed = match vf_core::catch(|| Proof::from_bytes(bytes)) {
            Err(p) => return Err(Fail::new(format!("parse/{}", p.key()), format!("Proof::from_bytes panicked: {} at {}:{}", p.msg, p.file, p.line))),
            Ok(Err(_)) => {
                obs.label("stage=parse-error");
                return Ok(());
            },
            Ok(Ok(p)) => p,
        };
        obs.nontrivial();
        // the verifier's acceptance policy is evaluated on the options the bytes claim before anything else:
        // every kind of policy takes part (chosen by the input itself, so that a replay is a function of the bytes)
        let pick = bytes.iter().fold(0u32, |a, b| a.wrapping_mul(31).wrapping_add(*b as u32));
        let policies = [
            min_sec0(),
            AcceptableOptions::MinProvenSecurity(0),
            AcceptableOptions::MinProvenSecurity(10 + pick % 120),
            AcceptableOptions::MinConjecturedSecurity(10 + pick % 120),
            AcceptableOptions::OptionSet(vec![parsed.options().clone()]),
            AcceptableOptions::OptionSet(vec![]),
        ];
        let policy = &policies[(pick / 7) as usize % policies.len()];
        obs.label(format!("policy={}", match policy {
            AcceptableOptions::MinConjecturedSecurity(0) => "conjectured>=0",
            AcceptableOptions::MinConjecturedSecurity(_) => "conjectured>=k",
            AcceptableOptions::MinProvenSecurity(0) => "proven>=0",
            AcceptableOptions::MinProvenSecurity(_) => "proven>=k",
            AcceptableOptions::OptionSet(v) if v.is_empty() => "empty-set",
            AcceptableOptions::OptionSet(_) => "own-options",
        }));
        for (di, d) in descs.iter().enumerate() {
            match verify_with::<B, H, DefaultRandomCoin<H>>(parsed.clone(), d, if di == 0 { policy } else { &policies[0] }) {
                VerifyOutcome::Ok => obs.label("stage=accepted"),
                VerifyOutcome::Err(e) => obs.label(format!("stage=verify-error:{}", variant(&format!("{e:?}")))),
                VerifyOutcome::Panic(p) => {
                    return Err(Fail::new(format!("verify/{}", p.key()), format!("verify panicked: {} at {}:{}", p.msg, p.file, p.line)));
                },
            }
        }
        Ok(())
    })();
    let max_req = crash::guard_end();
    r?;
    let allowed = (16usize << 20).max(4096 * bytes.len());
    if max_req > allowed {
        return Err(Fail::new("alloc/out-of-proportion", format!("a single allocation of {max_req} bytes was requested for an input of {} bytes", bytes.len())));
    }
    Ok(())
}

// STRUCTURE-AWARE MUTANTS OF HONEST PROOFS
// ================================================================================================

#[derive(Serialize, Deserialize, Clone, Debug)]
pub struct HCase {
    pub shape: Shape,
    /// chains of 1..3 mutations applied on top of each other (re-dissected between steps)
    pub chains: Vec<Vec<Mutation>>,
    /// verify also against the statement of this other shape ("any public inputs")
    pub other: Option<Box<Shape>>,
}

pub struct Mutants {
    pub tier: Tier,
}

fn mutants_one<B: FA, H: ElementHasher<BaseField = B> + Send + Sync>(c: &HCase, tier: Tier, obs: &mut Obs) -> CheckResult {
    let budget = tier.pick(1 << 14, 1 << 17);
    let Some(base) = baseline::<B, H>(&c.shape, budget)? else {
        obs.label("no-baseline");
        return Ok(());
    };
    let mut descs = vec![base.desc.clone()];
    if let Some(o) = &c.other {
        descs.push(Arc::new(realize::<B>(o, budget).desc));
    }
    for chain in &c.chains {
        let mut bytes = base.bytes.clone();
        let mut fields = base.fields.clone();
        let mut what = String::new();
        for m in chain {
            let (b, w) = apply(&bytes, &fields, m);
            bytes = b;
            what = w;
            match dissect(&bytes) {
                Some(f) => fields = f,
                None => break,
            }
        }
        obs.label(format!("last-mut={}", what.split('@').next().unwrap_or("")));
        hostile::<B, H>(&bytes, &descs, obs)?;
    }
    Ok(())
}

impl SubCheck for Mutants {
    type Case = HCase;
    fn name(&self) -> String {
        "mutants".into()
    }
    fn cases(&self, tier: Tier) -> u64 {
        tier.pick(2_000, 60_000)
    }
    fn watchdog_secs(&self) -> u64 {
        120
    }
    fn crash_guard(&self) -> bool {
        true
    }
    fn shrink_iters(&self) -> usize {
        60
    }
    fn rule(&self) -> String {
        "honest proofs of generated GenAir instances (12 field/hasher pairs, extensions, aux / Lagrange) hit by 8 chains of 1..3 structure-aware mutations each (every length/count/size field to 0/1/max-1/max/+-1/*2/random, byte substitutions, bit flips, data edits, truncation/extension with and without prefix fix-up, cuts, trailing garbage), verified against their own statement and against another generated statement; non-trivial = the bytes parsed (got past deserialization) and reached the verifier".into()
    }
    fn strategy(&self, tier: Tier) -> BoxedStrategy<HCase> {
        let p = GenParams { max_log_n: tier.pick(5, 7), max_grinding: 2, fixed: None, allow_aux: true, allow_degenerate: false };
        let p2 = GenParams { max_log_n: 5, max_grinding: 0, fixed: None, allow_aux: true, allow_degenerate: false };
        (
            shape_strategy(&p),
            prop::collection::vec(prop::collection::vec(mutation_strategy(), 1..=3), 8),
            prop::option::weighted(0.3, shape_strategy(&p2).prop_map(Box::new)),
        )
            .prop_map(|(shape, chains, other)| HCase { shape, chains, other })
            .boxed()
    }
    fn check(&self, c: &HCase, obs: &mut Obs) -> CheckResult {
        let tier = self.tier;
        crate::dispatch!(c.shape.field, c.shape.hasher, mutants_one, c, tier, obs)
    }
}

// SPLICED PROOFS: STRUCTURALLY VALID, COMPONENTS FROM DIFFERENT PROOFS
// ================================================================================================

#[derive(Serialize, Deserialize, Clone, Debug)]
pub struct SpliceCase {
    pub a: Shape,
    pub b: Shape,
    /// which top-level components of A are replaced by B's
    pub mask: u16,
}

pub struct Splice {
    pub tier: Tier,
}

const COMPONENTS: [&str; 9] = ["context", "num_unique_queries", "commitments", "trace_queries", "constraint_queries", "ood", "fri", "pow_nonce", "gkr"];

fn component_ranges(base: &Baseline) -> Vec<(usize, usize)> {
    // byte range of every top-level component, from the dissected fields
    COMPONENTS
        .iter()
        .map(|c| {
            let fs: Vec<_> = base.fields.iter().filter(|f| f.path.starts_with(c)).collect();
            match (fs.first(), fs.last()) {
                (Some(a), Some(b)) => (a.off, b.off + b.len),
                _ => (0, 0),
            }
        })
        .collect()
}

fn splice_one<B: FA, H: ElementHasher<BaseField = B> + Send + Sync>(c: &SpliceCase, tier: Tier, obs: &mut Obs) -> CheckResult {
    let budget = tier.pick(1 << 14, 1 << 17);
    let mut sb = c.b.clone();
    // same field and hasher, so that B's components are well-formed for A's verifier instantiation
    sb.field = c.a.field;
    sb.hasher = c.a.hasher;
    let (Some(a), Some(b)) = (baseline::<B, H>(&c.a, budget)?, baseline::<B, H>(&sb, budget)?) else {
        obs.label("no-baseline");
        return Ok(());
    };
    let (ra, rb) = (component_ranges(&a), component_ranges(&b));
    let mut out = vec![];
    for i in 0..COMPONENTS.len() {
        let from_b = (c.mask >> i) & 1 == 1;
        let (src, (s, e)) = if from_b { (&b.bytes, rb[i]) } else { (&a.bytes, ra[i]) };
        out.extend_from_slice(&src[s..e]);
        if from_b {
            obs.label(format!("from-b:{}", COMPONENTS[i]));
        }
    }
    hostile::<B, H>(&out, &[a.desc.clone(), b.desc.clone()], obs)
}

impl SubCheck for Splice {
    type Case = SpliceCase;
    fn name(&self) -> String {
        "splice".into()
    }
    fn cases(&self, tier: Tier) -> u64 {
        tier.pick(1_200, 30_000)
    }
    fn watchdog_secs(&self) -> u64 {
        120
    }
    fn crash_guard(&self) -> bool {
        true
    }
    fn shrink_iters(&self) -> usize {
        60
    }
    fn rule(&self) -> String {
        "structurally valid proofs with inconsistent components: every top-level component (context, query count, commitments, trace queries, constraint queries, OOD frame, FRI proof, nonce, GKR proof) taken either from proof A or from proof B of a different generated computation over the same field and hasher, verified against both statements; non-trivial = the spliced bytes parsed".into()
    }
    fn strategy(&self, tier: Tier) -> BoxedStrategy<SpliceCase> {
        let p = GenParams { max_log_n: tier.pick(5, 7), max_grinding: 2, fixed: None, allow_aux: true, allow_degenerate: false };
        (shape_strategy(&p), shape_strategy(&p), 1u16..511).prop_map(|(a, b, mask)| SpliceCase { a, b, mask }).boxed()
    }
    fn check(&self, c: &SpliceCase, obs: &mut Obs) -> CheckResult {
        let tier = self.tier;
        crate::dispatch!(c.a.field, c.a.hasher, splice_one, c, tier, obs)
    }
}

// ARBITRARY BYTES
// ================================================================================================

#[derive(Serialize, Deserialize, Clone, Debug)]
pub struct RawCase {
    pub field: u8,
    pub hasher: u8,
    pub shape: Shape,
    /// hex of the bytes that follow the (valid) context prefix, or the whole input if `keep_context` is false
    pub tail: Vec<u8>,
    pub keep_context: bool,
}

pub struct Raw {
    pub tier: Tier,
}

fn raw_one<B: FA, H: ElementHasher<BaseField = B> + Send + Sync>(c: &RawCase, obs: &mut Obs) -> CheckResult {
    let inst = realize::<B>(&c.shape, 1 << 12);
    let desc = Arc::new(inst.desc.clone());
    let mut bytes = vec![];
    if c.keep_context {
        // a valid context for this statement, followed by arbitrary bytes
        let options = make_options(&inst.opts)?;
        let t = crate::genair::GenTrace::<B>::new(&desc, &inst.trace);
        let ctx = winter_air::proof::Context::new::<B>(t.info.clone(), options);
        use winter_utils::Serializable;
        bytes.extend(ctx.to_bytes());
        obs.label("prefix=valid-context");
    } else {
        obs.label("prefix=none");
    }
    bytes.extend(&c.tail);
    hostile::<B, H>(&bytes, &[desc], obs)
}

impl SubCheck for Raw {
    type Case = RawCase;
    fn name(&self) -> String {
        "raw-bytes".into()
    }
    fn cases(&self, tier: Tier) -> u64 {
        tier.pick(40_000, 2_000_000)
    }
    fn watchdog_secs(&self) -> u64 {
        60
    }
    fn crash_guard(&self) -> bool {
        true
    }
    fn rule(&self) -> String {
        "arbitrary byte strings of 0..600 bytes (uniform bytes, runs of 0x00/0xff, small length-prefix-like values), alone or after a valid serialized context of a generated statement; non-trivial = the bytes parsed as a proof (rare by construction; the near-valid space is covered by the other sub-checks)".into()
    }
    fn strategy(&self, _tier: Tier) -> BoxedStrategy<RawCase> {
        let p = GenParams { max_log_n: 4, max_grinding: 0, fixed: None, allow_aux: true, allow_degenerate: false };
        let byte = prop_oneof![4 => any::<u8>(), 2 => Just(0u8), 1 => Just(0xffu8), 2 => 0u8..4];
        (shape_strategy(&p), prop::collection::vec(byte, 0..600), any::<bool>())
            .prop_map(|(mut shape, tail, keep_context)| {
                shape.rules.truncate(3);
                RawCase { field: shape.field, hasher: shape.hasher, shape, tail, keep_context }
            })
            .boxed()
    }
    fn check(&self, c: &RawCase, obs: &mut Obs) -> CheckResult {
        crate::dispatch!(c.field, c.hasher, raw_one, c, obs)
    }
}

// EXHAUSTIVE NEAR-VALID SPACE OF SMALL PROOFS
// ================================================================================================

#[derive(Serialize, Deserialize, Clone, Debug)]
pub enum NearKind {
    /// cut at this offset
    Truncate(usize),
    /// substitute the byte at this offset
    Byte(usize, u8),
    /// set length / count / scalar field number `idx` by mode 0..7
    FieldMode(usize, u8),
    /// flip this bit
    Bit(usize),
    /// the proof re-encoded for another field extension degree: the extension byte of the context is set and
    /// every extension-field element of every component is widened with zero coefficients (or narrowed),
    /// with all length prefixes fixed up, so that the result is structurally valid for the claimed extension
    Reextend(u8),
    /// another (valid) FRI option set in the context: folding factor 2^f, remainder degree 2^r - 1, with the
    /// number of FRI layers and of FRI commitments adjusted to what the new schedule prescribes (by
    /// repeating / dropping layers), so that the proof stays structurally consistent
    Schedule(u8, u8),
    /// the proof re-packaged for another number of unique queries: the count is raised (or lowered) by `delta`
    /// and every query table (trace segments, constraint evaluations) gets that many copies of its last row
    /// appended (or loses that many rows), length prefixes fixed up; the openings are left as they are
    Requery(i8),
    /// set the one-byte length / count / scalar field number `idx` to this value (every value is enumerated)
    FieldSet(usize, u8),
}

#[derive(Serialize, Deserialize, Clone, Debug)]
pub struct NearCase {
    pub shape: Shape,
    pub kind: NearKind,
}

fn near_one<B: FA, H: ElementHasher<BaseField = B> + Send + Sync>(c: &NearCase, obs: &mut Obs) -> CheckResult {
    let Some(base) = crate::c03::cached_baseline::<B, H>(&c.shape, 1 << 13)? else {
        obs.label("no-baseline");
        return Ok(());
    };
    let bytes = match &c.kind {
        NearKind::Truncate(off) => {
            obs.label("near=truncate");
            base.bytes[..(*off).min(base.bytes.len())].to_vec()
        },
        NearKind::Byte(off, v) => {
            obs.label("near=byte");
            let mut b = base.bytes.clone();
            if *off < b.len() {
                b[*off] = *v;
            }
            b
        },
        NearKind::Bit(bit) => {
            obs.label("near=bit");
            apply(&base.bytes, &base.fields, &Mutation::FlipBit { bit: *bit }).0
        },
        NearKind::Reextend(deg) => {
            obs.label("near=re-extend");
            match reextend::<B>(&base, *deg) {
                Some(b) => b,
                None => return Ok(()),
            }
        },
        NearKind::Schedule(f, r) => {
            obs.label("near=schedule");
            match reschedule(&base, *f, *r) {
                Some(b) => b,
                None => return Ok(()),
            }
        },
        NearKind::Requery(delta) => {
            obs.label("near=requery");
            match requery(&base, *delta) {
                Some(b) => b,
                None => return Ok(()),
            }
        },
        NearKind::FieldSet(idx, v) => {
            obs.label("near=field-byte");
            let cands: Vec<_> = base.fields.iter().filter(|f| f.kind != Kind::Data && f.len == 1).collect();
            let Some(f) = cands.get(*idx) else { return Ok(()) };
            let mut b = base.bytes.clone();
            b[f.off] = *v;
            b
        },
        NearKind::FieldMode(idx, mode) => {
            obs.label("near=field");
            let cands: Vec<_> = base.fields.iter().filter(|f| f.kind != Kind::Data && f.len <= 9).collect();
            if *idx >= cands.len() {
                return Ok(());
            }
            // selector mapping onto field idx
            let n = cands.len() as u32;
            let sel = (((*idx as u32) << 16) / n + (1 << 16) / (2 * n)) as u16;
            apply(&base.bytes, &base.fields, &Mutation::FieldValue { field_sel: sel, mode: *mode, rnd: 0x0123_4567_89ab_cdef }).0
        },
    };
    hostile::<B, H>(&bytes, &[base.desc.clone()], obs)
}

/// re-encodes the proof for another extension degree (see NearKind::Reextend)
fn reextend<B: FA>(base: &Baseline, new_deg: u8) -> Option<Vec<u8>> {
    let d0 = base.opts.ext as usize;
    let d1 = new_deg.clamp(1, 3) as usize;
    if d0 == d1 {
        return None;
    }
    let eb = B::FP.elem_bytes;
    let is_target = |path: &str| -> bool {
        path == "trace_queries[1].values"
            || path == "constraint_queries.values"
            || path == "ood.trace_states"
            || path == "ood.lagrange"
            || path == "ood.evaluations"
            || path == "fri.remainder"
            || (path.starts_with("fri.layer[") && path.ends_with(".values"))
    };
    let recode = |bytes: &[u8]| -> Vec<u8> {
        let mut out = Vec::with_capacity(bytes.len() / d0 * d1);
        for el in bytes.chunks(eb * d0) {
            if el.len() != eb * d0 {
                out.extend_from_slice(el);
                continue;
            }
            for k in 0..d1 {
                if k < d0 {
                    out.extend_from_slice(&el[k * eb..(k + 1) * eb]);
                } else {
                    out.extend(std::iter::repeat(0u8).take(eb));
                }
            }
        }
        out
    };
    let mut out = vec![];
    for f in &base.fields {
        let bytes = &base.bytes[f.off..f.off + f.len];
        if f.path == "context.options.extension" {
            out.push(d1 as u8);
        } else if let Some(target) = f.path.strip_suffix(".len").filter(|t| is_target(t)) {
            let data = base.fields.iter().find(|x| x.path == target && x.kind == Kind::Data)?;
            let hdr = base.fields.iter().any(|x| x.path == format!("{target}.frame_size")) as usize;
            let new_len = (recode(&base.bytes[data.off..data.off + data.len]).len() + hdr) as u64;
            out.extend_from_slice(&new_len.to_le_bytes()[..f.len]);
        } else if is_target(&f.path) && f.kind == Kind::Data {
            out.extend(recode(bytes));
        } else {
            out.extend_from_slice(bytes);
        }
    }
    Some(out)
}

/// re-packages the proof for another number of unique queries (see NearKind::Requery)
fn requery(base: &Baseline, delta: i8) -> Option<Vec<u8>> {
    let uq = base.fields.iter().find(|f| f.path == "num_unique_queries")?;
    let old = base.bytes[uq.off] as i32;
    let new = old + delta as i32;
    if old == 0 || new < 0 || new > 255 || delta == 0 {
        return None;
    }
    let is_table = |path: &str| path == "constraint_queries.values" || (path.starts_with("trace_queries[") && path.ends_with(".values"));
    let resize = |bytes: &[u8]| -> Vec<u8> {
        let row = bytes.len() / old as usize;
        let mut out = bytes.to_vec();
        if delta > 0 {
            let last = bytes[bytes.len() - row..].to_vec();
            for _ in 0..delta {
                out.extend_from_slice(&last);
            }
        } else {
            out.truncate(row * new as usize);
        }
        out
    };
    let mut out = vec![];
    for f in &base.fields {
        let bytes = &base.bytes[f.off..f.off + f.len];
        if f.path == "num_unique_queries" {
            out.push(new as u8);
        } else if let Some(target) = f.path.strip_suffix(".len").filter(|t| is_table(t)) {
            let data = base.fields.iter().find(|x| x.path == target && x.kind == Kind::Data)?;
            let new_len = resize(&base.bytes[data.off..data.off + data.len]).len() as u64;
            out.extend_from_slice(&new_len.to_le_bytes()[..f.len]);
        } else if is_table(&f.path) && f.kind == Kind::Data {
            out.extend(resize(bytes));
        } else {
            out.extend_from_slice(bytes);
        }
    }
    Some(out)
}

/// rewrites the proof for another FRI schedule (see NearKind::Schedule)
fn reschedule(base: &Baseline, f: u8, r: u8) -> Option<Vec<u8>> {
    let field = |name: &str| base.fields.iter().find(|x| x.path == name);
    let o = &base.opts;
    let lde = base.desc.n() * o.blowup;
    let folding = 1usize << f.clamp(1, 4);
    let rem_deg = (1usize << r.min(8)) - 1;
    let old_layers = fri_schedule(lde, o.blowup, o.folding, o.rem_deg).0;
    // documented layer count of the new schedule (may be ill-formed for this domain: that is the point)
    let new_layers = {
        let max_rem = (rem_deg + 1) * o.blowup;
        let (mut d, mut l) = (lde, 0usize);
        while d > max_rem {
            d /= folding;
            l += 1;
        }
        l
    };
    if new_layers > 40 {
        return None;
    }
    let segs = if base.desc.aux.is_some() { 2 } else { 1 };
    let com = field("commitments")?;
    let digest = com.len / (segs + 2 + old_layers);
    if digest == 0 || digest * (segs + 2 + old_layers) != com.len {
        return None;
    }
    let cb = &base.bytes[com.off..com.off + com.len];
    let mut new_com: Vec<u8> = cb[..digest * (segs + 1)].to_vec();
    let fri_roots: Vec<&[u8]> = (0..old_layers + 1).map(|i| &cb[digest * (segs + 1 + i)..digest * (segs + 2 + i)]).collect();
    for i in 0..new_layers {
        new_com.extend_from_slice(fri_roots[i.min(old_layers.saturating_sub(1)).min(fri_roots.len() - 1)]);
    }
    new_com.extend_from_slice(fri_roots[old_layers]);
    // layers: byte ranges of the serialized FriProofLayers
    let layer_range = |i: usize| -> Option<(usize, usize)> {
        let a = field(&format!("fri.layer[{i}].values.len"))?;
        let b = field(&format!("fri.layer[{i}].paths"))?;
        Some((a.off, b.off + b.len))
    };
    let mut layers: Vec<Vec<u8>> = vec![];
    for i in 0..new_layers {
        if old_layers == 0 {
            // nothing to repeat: a minimal layer with one value byte block
            layers.push(vec![8, 0, 0, 0, 1, 2, 3, 4, 5, 6, 7, 8, 0, 0, 0, 0]);
        } else {
            let (a, b) = layer_range(i.min(old_layers - 1))?;
            layers.push(base.bytes[a..b].to_vec());
        }
    }
    let nl = field("fri.num_layers")?;
    let rem_len = field("fri.remainder.len")?;
    let cl = field("commitments.len")?;
    let ff = field("context.options.fri_folding")?;
    let fr = field("context.options.fri_remainder_degree")?;
    let mut out = base.bytes[..cl.off].to_vec();
    out[ff.off] = folding as u8;
    out[fr.off] = rem_deg as u8;
    out.extend((new_com.len() as u16).to_le_bytes());
    out.extend(new_com);
    out.extend_from_slice(&base.bytes[com.off + com.len..nl.off]);
    out.push(new_layers as u8);
    for l in layers {
        out.extend(l);
    }
    out.extend_from_slice(&base.bytes[rem_len.off..]);
    Some(out)
}

pub fn run(run: &mut Run) {
    run.assume("a panic raised by the harness' own Air implementation would be a harness bug: GenAir::new is total (falls back to a fixed AIR of the given shape when the proof's trace shape does not match the statement)");
    run.assume("allocation oracle: largest single request during parse + verify must not exceed max(16 MiB, 4096 x input length)");
    let tier = run.tier;
    run.crash_guard = true;
    // exhaustive near-valid space of a basket of small proofs
    let shapes = crate::c03::basket(tier.pick(3, 8), run.seed ^ 0x06);
    let mut cases = vec![];
    for s in &shapes {
        let mut o = Obs::default();
        let probe = NearCase { shape: s.clone(), kind: NearKind::Truncate(0) };
        let _ = crate::dispatch!(s.field, s.hasher, near_one, &probe, &mut o);
        let info: Option<(usize, usize)> = {
            let mut r = None;
            let probe2 = crate::c03::FlipCase { shape: s.clone(), bit: usize::MAX };
            let _ = probe2;
            if let Ok(Some(b)) = crate::dispatch!(s.field, s.hasher, base_info, s) {
                r = Some(b);
            }
            r
        };
        let Some((len, nfields)) = info else { continue };
        if len > tier.pick(5 * 1024, 10 * 1024) {
            continue;
        }
        for off in 0..=len {
            cases.push(NearCase { shape: s.clone(), kind: NearKind::Truncate(off) });
        }
        for off in 0..len {
            for v in [0x00u8, 0x01, 0x7f, 0x80, 0xff] {
                cases.push(NearCase { shape: s.clone(), kind: NearKind::Byte(off, v) });
            }
        }
        for idx in 0..nfields {
            for mode in 0..8u8 {
                cases.push(NearCase { shape: s.clone(), kind: NearKind::FieldMode(idx, mode) });
            }
        }
        for deg in 1..=3u8 {
            cases.push(NearCase { shape: s.clone(), kind: NearKind::Reextend(deg) });
        }
        for f in 1..=4u8 {
            for r in 0..=8u8 {
                cases.push(NearCase { shape: s.clone(), kind: NearKind::Schedule(f, r) });
            }
        }
        // every value of every one-byte field
        let nbyte_fields = crate::dispatch!(s.field, s.hasher, byte_fields, s).ok().flatten().unwrap_or(0);
        for idx in 0..nbyte_fields {
            for v in 0..=255u8 {
                cases.push(NearCase { shape: s.clone(), kind: NearKind::FieldSet(idx, v) });
            }
        }
        // re-packaged query counts, for the proof as it is and for the same computation proven with a single query
        let mut s1 = s.clone();
        s1.opts.queries = 1;
        for delta in [1i8, 2, 3, -1] {
            cases.push(NearCase { shape: s.clone(), kind: NearKind::Requery(delta) });
            cases.push(NearCase { shape: s1.clone(), kind: NearKind::Requery(delta) });
        }
        if tier == Tier::Thorough {
            for bit in 0..len * 8 {
                cases.push(NearCase { shape: s.clone(), kind: NearKind::Bit(bit) });
            }
        }
    }
    run.enumerate(
        "near-valid-exhaustive",
        "for a basket of small honest proofs (three fields, with and without auxiliary segment): truncation at every offset, every byte replaced by 0x00/0x01/0x7f/0x80/0xff, every length/count/size/scalar field set to 0/1/max-1/max/+1/-1/*2/a fixed pattern, every one-byte field set to every value 0..255, the proof re-encoded for every other field extension degree (all extension-field elements widened / narrowed, prefixes fixed), every other valid FRI option pair (folding 2..16 x remainder degree 0..255) written into the context with the layer and commitment counts adjusted to the new schedule, the proof (and the same computation proven with one query) re-packaged for 1..3 more / one fewer unique queries with rows appended to / removed from every query table (thorough: also every single-bit flip); non-trivial = the bytes parsed",
        true,
        cases.into_iter(),
        |c: &NearCase, obs: &mut Obs| crate::dispatch!(c.shape.field, c.shape.hasher, near_one, c, obs),
    );
    run.sub(&Mutants { tier });
    run.sub(&Splice { tier });
    run.sub(&Raw { tier });
}

fn byte_fields<B: FA, H: ElementHasher<BaseField = B> + Send + Sync>(s: &Shape) -> Result<Option<usize>, Fail> {
    Ok(crate::c03::cached_baseline::<B, H>(s, 1 << 13)?.map(|b| b.fields.iter().filter(|f| f.kind != Kind::Data && f.len == 1).count()))
}

fn base_info<B: FA, H: ElementHasher<BaseField = B> + Send + Sync>(s: &Shape) -> Result<Option<(usize, usize)>, Fail> {
    Ok(crate::c03::cached_baseline::<B, H>(s, 1 << 13)?.map(|b| (b.bytes.len(), b.fields.iter().filter(|f| f.kind != Kind::Data && f.len <= 9).count())))
}
