//! Support for the coverage-guided byte fuzzer (/verif/fuzz, target `proof_bytes`): a fixed table of
//! verifier instantiations (statements of small generated GenAir instances), the in-target oracle,
//! and the emitter of the seed corpus (honest proofs, generated at run time).
//!
//! Input layout: byte 0 selects the configuration, the rest is fed to Proof::from_bytes and verify.

use std::sync::{Arc, OnceLock};

use vf_core::Obs;
use vf_repo::FA;
use winter_crypto::ElementHasher;

use crate::c03::{basket, baseline};
use crate::desc::Desc;
use crate::gen::{realize, Shape};

pub struct FuzzConfig {
    pub shape: Shape,
}

pub fn configs() -> &'static Vec<FuzzConfig> {
    static C: OnceLock<Vec<FuzzConfig>> = OnceLock::new();
    C.get_or_init(|| basket(10, 0xF022).into_iter().map(|shape| FuzzConfig { shape }).collect())
}

fn desc_of<B: FA, H: ElementHasher<BaseField = B> + Send + Sync>(shape: &Shape) -> Arc<Desc> {
    Arc::new(realize::<B>(shape, 1 << 13).desc)
}

fn descs() -> &'static Vec<Arc<Desc>> {
    static D: OnceLock<Vec<Arc<Desc>>> = OnceLock::new();
    D.get_or_init(|| {
        configs()
            .iter()
            .map(|c| {
                let s = &c.shape;
                crate::dispatch!(s.field, s.hasher, desc_of, s)
            })
            .collect()
    })
}

fn hostile_cfg<B: FA, H: ElementHasher<BaseField = B> + Send + Sync>(bytes: &[u8], desc: &Arc<Desc>) -> Result<(), vf_core::Fail> {
    let mut obs = Obs::default();
    crate::c06::hostile::<B, H>(bytes, &[desc.clone()], &mut obs)
}

/// the in-target oracle: Err(failure key + message) for anything that is not a clean Ok/Err answer
pub fn fuzz_one(data: &[u8]) -> Result<(), vf_core::Fail> {
    if data.is_empty() {
        return Ok(());
    }
    let i = data[0] as usize % configs().len();
    let s = &configs()[i].shape;
    let d = &descs()[i];
    crate::dispatch!(s.field, s.hasher, hostile_cfg, &data[1..], d)
}

fn honest<B: FA, H: ElementHasher<BaseField = B> + Send + Sync>(shape: &Shape) -> Option<Vec<u8>> {
    baseline::<B, H>(shape, 1 << 13).ok().flatten().map(|b| b.bytes)
}

/// writes one honest proof per configuration (prefixed by its selector byte) into `dir`
pub fn emit_corpus(dir: &str) -> usize {
    let _ = std::fs::create_dir_all(dir);
    let mut n = 0;
    for (i, c) in configs().iter().enumerate() {
        let s = &c.shape;
        if let Some(bytes) = crate::dispatch!(s.field, s.hasher, honest, s) {
            let mut v = vec![i as u8];
            v.extend(bytes);
            if std::fs::write(format!("{dir}/honest-{i:02}.bin"), &v).is_ok() {
                n += 1;
            }
        }
    }
    n
}
