//! vf-serde: C12 (serialization round trip) and C13 (streaming reader = slice reader).
pub mod c12;
pub mod c13;
pub mod chunked;

pub fn main_entry() {
    let args = vf_core::parse_args();
    let level = "exploration";
    let mut run = vf_core::Run::new(&args, level);
    match args.property.as_str() {
        "C12" => c12::run(&mut run),
        "C13" => c13::run(&mut run),
        other => {
            eprintln!("vf-serde does not serve {other}");
            std::process::exit(2);
        },
    }
    run.finish_and_exit();
}

/// Decodes fuzzer bytes into a C13 case and runs the model comparison (used by /verif/fuzz `read_adapter`).
/// Layout: [n_chunks<=8][chunk sizes u16 LE...][n_ops<=48][ops: tag + 2-byte argument ...][stream bytes...]
pub fn fuzz_read_adapter(data: &[u8]) -> Result<(), vf_core::Fail> {
    use c13::{Op, Seq, SeqCase, Excl};
    use vf_core::SubCheck;
    let mut i = 0usize;
    let mut next = |n: usize| -> Option<&[u8]> {
        if i + n > data.len() {
            return None;
        }
        let s = &data[i..i + n];
        i += n;
        Some(s)
    };
    let Some(nc) = next(1).map(|b| (b[0] % 9) as usize) else { return Ok(()) };
    let mut chunks = vec![];
    for _ in 0..nc {
        let Some(b) = next(2) else { return Ok(()) };
        // zero-length chunks before EOF are outside the contract of std::io::Read
        chunks.push(u16::from_le_bytes([b[0], b[1]]).max(1));
    }
    let Some(no) = next(1).map(|b| (b[0] % 49) as usize) else { return Ok(()) };
    let mut ops = vec![];
    for _ in 0..no {
        let Some(b) = next(3) else { return Ok(()) };
        let arg = u16::from_le_bytes([b[1], b[2]]);
        ops.push(match b[0] % 17 {
            0 => Op::ReadU8,
            1 => Op::PeekU8,
            2 => Op::ReadBool,
            3 => Op::ReadU16,
            4 => Op::ReadU32,
            5 => Op::ReadU64,
            6 => Op::ReadU128,
            7 => Op::ReadUsize,
            8 => Op::ReadSlice((arg % 700) as u64),
            9 => Op::ReadArray([0u16, 1, 8, 16, 32, 300][(arg % 6) as usize]),
            10 => Op::ReadVec((arg % 700) as u64),
            11 => Op::ReadString(arg % 300),
            12 => Op::ManyU8(arg % 300),
            13 => Op::ManyU64(arg % 64),
            14 => Op::ManyPair(arg % 64),
            15 => Op::CheckEor((arg % 2100) as u64),
            _ => Op::HasMore,
        });
    }
    let rest = &data[i.min(data.len())..];
    let keep_going = rest.len() % 2 == 1;
    let case = SeqCase { data: vf_core::hex(&rest[..rest.len().min(2000)]), chunks, ops, keep_going };
    let mut obs = vf_core::Obs::default();
    Seq { huge: false, excl: Excl { slice: false, array: false }, long: false }.check(&case, &mut obs)
}
