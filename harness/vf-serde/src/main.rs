mod c12;
mod c13;
mod chunked;

fn main() {
    let args = vf_core::parse_args();
    let level = "exploration";
    let mut run = vf_core::Run::new(&args, level);
    match args.property.as_str() {
        "C12" => c12::run(&mut run),
        "C13" => c13::run(&mut run),
        other => {
            eprintln!("vf-serde does not serve {other}");
            std::process::exit(2);
        },
    }
    run.finish_and_exit();
}
