fn main() {
    vf_serde::main_entry();
}
