#[global_allocator]
static ALLOC: vf_core::crash::GuardAlloc = vf_core::crash::GuardAlloc;

fn main() {
    vf_serde::main_entry();
}
