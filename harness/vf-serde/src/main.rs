fn main() {
    let args = vf_core::parse_args();
    let mut run = vf_core::Run::new(&args, "exploration");
    match args.property.as_str() {
        other => {
            eprintln!("vf-serde does not serve {other} yet (planned: C12 C13)");
            std::process::exit(2);
        },
    }
    #[allow(unreachable_code)]
    run.finish_and_exit();
}
