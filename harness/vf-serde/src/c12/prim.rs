//! primitive values, std containers, field elements and digests

use std::collections::{BTreeMap, BTreeSet};

use proptest::prelude::*;
use serde::{Deserialize, Serialize};
use vf_core::{CheckResult, Fail, Obs, Run, Tier, X};
use vf_repo::prelude::*;
use winter_crypto::hashers::{Rp62_248, Rp64_256, RpJive64_256};
use winter_crypto::Hasher;
use winter_math::FieldElement;
use winter_utils::Serializable;

use super::{fill, fill_strategy, Ctx, Excl, Fill, Group, Rd, Rt};
use crate::c13::usize_boundaries;

// PRIMITIVES AND CONTAINERS
// ================================================================================================

#[derive(Serialize, Deserialize, Clone, Debug)]
pub enum Bytes {
    Lit(Vec<u8>),
    Fill(u32, Fill),
}
impl Bytes {
    pub fn get(&self) -> Vec<u8> {
        match self {
            Bytes::Lit(v) => v.clone(),
            Bytes::Fill(n, f) => fill(f, *n as usize),
        }
    }
    pub fn len(&self) -> usize {
        match self {
            Bytes::Lit(v) => v.len(),
            Bytes::Fill(n, _) => *n as usize,
        }
    }
}

/// collection lengths at the boundaries of the vint64 length prefix
pub const LEN_BOUNDS: [u32; 8] = [0, 1, 127, 128, 129, 16383, 16384, 16385];

pub fn bytes_strategy(max_big: u32) -> BoxedStrategy<Bytes> {
    prop_oneof![
        4 => prop::collection::vec(any::<u8>(), 0..40).prop_map(Bytes::Lit),
        3 => (prop::sample::select(LEN_BOUNDS.to_vec()), fill_strategy()).prop_map(|(n, f)| Bytes::Fill(n, f)),
        2 => (0u32..600, fill_strategy()).prop_map(|(n, f)| Bytes::Fill(n, f)),
        1 => (0u32..=max_big, fill_strategy()).prop_map(|(n, f)| Bytes::Fill(n, f)),
    ]
    .boxed()
}

#[derive(Serialize, Deserialize, Clone, Debug)]
pub enum PrimSpec {
    Unit,
    U8(u8),
    U16(u16),
    U32(u32),
    U64(u64),
    U128(X),
    Usize(u64),
    OptU8(Option<u8>),
    OptU64(Option<u64>),
    OptOptU16(Option<Option<u16>>),
    OptBytes(Option<Bytes>),
    OptStr(Option<String>),
    Str(String),
    StrAscii(u32, u8),
    VecU8(Bytes),
    VecU16(Vec<u16>),
    VecU64(Vec<u64>),
    VecU128(Vec<X>),
    VecUsize(Vec<u64>),
    VecStr(Vec<String>),
    VecVecU8(Vec<Vec<u8>>),
    VecOptU32(Vec<Option<u32>>),
    VecUnit(u32),
    MapU8U16(Vec<(u8, u16)>),
    MapU64Str(Vec<(u64, String)>),
    MapStrBytes(Vec<(String, Vec<u8>)>),
    MapUsizeVecSet(Vec<(u64, Vec<Vec<u8>>)>),
    SetU32(Vec<u32>),
    SetStr(Vec<String>),
    SetUsize(Vec<u64>),
    T1(u8),
    T2(u8, u16),
    T3(u8, u16, u32),
    T4(u8, u16, u32, u64),
    T5(u8, u16, u32, u64, X),
    T6(u8, u16, u32, u64, X, u64),
    TNested(u64, Option<String>, Vec<u16>, [u8; 3]),
    Arr0,
    Arr1(u8),
    Arr32(Vec<u8>),
    ArrU16x3([u16; 3]),
    ArrU64x4([u64; 4]),
    ArrStr2([String; 2]),
    ArrArr([[u8; 4]; 3]),
    ArrOpt5([Option<u8>; 5]),
    SliceU16(Vec<u16>),
    StrSlice(String),
    RefU32(u32),
    VecPairs(Vec<(u64, Option<String>)>),
    OptTuple(Option<(Vec<u64>, [u16; 2])>),
}

fn usize_strategy() -> BoxedStrategy<u64> {
    prop_oneof![
        4 => prop::sample::select(usize_boundaries()),
        3 => (0u32..=64, any::<u64>()).prop_map(|(bits, v)| if bits == 0 { 0 } else { v >> (64 - bits) }),
        2 => any::<u64>(),
        1 => 0u64..300,
    ]
    .boxed()
}

fn u64_strategy() -> BoxedStrategy<u64> {
    prop_oneof![
        2 => prop::sample::select(vec![0u64, 1, 255, 256, 65535, 65536, u32::MAX as u64, 1 << 32, u64::MAX - 1, u64::MAX, 1 << 63]),
        2 => any::<u64>(),
    ]
    .boxed()
}

fn u128_strategy() -> BoxedStrategy<X> {
    prop_oneof![
        2 => prop::sample::select(vec![0u128, 1, u64::MAX as u128, 1 << 64, u128::MAX - 1, u128::MAX, 1 << 127]),
        2 => any::<u128>(),
    ]
    .prop_map(X)
    .boxed()
}

fn string_strategy() -> BoxedStrategy<String> {
    prop_oneof![
        2 => Just(String::new()),
        4 => prop::collection::vec(any::<char>(), 0..24).prop_map(|c| c.into_iter().collect::<String>()),
        2 => "[a-z0-9 ]{0,40}",
        1 => prop::sample::select(vec![127usize, 128, 129]).prop_map(|n| "x".repeat(n)),
        1 => prop::sample::select(vec![42usize, 43, 64]).prop_map(|n| "\u{20ac}".repeat(n)), // 3 bytes each: 126, 129, 192 bytes
    ]
    .boxed()
}

fn small_vec<T: Debug + Clone + 'static>(s: BoxedStrategy<T>) -> BoxedStrategy<Vec<T>> {
    prop_oneof![
        1 => Just(vec![]),
        5 => prop::collection::vec(s.clone(), 0..12),
        1 => prop::collection::vec(s.clone(), 126..131),
    ]
    .boxed()
}
use std::fmt::Debug;

fn prim_strategy(tier: Tier) -> BoxedStrategy<PrimSpec> {
    use PrimSpec::*;
    let big = tier.pick(70_000u32, 2_200_000u32);
    let v: Vec<BoxedStrategy<PrimSpec>> = vec![
        Just(Unit).boxed(),
        prop_oneof![prop::sample::select(vec![0u8, 1, 2, 127, 128, 254, 255]), any::<u8>()].prop_map(U8).boxed(),
        prop_oneof![prop::sample::select(vec![0u16, 1, 255, 256, 0x7fff, 0x8000, 0xfffe, 0xffff]), any::<u16>()].prop_map(U16).boxed(),
        prop_oneof![prop::sample::select(vec![0u32, 1, 65535, 65536, u32::MAX - 1, u32::MAX]), any::<u32>()].prop_map(U32).boxed(),
        u64_strategy().prop_map(U64).boxed(),
        u128_strategy().prop_map(U128).boxed(),
        usize_strategy().prop_map(Usize).boxed(),
        usize_strategy().prop_map(Usize).boxed(),
        any::<Option<u8>>().prop_map(OptU8).boxed(),
        prop::option::of(u64_strategy()).prop_map(OptU64).boxed(),
        any::<Option<Option<u16>>>().prop_map(OptOptU16).boxed(),
        prop::option::of(bytes_strategy(big)).prop_map(OptBytes).boxed(),
        prop::option::of(string_strategy()).prop_map(OptStr).boxed(),
        string_strategy().prop_map(Str).boxed(),
        (prop_oneof![prop::sample::select(LEN_BOUNDS.to_vec()), 0u32..400], 0x20u8..0x7f).prop_map(|(n, c)| StrAscii(n, c)).boxed(),
        bytes_strategy(big).prop_map(VecU8).boxed(),
        bytes_strategy(big).prop_map(VecU8).boxed(),
        small_vec(any::<u16>().boxed()).prop_map(VecU16).boxed(),
        small_vec(u64_strategy()).prop_map(VecU64).boxed(),
        small_vec(u128_strategy()).prop_map(VecU128).boxed(),
        small_vec(usize_strategy()).prop_map(VecUsize).boxed(),
        prop::collection::vec(string_strategy(), 0..6).prop_map(VecStr).boxed(),
        prop::collection::vec(prop::collection::vec(any::<u8>(), 0..10), 0..8).prop_map(VecVecU8).boxed(),
        small_vec(any::<Option<u32>>().boxed()).prop_map(VecOptU32).boxed(),
        prop_oneof![prop::sample::select(LEN_BOUNDS.to_vec()), 0u32..100_000].prop_map(VecUnit).boxed(),
        small_vec(any::<(u8, u16)>().boxed()).prop_map(MapU8U16).boxed(),
        prop::collection::vec((u64_strategy(), string_strategy()), 0..6).prop_map(MapU64Str).boxed(),
        prop::collection::vec((string_strategy(), prop::collection::vec(any::<u8>(), 0..10)), 0..6).prop_map(MapStrBytes).boxed(),
        prop::collection::vec((usize_strategy(), prop::collection::vec(prop::collection::vec(any::<u8>(), 0..6), 0..4)), 0..5)
            .prop_map(MapUsizeVecSet)
            .boxed(),
        small_vec(any::<u32>().boxed()).prop_map(SetU32).boxed(),
        prop::collection::vec(string_strategy(), 0..6).prop_map(SetStr).boxed(),
        small_vec(usize_strategy()).prop_map(SetUsize).boxed(),
        any::<u8>().prop_map(T1).boxed(),
        any::<(u8, u16)>().prop_map(|(a, b)| T2(a, b)).boxed(),
        any::<(u8, u16, u32)>().prop_map(|(a, b, c)| T3(a, b, c)).boxed(),
        (any::<(u8, u16, u32)>(), u64_strategy()).prop_map(|((a, b, c), d)| T4(a, b, c, d)).boxed(),
        (any::<(u8, u16, u32)>(), u64_strategy(), u128_strategy()).prop_map(|((a, b, c), d, e)| T5(a, b, c, d, e)).boxed(),
        (any::<(u8, u16, u32)>(), u64_strategy(), u128_strategy(), usize_strategy()).prop_map(|((a, b, c), d, e, f)| T6(a, b, c, d, e, f)).boxed(),
        (usize_strategy(), prop::option::of(string_strategy()), prop::collection::vec(any::<u16>(), 0..5), any::<[u8; 3]>())
            .prop_map(|(a, b, c, d)| TNested(a, b, c, d))
            .boxed(),
        Just(Arr0).boxed(),
        any::<u8>().prop_map(Arr1).boxed(),
        prop::collection::vec(any::<u8>(), 32).prop_map(Arr32).boxed(),
        any::<[u16; 3]>().prop_map(ArrU16x3).boxed(),
        any::<[u64; 4]>().prop_map(ArrU64x4).boxed(),
        (string_strategy(), string_strategy()).prop_map(|(a, b)| ArrStr2([a, b])).boxed(),
        any::<[[u8; 4]; 3]>().prop_map(ArrArr).boxed(),
        any::<[Option<u8>; 5]>().prop_map(ArrOpt5).boxed(),
        small_vec(any::<u16>().boxed()).prop_map(SliceU16).boxed(),
        string_strategy().prop_map(StrSlice).boxed(),
        any::<u32>().prop_map(RefU32).boxed(),
        prop::collection::vec((usize_strategy(), prop::option::of(string_strategy())), 0..6).prop_map(VecPairs).boxed(),
        prop::option::of((prop::collection::vec(u64_strategy(), 0..5), any::<[u16; 2]>())).prop_map(OptTuple).boxed(),
    ];
    proptest::strategy::Union::new(v).boxed()
}

fn b_u64(v: u64) -> bool {
    v <= 1 || v >= u64::MAX - 1 || usize_boundaries().binary_search(&v).is_ok() || [255u64, 256, 65535, 65536, u32::MAX as u64, 1 << 32, 1 << 63].contains(&v)
}
fn b_len(n: usize) -> bool {
    LEN_BOUNDS.contains(&(n as u32))
}
fn b_str(s: &str) -> bool {
    b_len(s.len()) || !s.is_ascii()
}

pub struct Prim;
impl Group for Prim {
    type Spec = PrimSpec;
    const NAME: &'static str = "prim";
    fn cases(tier: Tier) -> u64 {
        tier.pick(300_000, 6_000_000)
    }
    fn rule() -> String {
        "one of 50 types (unit, u8..u128, usize, Option/nested Option, String/str, Vec<T>/[T], Vec<()>, BTreeMap, BTreeSet, tuples of arity 1..6, arrays [T;0|1|3|4|5|32], &T, nested compositions) chosen uniformly; integers from {0,1,2^k-1,2^k,max} + uniform, usize from the vint64 boundaries {0, 2^(7k)-1, 2^(7k), 2^(7k)+1 (k=1..9), 2^56+-1, u64::MAX} + uniform per bit length, collection/str lengths from {0,1,127,128,129,16383,16384,16385} + small + up to 70 kB (quick) / 2.2 MB (thorough); non-trivial = value contains a boundary integer, an empty or boundary-length collection, or a non-ASCII string; distinct by value".into()
    }
    fn required_labels() -> Vec<String> {
        ["usize=1B", "usize=2B", "usize=8B", "usize=9B", "len-prefix=1B", "len-prefix=2B", "len-prefix=3B", "type=VecU8", "type=MapU64Str", "type=T6", "type=ArrOpt5"]
            .iter()
            .map(|s| s.to_string())
            .collect()
    }
    fn strategy(tier: Tier) -> BoxedStrategy<PrimSpec> {
        prim_strategy(tier)
    }
    fn check(spec: &PrimSpec, c: &Ctx, obs: &mut Obs) -> CheckResult {
        use PrimSpec::*;
        let name = format!("{spec:?}");
        let tname = name.split(['(', ' ', '{']).next().unwrap_or("?").to_string();
        obs.label(format!("type={tname}"));
        let us = |v: u64, obs: &mut Obs| {
            let n = crate::c13::vint64(v).len();
            obs.label(format!("usize={n}B"));
        };
        let lp = |n: usize, obs: &mut Obs| {
            let k = crate::c13::vint64(n as u64).len();
            obs.label(format!("len-prefix={k}B"));
        };
        let t = tname.as_str();
        let nt: bool;
        match spec {
            Unit => {
                nt = true;
                c.rt(t, &(), obs)?
            },
            U8(v) => {
                nt = *v <= 1 || *v >= 254 || *v == 127 || *v == 128;
                c.rt(t, v, obs)?
            },
            U16(v) => {
                nt = b_u64(*v as u64) || *v >= 0xfffe;
                c.rt(t, v, obs)?
            },
            U32(v) => {
                nt = b_u64(*v as u64) || *v >= u32::MAX - 1;
                c.rt(t, v, obs)?
            },
            U64(v) => {
                nt = b_u64(*v);
                c.rt(t, v, obs)?
            },
            U128(v) => {
                nt = v.0 <= 1 || v.0 >= u128::MAX - 1 || v.0 == 1 << 64 || v.0 == u64::MAX as u128 || v.0 == 1 << 127;
                c.rt(t, &v.0, obs)?
            },
            Usize(v) => {
                nt = b_u64(*v);
                us(*v, obs);
                c.rt(t, &(*v as usize), obs)?
            },
            OptU8(v) => {
                nt = v.is_none();
                c.rt(t, v, obs)?
            },
            OptU64(v) => {
                nt = v.map(b_u64).unwrap_or(true);
                c.rt(t, v, obs)?
            },
            OptOptU16(v) => {
                nt = !matches!(v, Some(Some(_)));
                c.rt(t, v, obs)?
            },
            OptBytes(v) => {
                let x = v.as_ref().map(|b| b.get());
                nt = x.as_ref().map(|b| b_len(b.len())).unwrap_or(true);
                if let Some(b) = &x {
                    lp(b.len(), obs);
                }
                c.rt(t, &x, obs)?
            },
            OptStr(v) => {
                nt = v.as_ref().map(|s| b_str(s)).unwrap_or(true);
                c.rt(t, v, obs)?
            },
            Str(s) => {
                nt = b_str(s);
                lp(s.len(), obs);
                c.rt(t, s, obs)?
            },
            StrAscii(n, ch) => {
                let s: String = std::iter::repeat(*ch as char).take(*n as usize).collect();
                nt = b_len(s.len());
                lp(s.len(), obs);
                c.rt(t, &s, obs)?
            },
            VecU8(b) => {
                let x = b.get();
                nt = b_len(x.len());
                lp(x.len(), obs);
                c.rt(t, &x, obs)?
            },
            VecU16(v) => {
                nt = b_len(v.len());
                lp(v.len(), obs);
                c.rt(t, v, obs)?
            },
            VecU64(v) => {
                nt = b_len(v.len()) || v.iter().any(|x| b_u64(*x));
                c.rt(t, v, obs)?
            },
            VecU128(v) => {
                nt = b_len(v.len());
                let x: Vec<u128> = v.iter().map(|x| x.0).collect();
                c.rt(t, &x, obs)?
            },
            VecUsize(v) => {
                nt = b_len(v.len()) || v.iter().any(|x| b_u64(*x));
                let x: Vec<usize> = v.iter().map(|x| *x as usize).collect();
                v.iter().for_each(|x| us(*x, obs));
                c.rt(t, &x, obs)?
            },
            VecStr(v) => {
                nt = b_len(v.len()) || v.iter().any(|s| b_str(s));
                c.rt(t, v, obs)?
            },
            VecVecU8(v) => {
                nt = b_len(v.len()) || v.iter().any(|s| b_len(s.len()));
                c.rt(t, v, obs)?
            },
            VecOptU32(v) => {
                nt = b_len(v.len()) || v.iter().any(|s| s.is_none());
                c.rt(t, v, obs)?
            },
            VecUnit(n) => {
                nt = b_len(*n as usize);
                lp(*n as usize, obs);
                c.rt(t, &vec![(); *n as usize], obs)?
            },
            MapU8U16(v) => {
                let m: BTreeMap<u8, u16> = v.iter().cloned().collect();
                nt = b_len(m.len());
                c.rt(t, &m, obs)?
            },
            MapU64Str(v) => {
                let m: BTreeMap<u64, String> = v.iter().cloned().collect();
                nt = b_len(m.len()) || m.iter().any(|(k, s)| b_u64(*k) || b_str(s));
                c.rt(t, &m, obs)?
            },
            MapStrBytes(v) => {
                let m: BTreeMap<String, Vec<u8>> = v.iter().cloned().collect();
                nt = b_len(m.len()) || m.iter().any(|(k, s)| b_str(k) || b_len(s.len()));
                c.rt(t, &m, obs)?
            },
            MapUsizeVecSet(v) => {
                let m: BTreeMap<usize, Vec<BTreeSet<u8>>> =
                    v.iter().map(|(k, l)| (*k as usize, l.iter().map(|s| s.iter().cloned().collect()).collect())).collect();
                nt = b_len(m.len()) || m.iter().any(|(k, l)| b_u64(*k as u64) || b_len(l.len()));
                c.rt(t, &m, obs)?
            },
            SetU32(v) => {
                let m: BTreeSet<u32> = v.iter().cloned().collect();
                nt = b_len(m.len());
                c.rt(t, &m, obs)?
            },
            SetStr(v) => {
                let m: BTreeSet<String> = v.iter().cloned().collect();
                nt = b_len(m.len()) || m.iter().any(|s| b_str(s));
                c.rt(t, &m, obs)?
            },
            SetUsize(v) => {
                let m: BTreeSet<usize> = v.iter().map(|x| *x as usize).collect();
                nt = b_len(m.len()) || m.iter().any(|x| b_u64(*x as u64));
                c.rt(t, &m, obs)?
            },
            T1(a) => {
                nt = *a == 0 || *a == 255;
                c.rt(t, &(*a,), obs)?
            },
            T2(a, b) => {
                nt = *a == 0 || *a == 255 || *b == 0 || *b == 0xffff;
                c.rt(t, &(*a, *b), obs)?
            },
            T3(a, b, d) => {
                nt = *a == 0 || *b == 0 || *d == 0 || *d == u32::MAX;
                c.rt(t, &(*a, *b, *d), obs)?
            },
            T4(a, b, d, e) => {
                nt = b_u64(*e);
                c.rt(t, &(*a, *b, *d, *e), obs)?
            },
            T5(a, b, d, e, f) => {
                nt = b_u64(*e) || f.0 == 0 || f.0 == u128::MAX;
                c.rt(t, &(*a, *b, *d, *e, f.0), obs)?
            },
            T6(a, b, d, e, f, g) => {
                nt = b_u64(*e) || b_u64(*g);
                us(*g, obs);
                c.rt(t, &(*a, *b, *d, *e, f.0, *g as usize), obs)?
            },
            TNested(a, b, d, e) => {
                nt = b_u64(*a) || b.as_ref().map(|s| b_str(s)).unwrap_or(true) || d.is_empty();
                c.rt(t, &((*a as usize, b.clone()), d.clone(), *e), obs)?
            },
            Arr0 => {
                nt = true;
                c.rt::<[u8; 0]>(t, &[], obs)?
            },
            Arr1(a) => {
                nt = *a == 0 || *a == 255;
                c.rt(t, &[*a], obs)?
            },
            Arr32(v) => {
                let a: [u8; 32] = v.clone().try_into().map_err(|_| Fail::new("harness/arr32", "length"))?;
                nt = false;
                c.rt(t, &a, obs)?
            },
            ArrU16x3(a) => {
                nt = a.iter().any(|x| *x == 0 || *x == 0xffff);
                c.rt(t, a, obs)?
            },
            ArrU64x4(a) => {
                nt = a.iter().any(|x| b_u64(*x));
                c.rt(t, a, obs)?
            },
            ArrStr2(a) => {
                nt = a.iter().any(|s| b_str(s));
                c.rt(t, a, obs)?
            },
            ArrArr(a) => {
                nt = false;
                c.rt(t, a, obs)?
            },
            ArrOpt5(a) => {
                nt = a.iter().any(|x| x.is_none());
                c.rt(t, a, obs)?
            },
            SliceU16(v) => {
                // the unsized [T] writer must be readable as Vec<T>
                nt = b_len(v.len());
                let bytes = <[u16] as Serializable>::to_bytes(&v[..]);
                c.rt_bytes(t, bytes, v, obs)?
            },
            StrSlice(s) => {
                nt = b_str(s);
                let bytes = <str as Serializable>::to_bytes(s.as_str());
                c.rt_bytes(t, bytes, s, obs)?
            },
            RefU32(v) => {
                nt = *v == 0 || *v == u32::MAX;
                let r: &u32 = v;
                let bytes = <&u32 as Serializable>::to_bytes(&r);
                c.rt_bytes(t, bytes, v, obs)?
            },
            VecPairs(v) => {
                let x: Vec<(usize, Option<String>)> = v.iter().map(|(a, b)| (*a as usize, b.clone())).collect();
                nt = b_len(x.len()) || x.iter().any(|(a, b)| b_u64(*a as u64) || b.is_none());
                c.rt(t, &x, obs)?
            },
            OptTuple(v) => {
                nt = v.as_ref().map(|(a, _)| a.is_empty()).unwrap_or(true);
                c.rt(t, v, obs)?
            },
        }
        obs.nontrivial_if(nt);
        Ok(())
    }
}

// FIELD ELEMENTS
// ================================================================================================

#[derive(Serialize, Deserialize, Clone, Copy, Debug, PartialEq, Eq)]
pub struct FK {
    /// 0 = f62, 1 = f64, 2 = f128
    pub base: u8,
    /// extension degree 1, 2 or 3 (f128 has no cubic extension)
    pub ext: u8,
}

pub fn fk_strategy() -> BoxedStrategy<FK> {
    prop::sample::select(vec![(0u8, 1u8), (0, 2), (0, 3), (1, 1), (1, 2), (1, 3), (2, 1), (2, 2)]).prop_map(|(base, ext)| FK { base, ext }).boxed()
}

#[macro_export]
macro_rules! with_field {
    ($fk:expr, $E:ident => $body:expr) => {
        match ($fk.base, $fk.ext) {
            (0, 1) => {
                type $E = vf_repo::B62;
                $body
            },
            (0, 2) => {
                type $E = vf_repo::Q<vf_repo::B62>;
                $body
            },
            (0, _) => {
                type $E = vf_repo::C<vf_repo::B62>;
                $body
            },
            (1, 1) => {
                type $E = vf_repo::B64;
                $body
            },
            (1, 2) => {
                type $E = vf_repo::Q<vf_repo::B64>;
                $body
            },
            (1, _) => {
                type $E = vf_repo::C<vf_repo::B64>;
                $body
            },
            (_, 1) => {
                type $E = vf_repo::B128;
                $body
            },
            _ => {
                type $E = vf_repo::Q<vf_repo::B128>;
                $body
            },
        }
    };
}

/// operand sources for a base field chosen at run time (Src values are field specific)
pub fn srcs_strategy(base: u8, n: std::ops::Range<usize>) -> BoxedStrategy<Vec<Src>> {
    match base {
        0 => prop::collection::vec(src_strategy::<B62>(), n).boxed(),
        1 => prop::collection::vec(src_strategy::<B64>(), n).boxed(),
        _ => prop::collection::vec(src_strategy::<B128>(), n).boxed(),
    }
}

/// i-th element built from the (cycled) coefficient sources
pub fn make<E: FieldElement>(coeffs: &[Src], i: usize) -> E
where
    E::BaseField: FA,
{
    let d = E::EXTENSION_DEGREE;
    let b: Vec<E::BaseField> = (0..d).map(|k| realise::<E::BaseField>(&coeffs[(i * d + k) % coeffs.len()])).collect();
    E::slice_from_base_elements(&b)[0]
}

pub fn make_vec<E: FieldElement>(coeffs: &[Src], n: usize) -> Vec<E>
where
    E::BaseField: FA,
{
    (0..n).map(|i| make::<E>(coeffs, i)).collect()
}

pub fn srcs_boundary(base: u8, s: &[Src]) -> bool {
    s.iter().any(|x| match base {
        0 => vf_repo::is_boundary::<B62>(x),
        1 => vf_repo::is_boundary::<B64>(x),
        _ => vf_repo::is_boundary::<B128>(x),
    })
}

#[derive(Serialize, Deserialize, Clone, Debug)]
pub struct FieldSpec {
    pub fk: FK,
    pub coeffs: Vec<Src>,
    /// 0 = single element, 1 = Vec<E>, 2 = [E; 4], 3 = Option<E>, 4 = (E, u8, E)
    pub shape: u8,
    pub n: u16,
}

pub struct FieldG;
impl Group for FieldG {
    type Spec = FieldSpec;
    const NAME: &'static str = "field";
    fn cases(tier: Tier) -> u64 {
        tier.pick(200_000, 4_000_000)
    }
    fn rule() -> String {
        "f62/f64/f128 base elements and their quadratic/cubic extensions (f128 cubic does not exist), coefficients from vf_repo::src_strategy (boundary residues, structured/non-canonical internal images, uniform); shapes: single element, Vec<E> (0..300), [E;4], Option<E>, (E,u8,E); non-trivial = some coefficient in a boundary class; distinct by value".into()
    }
    fn required_labels() -> Vec<String> {
        let mut v = vec![];
        for f in ["f62", "f64", "f128"] {
            for e in 1..=3 {
                if !(f == "f128" && e == 3) {
                    v.push(format!("field={f}^{e}"));
                }
            }
        }
        v
    }
    fn strategy(_tier: Tier) -> BoxedStrategy<FieldSpec> {
        (fk_strategy(), 0u8..5, prop_oneof![3 => 0u16..6, 1 => 0u16..300])
            .prop_flat_map(|(fk, shape, n)| srcs_strategy(fk.base, 1..13).prop_map(move |coeffs| FieldSpec { fk, coeffs, shape, n }))
            .boxed()
    }
    fn check(s: &FieldSpec, c: &Ctx, obs: &mut Obs) -> CheckResult {
        obs.label(format!("field={}^{}", ["f62", "f64", "f128"][s.fk.base as usize % 3], s.fk.ext));
        obs.label(format!("shape={}", s.shape));
        obs.nontrivial_if(srcs_boundary(s.fk.base, &s.coeffs));
        with_field!(s.fk, E => {
            match s.shape {
                0 => c.rt("E", &make::<E>(&s.coeffs, 0), obs),
                1 => c.rt("Vec<E>", &make_vec::<E>(&s.coeffs, s.n as usize), obs),
                2 => {
                    let a: [E; 4] = [make(&s.coeffs, 0), make(&s.coeffs, 1), make(&s.coeffs, 2), make(&s.coeffs, 3)];
                    c.rt("[E;4]", &a, obs)
                },
                3 => c.rt("Option<E>", &if s.n % 4 == 0 { None } else { Some(make::<E>(&s.coeffs, 0)) }, obs),
                _ => c.rt("(E,u8,E)", &(make::<E>(&s.coeffs, 0), s.n as u8, make::<E>(&s.coeffs, 1)), obs),
            }
        })
    }
}

// DIGESTS
// ================================================================================================

#[derive(Serialize, Deserialize, Clone, Debug)]
pub enum DigestSpec {
    B32(Vec<u8>),
    B24(Vec<u8>),
    Rp64(Vec<Src>),
    Jive(Vec<Src>),
    Rp62(Vec<Src>),
    /// digests produced by hashing (kind 0..6), in a Vec / Option
    Hashed(u8, Vec<Vec<u8>>),
}

#[macro_export]
macro_rules! with_hasher {
    ($hk:expr, $H:ident => $body:expr) => {
        match $hk % 6 {
            0 => {
                type $H = winter_crypto::hashers::Blake3_256<vf_repo::B64>;
                $body
            },
            1 => {
                type $H = winter_crypto::hashers::Blake3_192<vf_repo::B128>;
                $body
            },
            2 => {
                type $H = winter_crypto::hashers::Sha3_256<vf_repo::B62>;
                $body
            },
            3 => {
                type $H = winter_crypto::hashers::Rp64_256;
                $body
            },
            4 => {
                type $H = winter_crypto::hashers::RpJive64_256;
                $body
            },
            _ => {
                type $H = winter_crypto::hashers::Rp62_248;
                $body
            },
        }
    };
}

pub const HASHER_NAMES: [&str; 6] = ["Blake3_256", "Blake3_192", "Sha3_256", "Rp64_256", "RpJive64_256", "Rp62_248"];

/// n digests of hasher H: the first 16 are hashes of (seed, i), then they repeat
pub fn digests<H: Hasher>(seed: u64, n: usize) -> Vec<H::Digest> {
    let base: Vec<H::Digest> = (0..n.min(16))
        .map(|i| {
            let mut b = seed.to_le_bytes().to_vec();
            b.push(i as u8);
            H::hash(&b)
        })
        .collect();
    (0..n).map(|i| base[i % base.len()]).collect()
}

pub struct DigestG;
impl Group for DigestG {
    type Spec = DigestSpec;
    const NAME: &'static str = "digest";
    fn cases(tier: Tier) -> u64 {
        tier.pick(100_000, 2_000_000)
    }
    fn rule() -> String {
        "ByteDigest<32>, ByteDigest<24> from arbitrary / all-0 / all-ff bytes; the ElementDigest of Rp64_256, RpJive64_256 (4 f64 elements) and Rp62_248 (4 f62 elements packed into 31 bytes) from src_strategy elements (boundary residues, non-canonical images); Vec/Option of digests obtained by hashing with each of the six hashers; non-trivial = boundary byte pattern or boundary element; distinct by value".into()
    }
    fn required_labels() -> Vec<String> {
        ["B32", "B24", "Rp64", "Jive", "Rp62", "Hashed"].iter().map(|s| format!("digest={s}")).collect()
    }
    fn strategy(_tier: Tier) -> BoxedStrategy<DigestSpec> {
        let bytes = |n: usize| prop_oneof![1 => Just(vec![0u8; n]), 1 => Just(vec![0xffu8; n]), 4 => prop::collection::vec(any::<u8>(), n)];
        prop_oneof![
            2 => bytes(32).prop_map(DigestSpec::B32),
            2 => bytes(24).prop_map(DigestSpec::B24),
            2 => prop::collection::vec(src_strategy::<B64>(), 4).prop_map(DigestSpec::Rp64),
            2 => prop::collection::vec(src_strategy::<B64>(), 4).prop_map(DigestSpec::Jive),
            3 => prop::collection::vec(src_strategy::<B62>(), 4).prop_map(DigestSpec::Rp62),
            2 => (0u8..6, prop::collection::vec(prop::collection::vec(any::<u8>(), 0..12), 0..5)).prop_map(|(k, v)| DigestSpec::Hashed(k, v)),
        ]
        .boxed()
    }
    fn check(s: &DigestSpec, c: &Ctx, obs: &mut Obs) -> CheckResult {
        use winter_crypto::hashers::{Blake3_256 as B256, Blake3_192 as B192};
        type D32 = <B256<B64> as Hasher>::Digest;
        type D24 = <B192<B64> as Hasher>::Digest;
        let flat = |v: &Vec<u8>| v.iter().all(|b| *b == 0) || v.iter().all(|b| *b == 0xff);
        match s {
            DigestSpec::B32(v) => {
                obs.label("digest=B32");
                obs.nontrivial_if(flat(v));
                let a: [u8; 32] = v.clone().try_into().map_err(|_| Fail::new("harness/len", "32"))?;
                c.rt("ByteDigest<32>", &D32::new(a), obs)
            },
            DigestSpec::B24(v) => {
                obs.label("digest=B24");
                obs.nontrivial_if(flat(v));
                let a: [u8; 24] = v.clone().try_into().map_err(|_| Fail::new("harness/len", "24"))?;
                c.rt("ByteDigest<24>", &D24::new(a), obs)
            },
            DigestSpec::Rp64(e) => {
                obs.label("digest=Rp64");
                obs.nontrivial_if(srcs_boundary(1, e));
                let a: [B64; 4] = [realise(&e[0]), realise(&e[1]), realise(&e[2]), realise(&e[3])];
                c.rt("Rp64_256::Digest", &<Rp64_256 as Hasher>::Digest::new(a), obs)
            },
            DigestSpec::Jive(e) => {
                obs.label("digest=Jive");
                obs.nontrivial_if(srcs_boundary(1, e));
                let a: [B64; 4] = [realise(&e[0]), realise(&e[1]), realise(&e[2]), realise(&e[3])];
                c.rt("RpJive64_256::Digest", &<RpJive64_256 as Hasher>::Digest::new(a), obs)
            },
            DigestSpec::Rp62(e) => {
                obs.label("digest=Rp62");
                obs.nontrivial_if(srcs_boundary(0, e));
                let a: [B62; 4] = [realise(&e[0]), realise(&e[1]), realise(&e[2]), realise(&e[3])];
                c.rt("Rp62_248::Digest", &<Rp62_248 as Hasher>::Digest::new(a), obs)
            },
            DigestSpec::Hashed(k, inputs) => {
                obs.label("digest=Hashed");
                obs.label(format!("hasher={}", HASHER_NAMES[*k as usize % 6]));
                obs.nontrivial_if(inputs.is_empty() || inputs.iter().any(|i| i.is_empty()));
                with_hasher!(*k, H => {
                    let v: Vec<<H as Hasher>::Digest> = inputs.iter().map(|i| H::hash(i)).collect();
                    c.rt("Vec<Digest>", &v, obs)?;
                    c.rt("Option<Digest>", &v.first().copied(), obs)
                })
            },
        }
    }
}

pub fn run(run: &mut Run, excl: Excl, reduced: bool) {
    run.sub(&Rt::<Prim>::new(Rd::Mem, excl, false));
    run.sub(&Rt::<FieldG>::new(Rd::Mem, excl, false));
    run.sub(&Rt::<DigestG>::new(Rd::Mem, excl, false));
    run.sub(&Rt::<Prim>::new(Rd::Adapter, excl, reduced));
    run.sub(&Rt::<FieldG>::new(Rd::Adapter, excl, reduced));
    run.sub(&Rt::<DigestG>::new(Rd::Adapter, excl, reduced));
}
