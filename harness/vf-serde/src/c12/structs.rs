//! protocol structures: FieldExtension, ProofOptions, TraceInfo, Context, Commitments, Queries,
//! OodFrame, FriProof, Proof. Generators construct only what the public constructors accept
//! (their documented panics are preconditions, generated around, never triggered).

use proptest::prelude::*;
use serde::{Deserialize, Serialize};
use vf_core::{CheckResult, Fail, Obs, Run, Tier};
use vf_repo::prelude::*;
use winter_air::proof::{Commitments, Context, OodFrame, Proof, Queries, TraceOodFrame};
use winter_air::{FieldExtension, LagrangeKernelEvaluationFrame, ProofOptions, TraceInfo};
use winter_crypto::{BatchMerkleProof, DefaultRandomCoin, ElementHasher, Hasher};
use winter_fri::{DefaultProverChannel, FriOptions, FriProof, FriProver};
use winter_math::{FieldElement, StarkField};
use winter_utils::Deserializable;

use super::prim::{bytes_strategy, digests, fk_strategy, make_vec, srcs_boundary, srcs_strategy, Bytes, FK, HASHER_NAMES};
use super::{fill_strategy, Ctx, Excl, Group, Rd, Rt};
use crate::{with_field, with_hasher};

// PROOF OPTIONS
// ================================================================================================

#[derive(Serialize, Deserialize, Clone, Copy, Debug, PartialEq, Eq)]
pub struct OptSpec {
    /// 1..=255
    pub queries: u8,
    /// blowup = 2^log_blowup, 1..=7
    pub log_blowup: u8,
    /// 0..=32
    pub grinding: u8,
    /// 1 none, 2 quadratic, 3 cubic
    pub ext: u8,
    /// folding = 2^log_fold, 1..=4
    pub log_fold: u8,
    /// remainder max degree = 2^log_rem - 1, 0..=8
    pub log_rem: u8,
}

pub fn ext_of(e: u8) -> FieldExtension {
    match e {
        1 => FieldExtension::None,
        2 => FieldExtension::Quadratic,
        _ => FieldExtension::Cubic,
    }
}

pub fn build_opts(s: &OptSpec) -> ProofOptions {
    ProofOptions::new(
        s.queries as usize,
        1usize << s.log_blowup,
        s.grinding as u32,
        ext_of(s.ext),
        1usize << s.log_fold,
        (1usize << s.log_rem) - 1,
    )
}

pub fn opt_boundary(s: &OptSpec) -> bool {
    s.queries == 1 || s.queries == 255 || s.log_blowup == 1 || s.log_blowup == 7 || s.grinding == 0 || s.grinding == 32 || s.log_rem == 0 || s.log_rem == 8 || s.log_fold == 4
}

pub fn opt_strategy() -> BoxedStrategy<OptSpec> {
    (
        prop_oneof![2 => prop::sample::select(vec![1u8, 2, 127, 128, 254, 255]), 3 => 1u8..=255],
        prop_oneof![1 => Just(1u8), 1 => Just(7u8), 3 => 1u8..=7],
        prop_oneof![1 => Just(0u8), 1 => Just(32u8), 3 => 0u8..=32],
        1u8..=3,
        1u8..=4,
        prop_oneof![1 => Just(0u8), 1 => Just(8u8), 3 => 0u8..=8],
    )
        .prop_map(|(queries, log_blowup, grinding, ext, log_fold, log_rem)| OptSpec { queries, log_blowup, grinding, ext, log_fold, log_rem })
        .boxed()
}

fn check_opts(s: &OptSpec, c: &Ctx, obs: &mut Obs) -> CheckResult {
    obs.nontrivial_if(opt_boundary(s));
    if s.queries == 255 {
        obs.label("queries=255");
    }
    if s.log_blowup == 7 {
        obs.label("blowup=128");
    }
    if s.log_rem == 8 {
        obs.label("remainder-degree=255");
    }
    if s.grinding == 32 {
        obs.label("grinding=32");
    }
    c.rt("FieldExtension", &ext_of(s.ext), obs)?;
    c.rt("ProofOptions", &build_opts(s), obs)
}

pub struct OptionsG;
impl Group for OptionsG {
    type Spec = OptSpec;
    const NAME: &'static str = "options";
    fn cases(tier: Tier) -> u64 {
        tier.pick(100_000, 1_000_000)
    }
    fn rule() -> String {
        "ProofOptions::new over its whole accepted space (queries 1..255, blowup 2..128, grinding 0..32, three extensions, folding 2/4/8/16, remainder degree 2^k-1 <= 255) with the extremes weighted, plus FieldExtension; non-trivial = some parameter at an extreme".into()
    }
    fn required_labels() -> Vec<String> {
        ["queries=255", "blowup=128", "remainder-degree=255", "grinding=32"].iter().map(|s| s.to_string()).collect()
    }
    fn strategy(_t: Tier) -> BoxedStrategy<OptSpec> {
        opt_strategy()
    }
    fn check(s: &OptSpec, c: &Ctx, obs: &mut Obs) -> CheckResult {
        check_opts(s, c, obs)
    }
}

fn all_options() -> impl Iterator<Item = OptSpec> {
    (1u8..=255).flat_map(|queries| {
        (1u8..=7).flat_map(move |log_blowup| {
            (0u8..=32).flat_map(move |grinding| {
                (1u8..=3).flat_map(move |ext| {
                    (1u8..=4).flat_map(move |log_fold| (0u8..=8).map(move |log_rem| OptSpec { queries, log_blowup, grinding, ext, log_fold, log_rem }))
                })
            })
        })
    })
}

// TRACE INFO
// ================================================================================================

#[derive(Serialize, Deserialize, Clone, Debug)]
pub struct TiSpec {
    /// 1..=255
    pub main: u8,
    /// 0..=255-main
    pub aux: u8,
    /// 0 when aux == 0
    pub rands: u8,
    /// trace length 2^log_len, 3..=63
    pub log_len: u8,
    pub meta: Bytes,
}

pub fn build_ti(s: &TiSpec) -> TraceInfo {
    let meta = s.meta.get();
    let len = 1usize << s.log_len;
    if s.aux == 0 && s.rands == 0 {
        if meta.is_empty() {
            TraceInfo::new(s.main as usize, len)
        } else {
            TraceInfo::with_meta(s.main as usize, len, meta)
        }
    } else {
        TraceInfo::new_multi_segment(s.main as usize, s.aux as usize, s.rands as usize, len, meta)
    }
}

pub fn ti_strategy(max_log_len: u8) -> BoxedStrategy<TiSpec> {
    let widths = prop_oneof![
        3 => prop::sample::select(vec![(255u8, 0u8), (254, 1), (1, 254), (128, 127), (127, 128), (1, 0), (1, 1), (254, 0), (253, 1), (1, 253), (2, 252)]),
        4 => (1u8..=255, any::<u8>()).prop_map(|(m, sel)| (m, ((sel as u16) % (256 - m as u16)) as u8)),
        2 => (1u8..=16, 0u8..=8),
    ];
    let rands = prop_oneof![2 => Just(0u8), 1 => Just(1u8), 2 => Just(255u8), 3 => any::<u8>()];
    let log_len = prop_oneof![
        1 => Just(3u8),
        1 => Just(31u8),
        5 => 3u8..=31,
        2 => 32u8..=63,
    ];
    let meta = prop_oneof![
        4 => Just(Bytes::Lit(vec![])),
        3 => prop::collection::vec(any::<u8>(), 1..=64).prop_map(Bytes::Lit),
        2 => (prop::sample::select(vec![1u32, 255, 256, 65534, 65535]), fill_strategy()).prop_map(|(n, f)| Bytes::Fill(n, f)),
        1 => (0u32..=65535, fill_strategy()).prop_map(|(n, f)| Bytes::Fill(n, f)),
    ];
    (widths, rands, log_len, meta)
        .prop_map(move |((main, aux), rands, log_len, meta)| TiSpec {
            main,
            aux,
            rands: if aux == 0 { 0 } else { rands },
            log_len: log_len.min(max_log_len),
            meta,
        })
        .boxed()
}

fn ti_labels(s: &TiSpec, obs: &mut Obs) -> bool {
    let w = s.main as usize + s.aux as usize;
    obs.label(match w {
        255 => "width=255",
        254 => "width=254",
        _ => "width<254",
    });
    obs.label(if s.aux == 0 {
        "aux=0"
    } else if s.rands == 0 {
        "aux>0,rands=0"
    } else if s.rands == 255 {
        "aux>0,rands=255"
    } else {
        "aux>0,rands=1..254"
    });
    obs.label(match s.log_len {
        3 => "len=2^3",
        31 => "len=2^31",
        32..=63 => "len=2^32..2^63",
        _ => "len=2^4..2^30",
    });
    let ml = s.meta.len();
    obs.label(match ml {
        0 => "meta=0",
        65535 => "meta=65535",
        1..=64 => "meta=1..64",
        _ => "meta=other",
    });
    w == 1 || w >= 254 || (s.aux > 0 && (s.rands <= 1 || s.rands == 255)) || [3, 31, 32, 63].contains(&s.log_len) || [255, 256, 65534, 65535].contains(&ml)
}

/// does the value fall into a class whose failure is an open known finding (composite groups skip it)
fn ti_excluded(s: &TiSpec, e: &Excl) -> Option<&'static str> {
    if e.width255 && s.main as usize + s.aux as usize == 255 {
        Some("skipped-known:width=255")
    } else if e.aux_norand && s.aux > 0 && s.rands == 0 {
        Some("skipped-known:aux>0,rands=0")
    } else if e.len_over_31 && s.log_len > 31 {
        Some("skipped-known:len>2^31")
    } else {
        None
    }
}

pub struct TraceInfoG;
impl Group for TraceInfoG {
    type Spec = TiSpec;
    const NAME: &'static str = "trace-info";
    fn cases(tier: Tier) -> u64 {
        tier.pick(60_000, 1_500_000)
    }
    fn rule() -> String {
        "TraceInfo::new / with_meta / new_multi_segment over everything they accept: main 1..255, aux 0..255-main (totals 254 and 255 weighted), aux random elements 0..255 (0, 1, 255 weighted; 0 when there is no aux segment), length 2^3..2^63 (2^3, 2^31 weighted), metadata 0..65535 bytes (0, 1..64 literal, 255, 256, 65534, 65535 weighted); non-trivial = width in {1,254,255} or rands in {0,1,255} with aux columns or length in {2^3,2^31,2^32,2^63} or metadata length in {255,256,65534,65535}".into()
    }
    fn required_labels() -> Vec<String> {
        ["width=255", "width=254", "aux>0,rands=0", "aux>0,rands=255", "len=2^3", "len=2^31", "meta=0", "meta=65535"].iter().map(|s| s.to_string()).collect()
    }
    fn strategy(_t: Tier) -> BoxedStrategy<TiSpec> {
        ti_strategy(63)
    }
    fn check(s: &TiSpec, c: &Ctx, obs: &mut Obs) -> CheckResult {
        if let Some(l) = ti_excluded(s, &c.excl) {
            if !super::keep_known(s.main as u64 * 31 + s.aux as u64 * 17 + s.rands as u64 * 7 + s.log_len as u64 + s.meta.len() as u64) {
                obs.label(l);
                return Ok(());
            }
        }
        let nt = ti_labels(s, obs);
        obs.nontrivial_if(nt);
        let ti = match vf_core::catch(|| build_ti(s)) {
            Ok(ti) => ti,
            // lengths above 2^31 are only in the domain as long as the constructor takes them
            Err(_) if s.log_len > 31 => {
                obs.label("len>2^31:refused-by-constructor");
                return Ok(());
            },
            Err(p) => return Err(Fail::new("harness/constructor", format!("generator built a value the constructor refuses: {}", p.msg))),
        };
        c.rt("TraceInfo", &ti, obs)
    }
}

// CONTEXT
// ================================================================================================

#[derive(Serialize, Deserialize, Clone, Debug)]
pub struct CtxSpec {
    pub ti: TiSpec,
    pub opts: OptSpec,
    /// 0 f62, 1 f64, 2 f128
    pub base: u8,
}

pub fn ctx_strategy() -> BoxedStrategy<CtxSpec> {
    (ti_strategy(31), opt_strategy(), 0u8..3)
        .prop_map(|(mut ti, opts, base)| {
            // Context::new: trace length and LDE domain size must fit into u32
            ti.log_len = ti.log_len.min(31 - opts.log_blowup);
            ti.log_len = ti.log_len.max(3);
            CtxSpec { ti, opts, base }
        })
        .boxed()
}

pub fn build_ctx(s: &CtxSpec) -> Context {
    let ti = build_ti(&s.ti);
    let o = build_opts(&s.opts);
    match s.base {
        0 => Context::new::<B62>(ti, o),
        1 => Context::new::<B64>(ti, o),
        _ => Context::new::<B128>(ti, o),
    }
}

pub struct ContextG;
impl Group for ContextG {
    type Spec = CtxSpec;
    const NAME: &'static str = "context";
    fn cases(tier: Tier) -> u64 {
        tier.pick(60_000, 1_000_000)
    }
    fn rule() -> String {
        "Context::new::<f62|f64|f128>(TraceInfo, ProofOptions) with both parts from their own generators, trace length capped so that length x blowup <= 2^31 (the constructor refuses more; the cap itself is reached); non-trivial = boundary TraceInfo or boundary options or LDE size 2^31".into()
    }
    fn required_labels() -> Vec<String> {
        vec!["lde=2^31".into()]
    }
    fn strategy(_t: Tier) -> BoxedStrategy<CtxSpec> {
        ctx_strategy()
    }
    fn check(s: &CtxSpec, c: &Ctx, obs: &mut Obs) -> CheckResult {
        if let Some(l) = ti_excluded(&s.ti, &c.excl) {
            obs.label(l);
            return Ok(());
        }
        let nt = ti_labels(&s.ti, obs) | opt_boundary(&s.opts);
        let top = s.ti.log_len + s.opts.log_blowup == 31;
        if top {
            obs.label("lde=2^31");
        }
        obs.label(format!("modulus={}", ["f62", "f64", "f128"][s.base as usize % 3]));
        obs.nontrivial_if(nt || top);
        let x = vf_core::catch(|| build_ctx(s)).map_err(|p| Fail::new("harness/constructor", format!("generator built a value the constructor refuses: {}", p.msg)))?;
        c.rt("Context", &x, obs)
    }
}

// COMMITMENTS
// ================================================================================================

#[derive(Serialize, Deserialize, Clone, Debug)]
pub struct CommSpec {
    pub hasher: u8,
    pub n_trace: u8,
    pub n_fri: u16,
    /// digests appended afterwards through Commitments::add
    pub n_added: u8,
    pub seed: u64,
}

/// digest size in bytes per hasher kind
const DIGEST_BYTES: [usize; 6] = [32, 24, 32, 32, 32, 31];

pub fn comm_strategy() -> BoxedStrategy<CommSpec> {
    (0u8..6, 0u8..=2, prop_oneof![6 => 0u16..24, 1 => 0u16..2200, 2 => Just(u16::MAX)], 0u8..3, any::<u64>())
        .prop_map(|(hasher, n_trace, n_fri, n_added, seed)| {
            // the writer refuses 65535 bytes and more (assert in write_into): stay below
            let max_total = 65534 / DIGEST_BYTES[hasher as usize];
            let fixed = n_trace as usize + 1 + n_added as usize;
            let n_fri = (n_fri as usize).min(max_total - fixed) as u16;
            CommSpec { hasher, n_trace, n_fri, n_added, seed }
        })
        .boxed()
}

pub fn build_comm(s: &CommSpec) -> Commitments {
    with_hasher!(s.hasher, H => {
        let d = digests::<H>(s.seed, s.n_trace as usize + s.n_fri as usize + s.n_added as usize + 1);
        let (t, rest) = d.split_at(s.n_trace as usize);
        let (c, rest) = rest.split_at(1);
        let (f, added) = rest.split_at(s.n_fri as usize);
        let mut x = Commitments::new::<H>(t.to_vec(), c[0], f.to_vec());
        for a in added {
            x.add::<H>(a);
        }
        x
    })
}

pub struct CommitmentsG;
impl Group for CommitmentsG {
    type Spec = CommSpec;
    const NAME: &'static str = "commitments";
    fn cases(tier: Tier) -> u64 {
        tier.pick(40_000, 600_000)
    }
    fn rule() -> String {
        "Commitments::new::<H> (+ add) for the six hashers (digests of 24, 31 and 32 bytes) with 0..2 trace roots and 0..23 / up to the largest number of FRI roots whose total stays below the 65535 bytes the writer asserts (65534 bytes exactly with 31-byte digests), and Commitments::default(); non-trivial = empty, or within one digest of the size limit".into()
    }
    fn required_labels() -> Vec<String> {
        vec!["size=max".into(), "size=65534".into()]
    }
    fn strategy(_t: Tier) -> BoxedStrategy<CommSpec> {
        comm_strategy()
    }
    fn check(s: &CommSpec, c: &Ctx, obs: &mut Obs) -> CheckResult {
        let total = (s.n_trace as usize + 1 + s.n_fri as usize + s.n_added as usize) * DIGEST_BYTES[s.hasher as usize % 6];
        obs.label(format!("hasher={}", HASHER_NAMES[s.hasher as usize % 6]));
        let near = total + DIGEST_BYTES[s.hasher as usize % 6] > 65534;
        if near {
            obs.label("size=max");
        }
        if total == 65534 {
            obs.label("size=65534");
        }
        obs.nontrivial_if(near || s.n_fri == 0);
        c.rt("Commitments", &build_comm(s), obs)?;
        if s.n_fri == 0 && s.n_trace == 0 {
            c.rt("Commitments::default", &Commitments::default(), obs)?;
        }
        Ok(())
    }
}

// QUERIES
// ================================================================================================

#[derive(Serialize, Deserialize, Clone, Debug)]
pub struct QSpec {
    pub hasher: u8,
    pub fk: FK,
    /// 1..=255
    pub n_queries: u8,
    /// 1..=255
    pub per_query: u8,
    /// number of digests in each node vector of the batch Merkle proof (at most 255 vectors of at most 255)
    pub node_lens: Vec<u8>,
    pub depth: u8,
    pub elems: Vec<Src>,
    pub seed: u64,
}

pub fn q_strategy() -> BoxedStrategy<QSpec> {
    let n = || prop_oneof![5 => 1u8..=8, 1 => Just(255u8), 1 => Just(254u8), 1 => 1u8..=255];
    let nodes = prop_oneof![
        1 => Just(vec![]),
        6 => prop::collection::vec(0u8..6, 0..10),
        1 => prop::collection::vec(prop_oneof![Just(0u8), Just(255u8), any::<u8>()], 0..4),
        1 => prop::collection::vec(0u8..3, 255),
    ];
    (0u8..6, fk_strategy(), n(), n(), nodes, any::<u8>(), any::<u64>())
        .prop_flat_map(|(hasher, fk, n_queries, per_query, node_lens, depth, seed)| {
            srcs_strategy(fk.base, 1..9).prop_map(move |elems| QSpec { hasher, fk, n_queries, per_query, node_lens: node_lens.clone(), depth, elems, seed })
        })
        .boxed()
}

fn build_queries_he<H: Hasher, E: FieldElement>(s: &QSpec) -> Queries
where
    E::BaseField: FA,
{
    let total: usize = s.node_lens.iter().map(|l| *l as usize).sum();
    let pool = digests::<H>(s.seed, total.max(1));
    let mut at = 0;
    let nodes: Vec<Vec<H::Digest>> = s
        .node_lens
        .iter()
        .map(|l| {
            let v = pool[at..at + *l as usize].to_vec();
            at += *l as usize;
            v
        })
        .collect();
    let proof = BatchMerkleProof::<H> { leaves: vec![], nodes, depth: s.depth };
    let all: Vec<E> = make_vec::<E>(&s.elems, s.n_queries as usize * s.per_query as usize);
    let values: Vec<Vec<E>> = all.chunks(s.per_query as usize).map(|c| c.to_vec()).collect();
    Queries::new::<H, E>(proof, values)
}

/// Queries built with a hasher over the elements' own base field, sent through bytes and DECODED
/// (`Queries::parse`): the node vectors, the hashed rows and the table of values must come back.
fn parse_q<H, E>(s: &QSpec) -> CheckResult
where
    E: FieldElement,
    E::BaseField: FA,
    H: ElementHasher<BaseField = E::BaseField>,
{
    use winter_utils::Serializable;
    let total: usize = s.node_lens.iter().map(|l| *l as usize).sum();
    let pool = digests::<H>(s.seed, total.max(1));
    let mut at = 0;
    let nodes: Vec<Vec<H::Digest>> = s
        .node_lens
        .iter()
        .map(|l| {
            let v = pool[at..at + *l as usize].to_vec();
            at += *l as usize;
            v
        })
        .collect();
    let all: Vec<E> = make_vec::<E>(&s.elems, s.n_queries as usize * s.per_query as usize);
    let values: Vec<Vec<E>> = all.chunks(s.per_query as usize).map(|c| c.to_vec()).collect();
    let q = Queries::new::<H, E>(BatchMerkleProof::<H> { leaves: vec![], nodes: nodes.clone(), depth: s.depth }, values.clone());
    let back = Queries::read_from_bytes(&q.to_bytes()).map_err(|e| Fail::new("Queries/decode-refused", format!("{e:?}")))?;
    let depth = 1 + s.depth % 20;
    let name = std::any::type_name::<H>().rsplit("::").next().unwrap_or("").to_string();
    let (proof, table) = vf_core::catch(|| back.parse::<H, E>(1usize << depth, s.n_queries as usize, s.per_query as usize))
        .map_err(|p| Fail::new(format!("Queries/parse/{}", p.key()), p.msg.clone()))?
        .map_err(|e| {
            Fail::new(
                "Queries/parse-refused",
                format!("{name}: a query set built by Queries::new ({} queries x {} values, node vectors {:?}) cannot be decoded: {e:?}", s.n_queries, s.per_query, s.node_lens),
            )
        })?;
    vf_core::ensure!(proof.nodes == nodes, "Queries/parse/nodes", "{name}: parsed authentication nodes differ from the ones handed to Queries::new");
    vf_core::ensure!(proof.depth == depth, "Queries/parse/depth", "{name}: parsed depth {} for a domain of 2^{depth}", proof.depth);
    let leaves: Vec<H::Digest> = values.iter().map(|r| H::hash_elements(r)).collect();
    vf_core::ensure!(proof.leaves == leaves, "Queries/parse/leaves", "{name}: parsed leaves are not the hashes of the query rows");
    vf_core::ensure!(
        table.num_rows() == values.len() && (0..values.len()).all(|i| table.get_row(i) == &values[i][..]),
        "Queries/parse/values",
        "{name}: parsed table of values differs from the values handed to Queries::new"
    );
    Ok(())
}

/// the Rescue hashers exist over one base field each
pub trait RescueOver: FA {
    fn parse_rescue<E: FieldElement<BaseField = Self>>(which: u8, s: &QSpec) -> Option<CheckResult>;
}
impl RescueOver for B62 {
    fn parse_rescue<E: FieldElement<BaseField = Self>>(which: u8, s: &QSpec) -> Option<CheckResult> {
        (which == 5).then(|| parse_q::<winter_crypto::hashers::Rp62_248, E>(s))
    }
}
impl RescueOver for B64 {
    fn parse_rescue<E: FieldElement<BaseField = Self>>(which: u8, s: &QSpec) -> Option<CheckResult> {
        match which {
            3 => Some(parse_q::<winter_crypto::hashers::Rp64_256, E>(s)),
            4 => Some(parse_q::<winter_crypto::hashers::RpJive64_256, E>(s)),
            _ => None,
        }
    }
}
impl RescueOver for B128 {
    fn parse_rescue<E: FieldElement<BaseField = Self>>(_which: u8, _s: &QSpec) -> Option<CheckResult> {
        None
    }
}

fn parse_dispatch<E>(s: &QSpec, obs: &mut Obs) -> CheckResult
where
    E: FieldElement,
    E::BaseField: RescueOver,
{
    use winter_crypto::hashers::{Blake3_192, Blake3_256, Sha3_256};
    if let Some(r) = <E::BaseField as RescueOver>::parse_rescue::<E>(s.hasher, s) {
        obs.label("parsed-with=rescue-hasher");
        return r;
    }
    obs.label("parsed-with=byte-hasher");
    match s.hasher % 3 {
        0 => parse_q::<Blake3_256<E::BaseField>, E>(s),
        1 => parse_q::<Blake3_192<E::BaseField>, E>(s),
        _ => parse_q::<Sha3_256<E::BaseField>, E>(s),
    }
}

pub fn build_queries(s: &QSpec) -> Queries {
    with_hasher!(s.hasher, H => with_field!(s.fk, E => build_queries_he::<H, E>(s)))
}

fn q_boundary(s: &QSpec) -> bool {
    s.n_queries == 1 || s.n_queries >= 254 || s.per_query == 1 || s.per_query >= 254 || s.node_lens.is_empty() || s.node_lens.len() == 255 || s.node_lens.iter().any(|l| *l == 0 || *l == 255)
}

pub struct QueriesG;
impl Group for QueriesG {
    const REDUCED_MAX: u64 = 0;
    type Spec = QSpec;
    const NAME: &'static str = "queries";
    fn cases(tier: Tier) -> u64 {
        tier.pick(30_000, 500_000)
    }
    fn rule() -> String {
        "Queries::new::<H,E>(BatchMerkleProof{nodes}, values): 1..255 queries x 1..255 evaluations (1..8 and 254/255 weighted) of any of the 8 element types, node vectors 0..255 of 0..255 digests of any of the six hashers (empty, 255 vectors, vectors of 0 and 255 digests weighted); the set is also rebuilt with a hasher over the elements' own base field (all six hashers), sent through bytes and decoded with Queries::parse: nodes, hashed rows and values must come back; non-trivial = a count at 0/1/254/255".into()
    }
    fn required_labels() -> Vec<String> {
        vec!["queries=255".into(), "per-query=255".into(), "node-vectors=255".into(), "node-vectors=0".into(), "parsed-with=rescue-hasher".into(), "parsed-with=byte-hasher".into()]
    }
    fn strategy(_t: Tier) -> BoxedStrategy<QSpec> {
        q_strategy()
    }
    fn check(s: &QSpec, c: &Ctx, obs: &mut Obs) -> CheckResult {
        if s.n_queries == 255 {
            obs.label("queries=255");
        }
        if s.per_query == 255 {
            obs.label("per-query=255");
        }
        if s.node_lens.len() == 255 {
            obs.label("node-vectors=255");
        }
        if s.node_lens.is_empty() {
            obs.label("node-vectors=0");
        }
        obs.nontrivial_if(q_boundary(s) || srcs_boundary(s.fk.base, &s.elems));
        c.rt("Queries", &build_queries(s), obs)?;
        // decoding proper: the same specification with a hasher over the elements' own field, parsed back
        with_field!(s.fk, E => parse_dispatch::<E>(s, obs))
    }
}

// OOD FRAME
// ================================================================================================

#[derive(Serialize, Deserialize, Clone, Debug)]
pub struct OodSpec {
    pub fk: FK,
    pub set_trace: bool,
    pub set_evals: bool,
    /// total number of columns (main + aux) 0..=255
    pub cols: u8,
    pub main_width: u8,
    /// Lagrange kernel frame length (None = no frame), at most 254
    pub lagrange: Option<u8>,
    pub n_evals: u32,
    pub elems: Vec<Src>,
}

fn elem_bytes(fk: FK) -> usize {
    [8usize, 8, 16][fk.base as usize % 3] * fk.ext as usize
}

pub fn ood_strategy(allow_big: bool) -> BoxedStrategy<OodSpec> {
    let cols = prop_oneof![4 => 0u8..=8, 1 => Just(255u8), 1 => Just(254u8), 2 => any::<u8>()];
    let lag = prop_oneof![4 => Just(None), 3 => (0u8..=33).prop_map(Some), 1 => Just(Some(254u8)), 1 => (0u8..=254).prop_map(Some)];
    // number of constraint evaluations: honest range, the largest count whose bytes fit the u16
    // length prefix, and (class "evals>65535B") counts beyond it, which the setter accepts as well
    let evals = prop_oneof![
        40 => (1u32..=8).prop_map(|n| (n, 0u8)),
        10 => (1u32..=128).prop_map(|n| (n, 0u8)),
        5 => Just((0u32, 1u8)),
        if allow_big { 1 } else { 0 } => (0u32..3).prop_map(|k| (k, 2u8)),
    ];
    (fk_strategy(), any::<bool>(), any::<bool>(), cols, any::<u8>(), lag, evals)
        .prop_flat_map(|(fk, set_trace, set_evals, cols, mw, lagrange, (n, mode))| {
            let fit = (65535 / elem_bytes(fk)) as u32;
            let n_evals = match mode {
                0 => n,
                1 => fit,
                _ => fit + 1 + n * 1000,
            };
            srcs_strategy(fk.base, 1..9).prop_map(move |elems| OodSpec {
                fk,
                set_trace,
                set_evals,
                cols,
                main_width: if cols == 0 { 0 } else { mw % cols + 1 },
                lagrange,
                n_evals,
                elems,
            })
        })
        .boxed()
}

fn build_ood_e<E: FieldElement>(s: &OodSpec) -> OodFrame
where
    E::BaseField: FA + StarkField,
    winter_crypto::hashers::Blake3_256<E::BaseField>: ElementHasher<BaseField = E::BaseField>,
{
    let mut f = OodFrame::default();
    if s.set_trace {
        let all = make_vec::<E>(&s.elems, 2 * s.cols as usize + s.lagrange.unwrap_or(0) as usize);
        let (cur, rest) = all.split_at(s.cols as usize);
        let (next, lag) = rest.split_at(s.cols as usize);
        let lk = s.lagrange.map(|_| LagrangeKernelEvaluationFrame::new(lag.to_vec()));
        let frame = TraceOodFrame::new(cur.to_vec(), next.to_vec(), s.main_width as usize, lk);
        let _ = f.set_trace_states::<E, winter_crypto::hashers::Blake3_256<E::BaseField>>(&frame);
    }
    if s.set_evals {
        // cycled elements: a large evaluation vector does not need large case data
        let base = make_vec::<E>(&s.elems, (s.n_evals as usize).min(16));
        let ev: Vec<E> = (0..s.n_evals as usize).map(|i| base[i % base.len()]).collect();
        f.set_constraint_evaluations(&ev);
    }
    f
}

pub fn build_ood(s: &OodSpec) -> OodFrame {
    with_field!(s.fk, E => build_ood_e::<E>(s))
}

fn ood_big(s: &OodSpec) -> bool {
    s.set_evals && s.n_evals as usize * elem_bytes(s.fk) > 65535
}

pub struct OodG;
impl Group for OodG {
    const REDUCED_MAX: u64 = 64;
    type Spec = OodSpec;
    const NAME: &'static str = "ood";
    fn cases(tier: Tier) -> u64 {
        tier.pick(40_000, 600_000)
    }
    fn rule() -> String {
        "OodFrame::default() optionally followed by set_trace_states (0..255 columns, 0..8 and 254/255 weighted; optional Lagrange kernel frame of 0..254 values) and set_constraint_evaluations (1..128 evaluations, the largest count whose bytes fit the 16-bit length prefix, and - class evals>65535B, which the setter also accepts - counts just beyond it) over the 8 element types; non-trivial = empty part, 0/254/255 columns, Lagrange frame of 0 or 254, or an evaluation count at/over the prefix limit".into()
    }
    fn required_labels() -> Vec<String> {
        vec!["state=default".into(), "state=trace+evals".into(), "cols=255".into(), "lagrange=some".into(), "evals=max-fitting".into()]
    }
    fn strategy(_t: Tier) -> BoxedStrategy<OodSpec> {
        ood_strategy(true)
    }
    fn check(s: &OodSpec, c: &Ctx, obs: &mut Obs) -> CheckResult {
        let big = ood_big(s);
        if big {
            obs.label("evals>65535B");
            if c.excl.ood_evals_big && !super::keep_known(s.n_evals as u64 + s.cols as u64 + s.elems.len() as u64) {
                obs.label("skipped-known:evals>65535B");
                return Ok(());
            }
        }
        obs.label(match (s.set_trace, s.set_evals) {
            (false, false) => "state=default",
            (true, false) => "state=trace-only",
            (false, true) => "state=evals-only",
            (true, true) => "state=trace+evals",
        });
        if s.set_trace && s.cols == 255 {
            obs.label("cols=255");
        }
        if s.set_trace && s.lagrange.is_some() {
            obs.label("lagrange=some");
        }
        let fit = s.set_evals && s.n_evals as usize == 65535 / elem_bytes(s.fk);
        if fit {
            obs.label("evals=max-fitting");
        }
        obs.nontrivial_if(
            !s.set_trace || !s.set_evals || s.cols == 0 || s.cols >= 254 || matches!(s.lagrange, Some(0) | Some(254)) || fit || big || srcs_boundary(s.fk.base, &s.elems),
        );
        if big {
            // beyond the 16-bit length prefix: either the setter refuses the vector (then it is not a
            // value the constructors accept) or the frame must survive the round trip
            return match vf_core::catch(|| build_ood(s)) {
                Ok(x) => c.rt("OodFrame(evals>65535B)", &x, obs),
                Err(_) => {
                    obs.label("evals>65535B:refused-by-setter");
                    Ok(())
                },
            };
        }
        c.rt("OodFrame", &build_ood(s), obs)
    }
}

// FRI PROOF
// ================================================================================================

#[derive(Serialize, Deserialize, Clone, Debug)]
pub enum FriSpec {
    Dummy,
    /// produced by FriProver over a domain of 2^log_n evaluations
    Prover { fk: FK, h192: bool, log_n: u8, log_blowup: u8, log_fold: u8, log_rem: u8, positions: Vec<u16>, elems: Vec<Src> },
    /// decoded from an encoding laid out by the harness (FriProof has no public constructor):
    /// layers of (value bytes >= 1, path bytes), remainder bytes, partition byte
    Bytes { layers: Vec<(Bytes, Bytes)>, remainder: Bytes, partitions: u8 },
}

/// the schedule FriProver follows; None if some layer would have fewer than 2 leaves or the
/// remainder fewer than 2 evaluations / less than one coefficient (the prover's own asserts)
fn fri_layers(log_n: u8, log_blowup: u8, log_fold: u8, log_rem: u8) -> Option<usize> {
    let mut dom = 1usize << log_n;
    let max_rem = (1usize << log_rem) << log_blowup;
    let mut layers = 0;
    while dom > max_rem {
        if (dom >> log_fold) < 2 {
            return None;
        }
        dom >>= log_fold;
        layers += 1;
    }
    if dom < 2 || dom >> log_blowup == 0 {
        return None;
    }
    Some(layers)
}

pub fn fri_strategy() -> BoxedStrategy<FriSpec> {
    let prover = (fk_strategy(), any::<bool>(), 3u8..=10, 1u8..=3, 1u8..=4, 0u8..=5, prop::collection::vec(any::<u16>(), 1..12))
        .prop_flat_map(|(fk, h192, log_n, log_blowup, log_fold, log_rem, positions)| {
            srcs_strategy(fk.base, 1..9).prop_map(move |elems| {
                let (mut lb, mut lf, mut lr) = (log_blowup, log_fold, log_rem);
                // fall back to the always well-formed schedule (blowup 2, folding 2, constant remainder... ) when needed
                if fri_layers(log_n, lb, lf, lr).is_none() {
                    lb = 1;
                    lf = 1;
                    lr = 1;
                }
                FriSpec::Prover { fk, h192, log_n, log_blowup: lb, log_fold: lf, log_rem: lr, positions: positions.clone(), elems }
            })
        });
    let layer = (
        prop_oneof![
            12 => prop::collection::vec(any::<u8>(), 1..40).prop_map(Bytes::Lit),
            1 => (1u32..70_000, fill_strategy()).prop_map(|(n, f)| Bytes::Fill(n, f)),
        ],
        bytes_strategy(70_000),
    );
    let bytes = (
        prop_oneof![18 => prop::collection::vec(layer.clone(), 0..5), 1 => prop::collection::vec(layer.clone(), 255), 1 => prop::collection::vec(layer, 250..255)],
        prop_oneof![
            4 => prop::collection::vec(any::<u8>(), 0..64).prop_map(Bytes::Lit),
            1 => (prop::sample::select(vec![0u32, 65534, 65535, 4096, 8192]), fill_strategy()).prop_map(|(n, f)| Bytes::Fill(n, f)),
            1 => (0u32..=65535, fill_strategy()).prop_map(|(n, f)| Bytes::Fill(n, f)),
        ],
        // stored as log2 of the partition count: FriProof::new accepts any power of two that fits usize
        prop_oneof![Just(0u8), Just(63u8), 0u8..=63],
    )
        .prop_map(|(layers, remainder, partitions)| FriSpec::Bytes { layers, remainder, partitions });
    prop_oneof![1 => Just(FriSpec::Dummy), 6 => prover, 5 => bytes].boxed()
}

fn prove_fri<E, H>(log_n: u8, lb: u8, lf: u8, lr: u8, positions: &[u16], elems: &[Src]) -> FriProof
where
    E: FieldElement,
    E::BaseField: FA + StarkField,
    H: ElementHasher<BaseField = E::BaseField>,
{
    let n = 1usize << log_n;
    let opts = FriOptions::new(1 << lb, 1 << lf, (1 << lr) - 1);
    let mut channel = DefaultProverChannel::<E, H, DefaultRandomCoin<H>>::new(n, 1);
    let mut prover = FriProver::<E::BaseField, E, _, H>::new(opts);
    // any evaluation vector is accepted by the prover (it does not check the degree)
    let base = make_vec::<E>(elems, 16.min(n));
    let evals: Vec<E> = (0..n).map(|i| base[i % base.len()] + E::from(i as u32)).collect();
    prover.build_layers(&mut channel, evals);
    let mut pos: Vec<usize> = positions.iter().map(|p| *p as usize % n).collect();
    pos.sort();
    pos.dedup();
    prover.build_proof(&pos)
}

pub fn build_fri(s: &FriSpec) -> Result<FriProof, Fail> {
    Ok(match s {
        FriSpec::Dummy => FriProof::new_dummy(),
        FriSpec::Prover { fk, h192, log_n, log_blowup, log_fold, log_rem, positions, elems } => {
            use winter_crypto::hashers::{Blake3_192, Blake3_256};
            with_field!(fk, E => {
                if *h192 {
                    prove_fri::<E, Blake3_192<<E as FieldElement>::BaseField>>(*log_n, *log_blowup, *log_fold, *log_rem, positions, elems)
                } else {
                    prove_fri::<E, Blake3_256<<E as FieldElement>::BaseField>>(*log_n, *log_blowup, *log_fold, *log_rem, positions, elems)
                }
            })
        },
        FriSpec::Bytes { layers, remainder, partitions } => {
            let mut b = vec![layers.len() as u8];
            for (v, p) in layers {
                let (v, p) = (v.get(), p.get());
                b.extend_from_slice(&(v.len() as u32).to_le_bytes());
                b.extend_from_slice(&v);
                b.extend_from_slice(&(p.len() as u32).to_le_bytes());
                b.extend_from_slice(&p);
            }
            let r = remainder.get();
            b.extend_from_slice(&(r.len() as u16).to_le_bytes());
            b.extend_from_slice(&r);
            b.push(*partitions);
            FriProof::read_from_bytes(&b).map_err(|e| Fail::new("FriProof/documented-layout-refused", format!("bytes written by the documented FriProof layout (u8 layers | per layer u32 len, values, u32 len, nodes | u16 len, remainder | u8 log2 partitions) were refused: {e:?}")))?
        },
    })
}

pub struct FriG;
impl Group for FriG {
    const REDUCED_MAX: u64 = 0;
    type Spec = FriSpec;
    const NAME: &'static str = "fri";
    fn cases(tier: Tier) -> u64 {
        tier.pick(20_000, 300_000)
    }
    fn rule() -> String {
        "FriProof from (a) FriProof::new_dummy, (b) FriProver::build_layers/build_proof over domains 2^3..2^10, blowup 2..8, folding 2..16, remainder degree 0..31, 1..11 query positions, Blake3_256/Blake3_192, 8 element types (only well-formed schedules), (c) values decoded from harness-laid-out encodings (0..4, 250..255 layers; value/path blocks 1..40 bytes literal or up to 70 kB; remainder 0, 4096, 8192, 65534, 65535 or arbitrary 0..65535 bytes; partition exponent 0..63); non-trivial = dummy, 0 or 255 layers, remainder of 0/65534/65535 bytes, partition exponent 0/63, or a prover proof with 0 layers".into()
    }
    fn required_labels() -> Vec<String> {
        vec!["origin=dummy".into(), "origin=prover".into(), "origin=bytes".into(), "layers=255".into(), "remainder=65535B".into(), "prover-layers=0".into(), "prover-layers>=2".into()]
    }
    fn strategy(_t: Tier) -> BoxedStrategy<FriSpec> {
        fri_strategy()
    }
    fn check(s: &FriSpec, c: &Ctx, obs: &mut Obs) -> CheckResult {
        fri_labels(s, obs);
        let x = match vf_core::catch(|| build_fri(s)) {
            Ok(r) => r?,
            Err(p) => return Err(Fail::new("harness/fri-build", format!("building the FriProof panicked: {} at {}:{}", p.msg, p.file, p.line))),
        };
        c.rt("FriProof", &x, obs)?;
        // decoding proper: what an honest prover produced must parse into its layers and its remainder
        if let FriSpec::Prover { fk, h192, log_n, log_fold, .. } = s {
            use winter_crypto::hashers::{Blake3_192, Blake3_256};
            use winter_utils::Serializable;
            let back = FriProof::read_from_bytes(&x.to_bytes()).map_err(|e| Fail::new("FriProof/decode-refused", format!("{e:?}")))?;
            let (n, folding) = (1usize << *log_n, 1usize << *log_fold);
            let layers = x.num_layers();
            let r: Result<usize, String> = with_field!(fk, E => {
                if *h192 {
                    fri_parse::<E, Blake3_192<<E as FieldElement>::BaseField>>(back, n, folding)
                } else {
                    fri_parse::<E, Blake3_256<<E as FieldElement>::BaseField>>(back, n, folding)
                }
            });
            match r {
                Ok(l) => vf_core::ensure!(l == layers, "FriProof/parse/layers", "parse_layers returned {l} layers for a proof of {layers}"),
                Err(e) => {
                    return Err(Fail::new(
                        "FriProof/parse-refused",
                        format!("a proof made by FriProver (domain {n}, folding {folding}, {layers} layers) cannot be decoded: {e}"),
                    ))
                },
            }
        }
        Ok(())
    }
}

fn fri_parse<E, H>(proof: FriProof, n: usize, folding: usize) -> Result<usize, String>
where
    E: FieldElement,
    H: ElementHasher<BaseField = E::BaseField>,
{
    let rem = proof.clone();
    let r = vf_core::catch(|| proof.parse_layers::<H, E>(n, folding)).map_err(|p| format!("parse_layers panicked: {}", p.msg))?;
    let (values, proofs) = r.map_err(|e| format!("parse_layers: {e:?}"))?;
    if values.len() != proofs.len() {
        return Err("parse_layers: numbers of value sets and openings differ".into());
    }
    vf_core::catch(|| rem.parse_remainder::<E>()).map_err(|p| format!("parse_remainder panicked: {}", p.msg))?.map_err(|e| format!("parse_remainder: {e:?}"))?;
    Ok(values.len())
}

fn fri_labels(s: &FriSpec, obs: &mut Obs) {
    match s {
        FriSpec::Dummy => {
            obs.label("origin=dummy");
            obs.nontrivial();
        },
        FriSpec::Prover { log_n, log_blowup, log_fold, log_rem, .. } => {
            obs.label("origin=prover");
            let l = fri_layers(*log_n, *log_blowup, *log_fold, *log_rem).unwrap_or(0);
            obs.label(match l {
                0 => "prover-layers=0",
                1 => "prover-layers=1",
                _ => "prover-layers>=2",
            });
            obs.nontrivial_if(l == 0);
        },
        FriSpec::Bytes { layers, remainder, partitions } => {
            obs.label("origin=bytes");
            if layers.len() == 255 {
                obs.label("layers=255");
            }
            if remainder.len() == 65535 {
                obs.label("remainder=65535B");
            }
            obs.nontrivial_if(layers.is_empty() || layers.len() == 255 || [0, 65534, 65535].contains(&remainder.len()) || *partitions == 0 || *partitions == 63);
        },
    }
}

// PROOF
// ================================================================================================

#[derive(Serialize, Deserialize, Clone, Debug)]
pub enum ProofSpec {
    Dummy,
    Parts {
        ctx: CtxSpec,
        unique_queries: u8,
        comm: CommSpec,
        /// one per trace segment (the generator supplies two, the builder keeps num_segments)
        trace_q: Vec<QSpec>,
        constraint_q: QSpec,
        ood: OodSpec,
        fri: FriSpec,
        nonce: u64,
        gkr: Option<Bytes>,
    },
}

pub fn proof_strategy() -> BoxedStrategy<ProofSpec> {
    let parts = (
        ctx_strategy(),
        prop_oneof![Just(0u8), Just(255u8), any::<u8>()],
        comm_strategy(),
        prop::collection::vec(q_strategy(), 2),
        q_strategy(),
        ood_strategy(false),
        fri_strategy(),
        prop_oneof![Just(0u64), Just(u64::MAX), any::<u64>()],
        prop::option::of(bytes_strategy(70_000)),
    )
        .prop_map(|(ctx, unique_queries, comm, trace_q, constraint_q, ood, fri, nonce, gkr)| ProofSpec::Parts {
            ctx,
            unique_queries,
            comm,
            trace_q,
            constraint_q,
            ood,
            fri,
            nonce,
            gkr,
        });
    prop_oneof![1 => Just(ProofSpec::Dummy), 40 => parts].boxed()
}

pub struct ProofG;
impl Group for ProofG {
    const REDUCED_MAX: u64 = 16;
    type Spec = ProofSpec;
    const NAME: &'static str = "proof";
    fn cases(tier: Tier) -> u64 {
        tier.pick(15_000, 200_000)
    }
    fn rule() -> String {
        "whole Proof values: Proof::new_dummy(), and Proof{..} assembled through its public fields from independently generated Context, Commitments, one Queries per trace segment (1 or 2, as the reader expects), constraint Queries, OodFrame (evaluation bytes within the 16-bit prefix), FriProof, pow_nonce in {0, max, uniform}, num_unique_queries in {0,255,uniform}, gkr_proof None / Some(0..70 kB); non-trivial = dummy, or any part non-trivial by its own rule, or gkr Some(empty)".into()
    }
    fn required_labels() -> Vec<String> {
        vec!["origin=new_dummy".into(), "segments=1".into(), "segments=2".into(), "gkr=none".into(), "gkr=some".into()]
    }
    fn strategy(_t: Tier) -> BoxedStrategy<ProofSpec> {
        proof_strategy()
    }
    fn check(s: &ProofSpec, c: &Ctx, obs: &mut Obs) -> CheckResult {
        match s {
            ProofSpec::Dummy => {
                obs.label("origin=new_dummy");
                obs.nontrivial();
                c.rt("Proof::new_dummy", &Proof::new_dummy(), obs)
            },
            ProofSpec::Parts { ctx, unique_queries, comm, trace_q, constraint_q, ood, fri, nonce, gkr } => {
                if let Some(l) = ti_excluded(&ctx.ti, &c.excl) {
                    obs.label(l);
                    return Ok(());
                }
                obs.label("origin=parts");
                let mut nt = ti_labels(&ctx.ti, obs) | opt_boundary(&ctx.opts) | q_boundary(constraint_q);
                let segs = if ctx.ti.aux > 0 { 2 } else { 1 };
                obs.label(format!("segments={segs}"));
                obs.label(if gkr.is_some() { "gkr=some" } else { "gkr=none" });
                nt |= matches!(gkr, Some(b) if b.len() == 0) || *nonce == 0 || *nonce == u64::MAX;
                let mut o = Obs::default();
                fri_labels(fri, &mut o);
                let built = vf_core::catch(|| -> Result<Proof, Fail> {
                    Ok(Proof {
                        context: build_ctx(ctx),
                        num_unique_queries: *unique_queries,
                        commitments: build_comm(comm),
                        trace_queries: trace_q.iter().take(segs).map(build_queries).collect(),
                        constraint_queries: build_queries(constraint_q),
                        ood_frame: build_ood(ood),
                        fri_proof: build_fri(fri)?,
                        pow_nonce: *nonce,
                        gkr_proof: gkr.as_ref().map(|b| b.get()),
                    })
                });
                let x = match built {
                    Ok(r) => r?,
                    Err(p) => return Err(Fail::new("harness/proof-build", format!("assembling the proof panicked: {} at {}:{}", p.msg, p.file, p.line))),
                };
                obs.nontrivial_if(nt);
                c.rt("Proof", &x, obs)
            },
        }
    }
}

pub fn run(run: &mut Run, excl: Excl, reduced: bool) {
    // the whole ProofOptions space, exhaustively, through the in-memory readers
    let ctx_excl = excl;
    let full = run.tier == Tier::Thorough;
    run.enumerate(
        "mem/options-all",
        "every ProofOptions value the constructor accepts (255 x 7 x 33 x 3 x 4 x 9 = 6,361,740; quick tier: the sub-lattice with queries in {1,2,3,127,128,129,253,254,255}) through SliceReader and Cursor; non-trivial = some parameter at an extreme",
        true,
        all_options().filter(move |o| full || [1, 2, 3, 127, 128, 129, 253, 254, 255].contains(&o.queries)),
        move |s: &OptSpec, obs: &mut Obs| {
            let c = Ctx { rd: Rd::Mem, chunks: &[], excl: ctx_excl };
            obs.nontrivial_if(opt_boundary(s));
            c.rt("ProofOptions", &build_opts(s), obs)
        },
    );
    run.sub(&Rt::<OptionsG>::new(Rd::Mem, excl, false));
    run.sub(&Rt::<TraceInfoG>::new(Rd::Mem, excl, false));
    run.sub(&Rt::<ContextG>::new(Rd::Mem, excl, false));
    run.sub(&Rt::<CommitmentsG>::new(Rd::Mem, excl, false));
    run.sub(&Rt::<QueriesG>::new(Rd::Mem, excl, false));
    run.sub(&Rt::<OodG>::new(Rd::Mem, excl, false));
    run.sub(&Rt::<FriG>::new(Rd::Mem, excl, false));
    run.sub(&Rt::<ProofG>::new(Rd::Mem, excl, false));
    run.sub(&Rt::<OptionsG>::new(Rd::Adapter, excl, reduced));
    run.sub(&Rt::<TraceInfoG>::new(Rd::Adapter, excl, reduced));
    run.sub(&Rt::<ContextG>::new(Rd::Adapter, excl, reduced));
    run.sub(&Rt::<CommitmentsG>::new(Rd::Adapter, excl, reduced));
    run.sub(&Rt::<QueriesG>::new(Rd::Adapter, excl, reduced));
    run.sub(&Rt::<OodG>::new(Rd::Adapter, excl, reduced));
    run.sub(&Rt::<FriG>::new(Rd::Adapter, excl, reduced));
    run.sub(&Rt::<ProofG>::new(Rd::Adapter, excl, reduced));
}
