//! C13 — the streaming byte reader (`ReadAdapter`) is equivalent to the in-memory reader.
//!
//! Stateful, model based: one case = (byte stream, chunking of the underlying `std::io::Read`
//! source, operation sequence). The same operations are applied step by step to
//!   * the model: `SliceReader` over the whole byte string,
//!   * `std::io::Cursor` (second in-memory reader of /repo; must agree with the model exactly),
//!   * `ReadAdapter` over a `Chunked` source that hands the same bytes out in the chosen chunks.
//! After every step: identical `Ok` values; an error on one side must be an error of the same
//! variant on the other side at the same step (the sequence stops there, the trait leaves the
//! position after an error unspecified); `check_eor(n)`: an adapter error implies a model error
//! (the adapter may be optimistic in the other direction only); at the end all readers are drained
//! and the remaining bytes compared (every byte consumed exactly once). A panic is a violation.
//!
//! The byte stream is generated *together with* the operations (each operation contributes the
//! payload it will consume: a valid vint64 for read_usize, 0/1 for read_bool, UTF-8 for
//! read_string, ...), then optionally truncated or extended, so that long sequences usually run to
//! their end instead of stopping at the first InvalidValue.

use proptest::prelude::*;
use serde::{Deserialize, Serialize};
use std::io::Cursor;
use vf_core::{ensure, CheckResult, Fail, Obs, Run, SubCheck, Tier};
use winter_utils::{ByteReader, DeserializationError, ReadAdapter, SliceReader};

use crate::chunked::{chunk_class, chunk_strategy, Chunked};

// OPERATIONS
// ================================================================================================

#[derive(Serialize, Deserialize, Clone, Debug, PartialEq)]
pub enum Op {
    ReadU8,
    PeekU8,
    ReadBool,
    ReadU16,
    ReadU32,
    ReadU64,
    ReadU128,
    ReadUsize,
    /// read_slice(n); n is a u64 so that requests close to usize::MAX can be expressed
    ReadSlice(u64),
    /// read_array::<N>() for N in {0, 1, 8, 16, 32, 300}
    ReadArray(u16),
    ReadVec(u64),
    ReadString(u16),
    ManyU8(u16),
    ManyU64(u16),
    ManyPair(u16),
    CheckEor(u64),
    HasMore,
}

#[derive(Clone, Copy, PartialEq, Eq, Debug)]
enum Family {
    Byte,
    Array,
    Slice,
    Eor,
    HasMore,
}

impl Op {
    fn name(&self) -> &'static str {
        match self {
            Op::ReadU8 => "read_u8",
            Op::PeekU8 => "peek_u8",
            Op::ReadBool => "read_bool",
            Op::ReadU16 => "read_u16",
            Op::ReadU32 => "read_u32",
            Op::ReadU64 => "read_u64",
            Op::ReadU128 => "read_u128",
            Op::ReadUsize => "read_usize",
            Op::ReadSlice(_) => "read_slice",
            Op::ReadArray(_) => "read_array",
            Op::ReadVec(_) => "read_vec",
            Op::ReadString(_) => "read_string",
            Op::ManyU8(_) => "read_many<u8>",
            Op::ManyU64(_) => "read_many<u64>",
            Op::ManyPair(_) => "read_many<(u8,u16)>",
            Op::CheckEor(_) => "check_eor",
            Op::HasMore => "has_more_bytes",
        }
    }
    /// which adapter mechanism serves the operation
    fn family(&self) -> Family {
        match self {
            Op::ReadU8 | Op::PeekU8 | Op::ReadBool | Op::ManyU8(_) => Family::Byte,
            Op::ReadU16 | Op::ReadU32 | Op::ReadU64 | Op::ReadU128 | Op::ReadArray(_) | Op::ManyU64(_) | Op::ManyPair(_) => {
                Family::Array
            },
            Op::ReadUsize | Op::ReadSlice(_) | Op::ReadVec(_) | Op::ReadString(_) => Family::Slice,
            Op::CheckEor(_) => Family::Eor,
            Op::HasMore => Family::HasMore,
        }
    }
    fn family_name(&self) -> &'static str {
        match self.family() {
            Family::Byte => "byte",
            Family::Array => "array",
            Family::Slice => "slice",
            Family::Eor => "eor",
            Family::HasMore => "has_more",
        }
    }
    fn is_huge(&self) -> bool {
        matches!(self, Op::ReadSlice(n) | Op::ReadVec(n) | Op::CheckEor(n) if *n > 1 << 32)
    }
}

#[derive(Clone, Debug, PartialEq)]
enum Val {
    U8(u8),
    Bool(bool),
    U16(u16),
    U32(u32),
    U64(u64),
    U128(u128),
    Bytes(Vec<u8>),
    Str(String),
    U64s(Vec<u64>),
    Pairs(Vec<(u8, u16)>),
    Unit,
}

fn kind(e: &DeserializationError) -> &'static str {
    match e {
        DeserializationError::InvalidValue(_) => "InvalidValue",
        DeserializationError::UnexpectedEOF => "UnexpectedEOF",
        DeserializationError::UnconsumedBytes => "UnconsumedBytes",
        DeserializationError::UnknownError(_) => "UnknownError",
    }
}

fn apply<R: ByteReader>(r: &mut R, op: &Op) -> Result<Val, DeserializationError> {
    Ok(match op {
        Op::ReadU8 => Val::U8(r.read_u8()?),
        Op::PeekU8 => Val::U8(r.peek_u8()?),
        Op::ReadBool => Val::Bool(r.read_bool()?),
        Op::ReadU16 => Val::U16(r.read_u16()?),
        Op::ReadU32 => Val::U32(r.read_u32()?),
        Op::ReadU64 => Val::U64(r.read_u64()?),
        Op::ReadU128 => Val::U128(r.read_u128()?),
        Op::ReadUsize => Val::U64(r.read_usize()? as u64),
        Op::ReadSlice(n) => Val::Bytes(r.read_slice(*n as usize)?.to_vec()),
        Op::ReadArray(n) => Val::Bytes(match n {
            0 => r.read_array::<0>()?.to_vec(),
            1 => r.read_array::<1>()?.to_vec(),
            8 => r.read_array::<8>()?.to_vec(),
            16 => r.read_array::<16>()?.to_vec(),
            32 => r.read_array::<32>()?.to_vec(),
            _ => r.read_array::<300>()?.to_vec(),
        }),
        Op::ReadVec(n) => Val::Bytes(r.read_vec(*n as usize)?),
        Op::ReadString(n) => Val::Str(r.read_string(*n as usize)?),
        Op::ManyU8(n) => Val::Bytes(r.read_many::<u8>(*n as usize)?),
        Op::ManyU64(n) => Val::U64s(r.read_many::<u64>(*n as usize)?),
        Op::ManyPair(n) => Val::Pairs(r.read_many::<(u8, u16)>(*n as usize)?),
        Op::CheckEor(n) => {
            r.check_eor(*n as usize)?;
            Val::Unit
        },
        Op::HasMore => Val::Bool(r.has_more_bytes()),
    })
}

// CASES
// ================================================================================================

#[derive(Serialize, Deserialize, Clone, Debug)]
pub struct SeqCase {
    /// the byte stream, hex
    pub data: String,
    /// chunk sizes of the underlying source (cycled; empty = one big chunk)
    pub chunks: Vec<u16>,
    pub ops: Vec<Op>,
    /// go on with the remaining operations after one has failed (a failed read leaves the in-memory
    /// reader where it was, so the sequence stays comparable); false = stop at the first error
    #[serde(default)]
    pub keep_going: bool,
}

/// vint64 encoding written from its specification (number of trailing zero bits of the first byte =
/// number of additional bytes; first byte 0 = eight bytes follow)
pub fn vint64(v: u64) -> Vec<u8> {
    let bits = 64 - v.leading_zeros() as usize;
    let len = if bits <= 7 { 1 } else { bits.div_ceil(7) };
    if len > 8 {
        let mut out = vec![0u8];
        out.extend_from_slice(&v.to_le_bytes());
        out
    } else {
        let enc = ((v << 1) | 1) << (len - 1);
        enc.to_le_bytes()[..len].to_vec()
    }
}

pub fn usize_boundaries() -> Vec<u64> {
    let mut v = vec![0u64, 1, 2, u64::MAX, u64::MAX - 1, 1 << 56, (1 << 56) - 1, (1 << 56) + 1];
    for k in 1..=9u32 {
        let p = 1u64 << (7 * k);
        v.extend_from_slice(&[p - 1, p, p + 1]);
    }
    v.sort();
    v.dedup();
    v
}

/// sizes shared by read_slice / read_vec
fn len_strategy() -> BoxedStrategy<u64> {
    prop_oneof![
        3 => prop::sample::select(vec![0u64, 1, 2, 3, 4, 8, 15, 16, 17, 31, 32, 255, 256, 257, 300, 511, 512, 513, 600]),
        6 => 0u64..=40,
        1 => 0u64..=600,
    ]
    .boxed()
}

fn bytes(n: usize) -> BoxedStrategy<Vec<u8>> {
    prop::collection::vec(any::<u8>(), n).boxed()
}

#[derive(Clone, Copy, Debug, PartialEq, Eq)]
pub struct Excl {
    /// leave out read_usize / read_slice(n>0) / read_vec / read_string (known finding open)
    pub slice: bool,
    /// leave out the read_array based operations
    pub array: bool,
}

fn item_strategy(excl: Excl, huge: bool) -> BoxedStrategy<(Op, Vec<u8>)> {
    let mut items: Vec<(u32, BoxedStrategy<(Op, Vec<u8>)>)> = vec![
        (4, any::<u8>().prop_map(|b| (Op::ReadU8, vec![b])).boxed()),
        (3, Just((Op::PeekU8, vec![])).boxed()),
        (2, prop_oneof![29 => 0u8..=1, 1 => any::<u8>()].prop_map(|b| (Op::ReadBool, vec![b])).boxed()),
        (2, prop_oneof![4 => 0u16..=20, 1 => 0u16..=300].prop_flat_map(|n| bytes(n as usize).prop_map(move |p| (Op::ManyU8(n), p))).boxed()),
        (
            3,
            prop_oneof![
                3 => prop::sample::select(vec![0u64, 1, 2, 8, 255, 256, 257, 512, 600, 2000, 5000]),
                2 => 0u64..=700,
            ]
            .prop_map(|n| (Op::CheckEor(n), vec![]))
            .boxed(),
        ),
        (3, Just((Op::HasMore, vec![])).boxed()),
        // read_slice(0) is served without touching any buffer: always available
        (1, Just((Op::ReadSlice(0), vec![])).boxed()),
    ];
    if !excl.array {
        items.push((2, bytes(2).prop_map(|p| (Op::ReadU16, p)).boxed()));
        items.push((2, bytes(4).prop_map(|p| (Op::ReadU32, p)).boxed()));
        items.push((2, bytes(8).prop_map(|p| (Op::ReadU64, p)).boxed()));
        items.push((2, bytes(16).prop_map(|p| (Op::ReadU128, p)).boxed()));
        items.push((
            4,
            prop::sample::select(vec![0u16, 1, 8, 16, 32, 300])
                .prop_flat_map(|n| bytes(n as usize).prop_map(move |p| (Op::ReadArray(n), p)))
                .boxed(),
        ));
        items.push((2, prop_oneof![4 => 0u16..=4, 1 => 0u16..=40].prop_flat_map(|n| bytes(n as usize * 8).prop_map(move |p| (Op::ManyU64(n), p))).boxed()));
        items.push((2, prop_oneof![4 => 0u16..=8, 1 => 0u16..=100].prop_flat_map(|n| bytes(n as usize * 3).prop_map(move |p| (Op::ManyPair(n), p))).boxed()));
    }
    if !excl.slice {
        let b = usize_boundaries();
        items.push((
            3,
            prop_oneof![
                5 => prop::sample::select(b).prop_map(vint64),
                3 => any::<u64>().prop_map(vint64),
                2 => (0u32..=64, any::<u64>()).prop_map(|(bits, v)| vint64(if bits == 0 { 0 } else { v >> (64 - bits) })),
                1 => prop::collection::vec(any::<u8>(), 1..=9),
            ]
            .prop_map(|p| (Op::ReadUsize, p))
            .boxed(),
        ));
        items.push((6, len_strategy().prop_flat_map(|n| bytes(n as usize).prop_map(move |p| (Op::ReadSlice(n), p))).boxed()));
        items.push((3, len_strategy().prop_flat_map(|n| bytes(n as usize).prop_map(move |p| (Op::ReadVec(n), p))).boxed()));
        items.push((
            3,
            prop_oneof![
                1 => prop::collection::vec(0x20u8..0x7f, 0..=600),
                5 => prop::collection::vec(0x20u8..0x7f, 0..=40),
                5 => prop::collection::vec(any::<char>(), 0..20).prop_map(|c| c.into_iter().collect::<String>().into_bytes()),
                1 => prop::collection::vec(any::<u8>(), 0..8),
            ]
            .prop_map(|p| (Op::ReadString(p.len() as u16), p))
            .boxed(),
        ));
    }
    if huge {
        let h = prop_oneof![
            (0u64..4).prop_map(|k| u64::MAX - k),
            (0u64..4).prop_map(|k| (1u64 << 63) + k),
            (0u64..2000).prop_map(|k| u64::MAX - k),
            (0u64..4).prop_map(|k| (1u64 << 63) - 1 - k),
        ];
        items.push((6, h.clone().prop_map(|n| (Op::CheckEor(n), vec![])).boxed()));
        items.push((3, h.clone().prop_map(|n| (Op::ReadSlice(n), vec![])).boxed()));
        items.push((3, h.prop_map(|n| (Op::ReadVec(n), vec![])).boxed()));
    }
    proptest::strategy::Union::new_weighted(items).boxed()
}

#[derive(Clone, Debug)]
enum Tail {
    Exact,
    Extra(Vec<u8>),
    Truncate(u16),
}

fn seq_strategy(excl: Excl, huge: bool) -> BoxedStrategy<SeqCase> {
    let tail = prop_oneof![
        3 => Just(Tail::Exact),
        4 => prop::collection::vec(any::<u8>(), 1..40).prop_map(Tail::Extra),
        1 => prop::collection::vec(any::<u8>(), 200..600).prop_map(Tail::Extra),
        2 => any::<u16>().prop_map(Tail::Truncate),
    ];
    (prop::collection::vec(item_strategy(excl, huge), 1..60), chunk_strategy(), tail)
        .prop_map(|(items, chunks, tail)| {
            let mut data = vec![];
            let mut ops = vec![];
            for (op, p) in items {
                data.extend_from_slice(&p);
                ops.push(op);
            }
            match tail {
                Tail::Exact => {},
                Tail::Extra(t) => data.extend_from_slice(&t),
                Tail::Truncate(sel) => {
                    let keep = vf_core::pick_index(sel, data.len() + 1);
                    data.truncate(keep);
                },
            }
            data.truncate(2000);
            // derived from the generated material (no extra generator, so that earlier replay files keep their meaning)
            let keep_going = (data.len() + ops.len()) % 5 < 2;
            SeqCase { data: vf_core::hex(&data), chunks, ops, keep_going }
        })
        .boxed()
}

/// few operations, long requests: lengths around the 1 KiB / 4 KiB / 8 KiB / 16 KiB marks an implementation may
/// treat specially, and arbitrary ones up to 20 000 bytes
fn seq_long_strategy() -> BoxedStrategy<SeqCase> {
    let long_len = prop_oneof![
        3 => prop::sample::select(vec![1023u64, 1024, 1025, 4095, 4096, 4097, 4100, 4351, 4352, 8191, 8192, 8193, 12288, 12289, 16384, 16385]),
        1 => 600u64..=20000,
    ];
    let none = Excl { slice: false, array: false };
    let long_item = prop_oneof![
        3 => long_len.clone().prop_flat_map(|n| bytes(n as usize).prop_map(move |p| (Op::ReadSlice(n), p))),
        3 => long_len.clone().prop_flat_map(|n| bytes(n as usize).prop_map(move |p| (Op::ReadVec(n), p))),
        2 => long_len.prop_flat_map(|n| prop::collection::vec(0x20u8..0x7f, n as usize).prop_map(|p| (Op::ReadString(p.len() as u16), p))),
    ];
    let item = prop_oneof![3 => long_item, 5 => item_strategy(none, false)];
    let tail = prop_oneof![
        3 => Just(Tail::Exact),
        3 => prop::collection::vec(any::<u8>(), 1..40).prop_map(Tail::Extra),
        1 => prop::collection::vec(any::<u8>(), 200..600).prop_map(Tail::Extra),
        2 => any::<u16>().prop_map(Tail::Truncate),
    ];
    (prop::collection::vec(item, 1..15), chunk_strategy(), tail)
        .prop_map(|(items, chunks, tail)| {
            let mut data = vec![];
            let mut ops = vec![];
            for (op, p) in items {
                data.extend_from_slice(&p);
                ops.push(op);
            }
            match tail {
                Tail::Exact => {},
                Tail::Extra(t) => data.extend_from_slice(&t),
                Tail::Truncate(sel) => {
                    let keep = vf_core::pick_index(sel, data.len() + 1);
                    data.truncate(keep);
                },
            }
            data.truncate(70_000);
            let keep_going = (data.len() + ops.len()) % 5 < 2;
            SeqCase { data: vf_core::hex(&data), chunks, ops, keep_going }
        })
        .boxed()
}

// THE SUB-CHECK
// ================================================================================================

pub struct Seq {
    pub huge: bool,
    pub excl: Excl,
    /// variant with few operations and long requests (read_slice / read_vec / read_string of 1 KiB .. 20 KB)
    pub long: bool,
}

impl Seq {
    fn sub_name(&self) -> &'static str {
        if self.long {
            "seq-long"
        } else if self.huge {
            "seq-huge"
        } else {
            "seq"
        }
    }
}

/// does a source chunk boundary fall strictly inside [a, b)?
fn straddles(cuts: &[usize], a: usize, b: usize) -> bool {
    cuts.iter().any(|c| a < *c && *c < b)
}

impl SubCheck for Seq {
    type Case = SeqCase;
    fn name(&self) -> String {
        self.sub_name().into()
    }
    fn cases(&self, tier: Tier) -> u64 {
        if self.long {
            tier.pick(60_000, 1_500_000)
        } else if self.huge {
            tier.pick(20_000, 400_000)
        } else {
            tier.pick(400_000, 12_000_000)
        }
    }
    fn watchdog_secs(&self) -> u64 {
        20
    }
    fn crash_guard(&self) -> bool {
        // a reader that reserves memory for an absurd request would abort the process: report it with its input
        true
    }
    fn rule(&self) -> String {
        let mut s = String::from(
            "1..59 operations over {read_u8, peek_u8, read_bool, read_u16/u32/u64/u128, read_usize, read_slice(n<=600 incl. 0), read_array<0|1|8|16|32|300>, read_vec, read_string, read_many<u8|u64|(u8,u16)>, check_eor, has_more_bytes}; byte stream (<=2000 bytes) assembled from per-operation payloads (valid vint64 / 0-1 / UTF-8 mostly), then exact / extended / truncated; source chunking in {1-byte, <16, random, around 256, around 512, one big}, never a zero-length chunk before EOF; model SliceReader, Cursor and ReadAdapter compared after every step and by a final drain; in two fifths of the cases the sequence goes on after a failed operation (a failed read leaves every reader where it was). non-trivial = a source chunk boundary falls strictly inside a multi-byte read AND a read_slice(n>0) is followed by another consuming read; distinct by whole case",
        );
        if self.long {
            s.push_str("; this variant: 1..14 operations over a stream of up to 70 000 bytes, three in eight of them read_slice / read_vec / read_string requests of 1023..20000 bytes (1023, 1024, 1025, 4095, 4096, 4097, 4100, 4351, 4352, 8191, 8192, 8193, 12288, 12289, 16384, 16385 favoured), the others as above");
        }
        if self.huge {
            s.push_str("; this variant adds requests of 2^63-4..2^63+3 and usize::MAX-1999..usize::MAX bytes to check_eor/read_slice/read_vec");
        }
        if self.excl.slice || self.excl.array {
            s.push_str(&format!(
                "; OPEN KNOWN FINDING: 98% of the cases are generated without the operation families {}{} (label opset=restricted), 2% with the full set; for the restricted cases non-trivial = at least 5 operations whose byte-wise reads continue across a source chunk boundary",
                if self.excl.slice { "[read_usize, read_slice(n>0), read_vec, read_string] " } else { "" },
                if self.excl.array { "[read_u16..u128, read_array, read_many<u64|(u8,u16)>]" } else { "" }
            ));
        }
        s
    }
    fn required_labels(&self, _tier: Tier) -> Vec<String> {
        let mut v: Vec<String> = ["1-byte", "small(<16)", "random", "around-256", "around-512", "one-big"]
            .iter()
            .map(|c| format!("chunking={c}"))
            .collect();
        v.push("end=completed".into());
        v.push("end=error:UnexpectedEOF".into());
        v.push("end=error:InvalidValue".into());
        if !self.huge && !self.long {
            v.push("continued-after-error".into());
            v.push("has_more_bytes-right-after-error".into());
        }
        if self.long {
            v.push("long-read>4096-then-consuming-read".into());
            return v;
        }
        if !self.excl.slice && !self.excl.array {
            v.push("crossed-boundary-in-multibyte-read".into());
            v.push("slice-then-read".into());
            v.push("eor:model-err".into());
        }
        v
    }
    fn strategy(&self, _tier: Tier) -> BoxedStrategy<SeqCase> {
        let none = Excl { slice: false, array: false };
        if self.long {
            return seq_long_strategy();
        }
        if self.excl != none {
            prop_oneof![
                49 => seq_strategy(self.excl, self.huge),
                1 => seq_strategy(none, self.huge),
            ]
            .boxed()
        } else {
            seq_strategy(none, self.huge)
        }
    }

    fn check(&self, c: &SeqCase, obs: &mut Obs) -> CheckResult {
        if self.long {
            let big = |o: &Op| matches!(o, Op::ReadSlice(n) | Op::ReadVec(n) if *n > 4096 && *n < 1 << 32) || matches!(o, Op::ReadString(n) if *n > 4096);
            if c.ops.windows(2).any(|w| big(&w[0])) {
                obs.label("long-read>4096-then-consuming-read");
            }
        }
        vf_core::crash::guard_begin();
        let r = self.check_inner(c, obs);
        let max_req = vf_core::crash::guard_end();
        r?;
        ensure!(
            max_req <= (16usize << 20).max(4096 * c.data.len()),
            "alloc/out-of-proportion",
            "a single allocation of {max_req} bytes was requested while reading a stream of {} bytes",
            c.data.len() / 2
        );
        Ok(())
    }
}

impl Seq {
    fn check_inner(&self, c: &SeqCase, obs: &mut Obs) -> CheckResult {
        let data = vf_core::unhex(&c.data);
        let mut model = SliceReader::new(&data);
        let mut cursor = Cursor::new(&data[..]);
        let mut source = Chunked::new(&data, &c.chunks);
        let cuts = source.cuts();
        let mut adapter = ReadAdapter::new(&mut source);

        obs.label(format!("chunking={}", chunk_class(&c.chunks)));
        obs.label(format!("len={}", if c.ops.len() < 10 { "1-9" } else if c.ops.len() < 30 { "10-29" } else { "30-59" }));
        let restricted = !c.ops.iter().any(|o| {
            (self.excl.slice && o.family() == Family::Slice && *o != Op::ReadSlice(0) && !o.is_huge())
                || (self.excl.array && o.family() == Family::Array)
        });
        if self.excl.slice || self.excl.array {
            obs.label(if restricted { "opset=restricted(known finding open)" } else { "opset=full" });
        }
        let mut seen = std::collections::BTreeSet::new();
        for o in &c.ops {
            if seen.insert(o.name()) {
                obs.label(format!("op={}", o.name()));
            }
        }

        // spans of executed multi-byte reads and bookkeeping for the non-triviality rule
        let mut multi_spans: Vec<(usize, usize)> = vec![];
        let mut slice_ok = false; // a read_slice-family request with n>0 succeeded (on the adapter)
        let mut slice_then_read = false;
        let mut end = "completed".to_string();

        for (i, op) in c.ops.iter().enumerate() {
            let pfx = if slice_ok { "post-slice:" } else { "" };
            let key = |mode: &str| format!("{pfx}{}:{}/{mode}", op.family_name(), op.name());
            let before = cursor.position() as usize;

            let m = vf_core::catch(|| apply(&mut model, op)).map_err(|p| {
                Fail::new(
                    format!("model-panic:{}/{}", op.name(), p.key()),
                    format!("step {i} {op:?}: SliceReader panicked: {} at {}:{}", p.msg, p.file, p.line),
                )
            })?;
            let cu = vf_core::catch(|| apply(&mut cursor, op)).map_err(|p| {
                Fail::new(
                    format!("cursor-panic:{}/{}", op.name(), p.key()),
                    format!("step {i} {op:?}: Cursor panicked: {} at {}:{}", p.msg, p.file, p.line),
                )
            })?;
            obs.comparisons += 2;
            // the two in-memory readers must agree exactly
            match (&cu, &m) {
                (Ok(x), Ok(y)) => ensure!(x == y, format!("cursor:{}/value", op.name()), "step {i} {op:?}: Cursor {x:?} != SliceReader {y:?}"),
                (Err(x), Err(y)) => ensure!(
                    kind(x) == kind(y),
                    format!("cursor:{}/error-kind", op.name()),
                    "step {i} {op:?}: Cursor {x:?}, SliceReader {y:?}"
                ),
                _ => {
                    return Err(Fail::new(
                        format!("cursor:{}/ok-vs-err", op.name()),
                        format!("step {i} {op:?}: Cursor {cu:?}, SliceReader {m:?}"),
                    ))
                },
            }
            let after = cursor.position() as usize;

            let a = vf_core::catch(|| apply(&mut adapter, op)).map_err(|p| {
                Fail::new(
                    key(&p.key()),
                    format!("step {i} {op:?} (stream offset {before}): ReadAdapter panicked: {} at {}:{}", p.msg, p.file, p.line),
                )
            })?;

            if let Op::CheckEor(_) = op {
                match (&a, &m) {
                    (Err(e), Ok(_)) => {
                        return Err(Fail::new(
                            key("adapter-err-model-ok"),
                            format!("step {i} {op:?} (stream offset {before} of {}): adapter reports {e:?} although the bytes are available", data.len()),
                        ))
                    },
                    (Ok(_), Err(_)) => obs.label("eor:optimistic"),
                    (Err(x), Err(y)) => {
                        obs.label("eor:model-err");
                        ensure!(kind(x) == kind(y), key("error-kind"), "step {i} {op:?}: adapter {x:?}, model {y:?}");
                    },
                    (Ok(_), Ok(_)) => {},
                }
                // a query: no position is affected, the sequence goes on
                continue;
            }

            match (&a, &m) {
                (Ok(x), Ok(y)) => {
                    ensure!(
                        x == y,
                        key("value"),
                        "step {i} {op:?} (stream offset {before}): adapter returned {}, model {}",
                        short(x),
                        short(y)
                    );
                },
                (Err(x), Err(y)) => {
                    ensure!(kind(x) == kind(y), key("error-kind"), "step {i} {op:?}: adapter {x:?}, model {y:?}");
                    end = format!("error:{}", kind(y));
                },
                (Ok(x), Err(y)) => {
                    return Err(Fail::new(
                        key(&format!("adapter-ok-model-err:{}", kind(y))),
                        format!("step {i} {op:?} (stream offset {before} of {}): adapter returned {}, model {y:?}", data.len(), short(x)),
                    ))
                },
                (Err(x), Ok(y)) => {
                    return Err(Fail::new(
                        key(&format!("adapter-err-model-ok:{}", kind(x))),
                        format!("step {i} {op:?} (stream offset {before} of {}): adapter {x:?}, model returned {}", data.len(), short(y)),
                    ))
                },
            }
            if m.is_err() {
                if !c.keep_going || op.is_huge() {
                    break;
                }
                // both readers have refused: carry on from where they are
                end = "completed".to_string();
                obs.label("continued-after-error");
                if matches!(c.ops.get(i + 1), Some(Op::HasMore)) {
                    obs.label("has_more_bytes-right-after-error");
                }
                continue;
            }
            // bookkeeping (successful step)
            let consuming = after > before;
            if slice_ok && consuming {
                slice_then_read = true;
            }
            match op {
                Op::ReadSlice(n) | Op::ReadVec(n) if *n > 0 => slice_ok = true,
                Op::ReadString(n) if *n > 0 => slice_ok = true,
                Op::ReadUsize if after - before < 9 => slice_ok = true,
                _ => {},
            }
            match op {
                Op::ManyU8(_) | Op::ReadU8 | Op::ReadBool | Op::PeekU8 | Op::HasMore | Op::CheckEor(_) => {},
                Op::ManyU64(n) => (0..*n as usize).for_each(|k| multi_spans.push((before + 8 * k, before + 8 * k + 8))),
                Op::ManyPair(n) => (0..*n as usize).for_each(|k| multi_spans.push((before + 3 * k + 1, before + 3 * k + 3))),
                Op::ReadUsize if after - before == 9 => multi_spans.push((before + 1, after)),
                _ => {
                    if after - before >= 2 {
                        multi_spans.push((before, after))
                    }
                },
            }
        }

        // final observation + drain (only when no error left the position unspecified)
        if end == "completed" {
            let pfx = if slice_ok { "post-slice:" } else { "" };
            let pos = cursor.position() as usize;
            let rest = &data[pos.min(data.len())..];
            let hm = vf_core::catch(|| adapter.has_more_bytes())
                .map_err(|p| Fail::new(format!("{pfx}final:has_more_bytes/{}", p.key()), format!("has_more_bytes panicked: {}", p.msg)))?;
            ensure!(
                hm == model.has_more_bytes() && hm == !rest.is_empty(),
                format!("{pfx}final:has_more_bytes/value"),
                "after the sequence: adapter has_more_bytes = {hm}, {} bytes are left",
                rest.len()
            );
            let mut got = vec![];
            for _ in 0..=data.len() {
                match vf_core::catch(|| adapter.read_u8()) {
                    Ok(Ok(b)) => got.push(b),
                    Ok(Err(e)) => {
                        ensure!(kind(&e) == "UnexpectedEOF", format!("{pfx}final:drain/error-kind"), "drain ended with {e:?}");
                        break;
                    },
                    Err(p) => return Err(Fail::new(format!("{pfx}final:drain/{}", p.key()), format!("drain panicked: {}", p.msg))),
                }
            }
            ensure!(
                got == rest,
                format!("{pfx}final:drain/remaining-bytes"),
                "after the sequence the adapter still delivers {} bytes ({}), the model has {} bytes left ({}): bytes were not consumed exactly once",
                got.len(),
                short(&Val::Bytes(got.clone())),
                rest.len(),
                short(&Val::Bytes(rest.to_vec()))
            );
            let mut mrest = vec![];
            while let Ok(b) = model.read_u8() {
                mrest.push(b);
            }
            ensure!(mrest == rest, "model:drain", "SliceReader and Cursor disagree about the remaining bytes");
            obs.comparisons += 2;
        }
        obs.label(format!("end={end}"));

        let cuts = cuts.borrow();
        let crossed = multi_spans.iter().any(|(a, b)| straddles(&cuts, *a, *b));
        if crossed {
            obs.label("crossed-boundary-in-multibyte-read");
        }
        if slice_then_read {
            obs.label("slice-then-read");
        }
        if (self.excl.slice || self.excl.array) && restricted {
            // reduced rule while the read_slice / read_array families are excluded (see rule())
            let consumed = cursor.position() as usize;
            let byte_crossed = cuts.iter().any(|c| *c > 0 && *c < consumed);
            if byte_crossed {
                obs.label("byte-reads-across-chunk-boundary");
            }
            obs.nontrivial_if(byte_crossed && c.ops.len() >= 5);
        } else {
            obs.nontrivial_if(crossed && slice_then_read);
        }
        Ok(())
    }
}

fn short(v: &Val) -> String {
    let s = match v {
        Val::Bytes(b) => format!("[{} bytes] {}", b.len(), vf_core::hex(&b[..b.len().min(24)])),
        other => format!("{other:?}"),
    };
    if s.len() > 160 {
        let mut cut = 160;
        while !s.is_char_boundary(cut) {
            cut -= 1;
        }
        format!("{}…", &s[..cut])
    } else {
        s
    }
}

pub fn run(run: &mut Run) {
    run.assume("the underlying std::io::Read source never returns Ok(0) before its end (std defines Ok(0) as EOF), never fails, and is read through ReadAdapter::new only");
    // known findings in the adapter's buffering make most sequences stop at the first such request;
    // while they are open the generator leaves the affected operation families out of 98% of the cases
    let excl = Excl {
        slice: run.is_known("seq/slice:") || run.is_known("seq/post-slice:"),
        array: run.is_known("seq/array:"),
    };
    if excl.slice || excl.array {
        run.note("excluded_known", serde_json::json!({"slice-family": excl.slice, "array-family": excl.array}));
    }
    run.sub(&Seq { huge: false, excl, long: false });
    run.sub(&Seq { huge: false, excl: Excl { slice: false, array: false }, long: true });
    let excl_h = Excl {
        slice: run.is_known("seq-huge/slice:") || run.is_known("seq-huge/post-slice:"),
        array: run.is_known("seq-huge/array:"),
    };
    run.sub(&Seq { huge: true, excl: excl_h, long: false });
}
