//! A `std::io::Read` source that hands out a byte string in caller-chosen chunk sizes.
//!
//! `sizes` is cycled; every entry is >= 1 (a zero-length read before the end of the data would mean
//! EOF by the contract of `std::io::Read`, so it is never produced). An empty `sizes` list means
//! "as much as the caller's buffer takes". The positions at which the reads ended are recorded in
//! `cuts` so that a check can tell whether a multi-byte request straddled a source chunk boundary.

use std::cell::RefCell;
use std::io::Read;
use std::rc::Rc;

pub struct Chunked {
    data: Vec<u8>,
    pos: usize,
    sizes: Vec<usize>,
    idx: usize,
    cuts: Rc<RefCell<Vec<usize>>>,
}

impl Chunked {
    pub fn new(data: &[u8], sizes: &[u16]) -> Self {
        Chunked {
            data: data.to_vec(),
            pos: 0,
            sizes: sizes.iter().map(|s| (*s as usize).max(1)).collect(),
            idx: 0,
            cuts: Rc::new(RefCell::new(vec![])),
        }
    }
    /// shared handle on the list of stream offsets at which a source read ended
    pub fn cuts(&self) -> Rc<RefCell<Vec<usize>>> {
        self.cuts.clone()
    }
}

impl Read for Chunked {
    fn read(&mut self, out: &mut [u8]) -> std::io::Result<usize> {
        let left = self.data.len() - self.pos;
        if left == 0 || out.is_empty() {
            return Ok(0);
        }
        let want = if self.sizes.is_empty() {
            usize::MAX
        } else {
            let w = self.sizes[self.idx % self.sizes.len()];
            self.idx += 1;
            w
        };
        let n = want.min(out.len()).min(left);
        out[..n].copy_from_slice(&self.data[self.pos..self.pos + n]);
        self.pos += n;
        self.cuts.borrow_mut().push(self.pos);
        Ok(n)
    }
}

/// coverage class of a chunk-size list
pub fn chunk_class(sizes: &[u16]) -> &'static str {
    if sizes.is_empty() {
        "one-big"
    } else if sizes.iter().all(|s| *s <= 1) {
        "1-byte"
    } else if sizes.iter().any(|s| (250..=260).contains(s)) {
        "around-256"
    } else if sizes.iter().any(|s| (505..=515).contains(s)) {
        "around-512"
    } else if sizes.iter().all(|s| *s < 16) {
        "small(<16)"
    } else {
        "random"
    }
}

use proptest::prelude::*;

/// chunk-size lists: 1-byte, small, random, around the 256-byte internal buffer, around 512, one big
pub fn chunk_strategy() -> BoxedStrategy<Vec<u16>> {
    prop_oneof![
        2 => Just(vec![1u16]),
        2 => Just(vec![]),
        2 => prop::collection::vec(1u16..16, 1..6),
        3 => prop::collection::vec(1u16..700, 1..8),
        3 => prop::collection::vec(prop_oneof![Just(255u16), Just(256), Just(257), Just(254), Just(1), Just(2), 1u16..300], 1..6),
        2 => prop::collection::vec(prop_oneof![Just(511u16), Just(512), Just(513), Just(1), 1u16..600], 1..6),
        1 => prop::collection::vec(prop_oneof![Just(1u16), Just(2), Just(3), Just(255)], 1..8),
    ]
    .boxed()
}
