//! C12 — serialization round trip for every serializable type, through every reader.
//!
//! One sub-check per (reader class, type group): `mem/<group>` reads through `SliceReader` and
//! `std::io::Cursor`, `adapter/<group>` through `ReadAdapter` over a chunked source. For a value x:
//! `T::read_from(R(x.to_bytes())) == Ok(x)`, `!has_more_bytes()` afterwards, and — second pass with
//! five foreign bytes appended — exactly those five bytes are left (the value consumes exactly what
//! was written). `get_size_hint` is documented as an estimate and is not asserted.

use std::fmt::Debug;
use std::io::Cursor;
use std::marker::PhantomData;

use proptest::prelude::*;
use serde::de::DeserializeOwned;
use serde::{Deserialize, Serialize};
use vf_core::panics::normalise;
use vf_core::{CheckResult, Fail, Obs, Run, SubCheck, Tier};
use winter_utils::{ByteReader, Deserializable, DeserializationError, ReadAdapter, Serializable, SliceReader};

use crate::chunked::{chunk_class, chunk_strategy, Chunked};

pub mod prim;
pub mod structs;

// READERS
// ================================================================================================

#[derive(Clone, Copy, PartialEq, Eq, Debug)]
pub enum Rd {
    Mem,
    Adapter,
}

/// classes excluded from composite values while the corresponding finding is open
#[derive(Clone, Copy, Default, Debug)]
pub struct Excl {
    pub width255: bool,
    pub aux_norand: bool,
    pub ood_evals_big: bool,
    pub len_over_31: bool,
}

/// While a class is an open known finding only every 16th member of it (chosen by a fixed function
/// of the case) is still executed - enough to keep reporting the finding - because every failing
/// case is shrunk by the engine; the others are counted under a `skipped-known:` label.
pub fn keep_known(h: u64) -> bool {
    h % 16 == 0
}

pub struct Ctx<'a> {
    pub rd: Rd,
    pub chunks: &'a [u16],
    pub excl: Excl,
}

pub fn err_key(e: &DeserializationError) -> String {
    match e {
        DeserializationError::InvalidValue(m) => format!("InvalidValue({})", normalise(m)),
        DeserializationError::UnexpectedEOF => "UnexpectedEOF".into(),
        DeserializationError::UnconsumedBytes => "UnconsumedBytes".into(),
        DeserializationError::UnknownError(m) => format!("UnknownError({})", normalise(m)),
    }
}

pub fn dbg<T: Debug + ?Sized>(x: &T) -> String {
    let s = format!("{x:?}");
    if s.len() > 300 {
        let mut cut = 300;
        while !s.is_char_boundary(cut) {
            cut -= 1;
        }
        format!("{}…(+{} chars)", &s[..cut], s.len() - cut)
    } else {
        s
    }
}

const TAIL: [u8; 5] = [0xA5, 0x00, 0x01, 0xFF, 0x80];

/// reads one T, then reports has_more_bytes and drains what is left
fn read_all<R: ByteReader, T: Deserializable>(r: &mut R, cap: usize) -> (Result<T, DeserializationError>, bool, Vec<u8>) {
    let v = T::read_from(r);
    let more = r.has_more_bytes();
    let mut rest = vec![];
    if v.is_ok() {
        while let Ok(b) = r.read_u8() {
            rest.push(b);
            if rest.len() > cap {
                break;
            }
        }
    }
    (v, more, rest)
}

/// Wrapper around `ReadAdapter` that forwards the six required `ByteReader` methods unchanged and
/// repeats the trait's provided `read_many` with one addition: an element count that cannot stem
/// from the input (more than 16 x input length + 200000) is recorded and refused instead of being
/// handed to `Vec::with_capacity`, which would abort the whole harness process. Such a count can
/// only come out of a reader that returned wrong bytes; it is reported as a violation.
struct Guard<'a, 'b> {
    inner: ReadAdapter<'a>,
    limit: usize,
    tripped: &'b std::cell::Cell<Option<usize>>,
}

impl ByteReader for Guard<'_, '_> {
    fn read_u8(&mut self) -> Result<u8, DeserializationError> {
        self.inner.read_u8()
    }
    fn peek_u8(&self) -> Result<u8, DeserializationError> {
        self.inner.peek_u8()
    }
    fn read_slice(&mut self, len: usize) -> Result<&[u8], DeserializationError> {
        self.inner.read_slice(len)
    }
    fn read_array<const N: usize>(&mut self) -> Result<[u8; N], DeserializationError> {
        self.inner.read_array::<N>()
    }
    fn check_eor(&self, num_bytes: usize) -> Result<(), DeserializationError> {
        self.inner.check_eor(num_bytes)
    }
    fn has_more_bytes(&self) -> bool {
        self.inner.has_more_bytes()
    }
    fn read_many<D>(&mut self, num_elements: usize) -> Result<Vec<D>, DeserializationError>
    where
        D: Deserializable,
    {
        if num_elements > self.limit {
            self.tripped.set(Some(num_elements));
            return Err(DeserializationError::UnknownError("harness guard: implausible element count".into()));
        }
        let mut result = Vec::with_capacity(num_elements);
        for _ in 0..num_elements {
            result.push(D::read_from(self)?);
        }
        Ok(result)
    }
}

impl Ctx<'_> {
    /// round trip of a value through its own encoding
    pub fn rt<T>(&self, what: &str, x: &T, obs: &mut Obs) -> CheckResult
    where
        T: Serializable + Deserializable + PartialEq + Debug,
    {
        let bytes = vf_core::catch(|| x.to_bytes()).map_err(|p| {
            Fail::new(format!("{what}/encode/{}", p.key()), format!("to_bytes panicked for {}: {} at {}:{}", dbg(x), p.msg, p.file, p.line))
        })?;
        self.rt_bytes(what, bytes, x, obs)
    }

    /// `bytes` is the encoding of something that must decode (as T) to `x`
    pub fn rt_bytes<T>(&self, what: &str, bytes: Vec<u8>, x: &T, obs: &mut Obs) -> CheckResult
    where
        T: Deserializable + PartialEq + Debug,
    {
        let readers: &[&str] = match self.rd {
            Rd::Mem => &["slice", "cursor"],
            Rd::Adapter => &["adapter"],
        };
        let mut extended = bytes.clone();
        extended.extend_from_slice(&TAIL);
        for reader in readers {
            for (pass, (input, tail)) in [(&bytes, &[][..]), (&extended, &TAIL[..])].into_iter().enumerate() {
                obs.comparisons += 1;
                let tripped = std::cell::Cell::new(None);
                let r = vf_core::catch(|| match *reader {
                    "slice" => read_all::<_, T>(&mut SliceReader::new(input), 16),
                    "cursor" => read_all::<_, T>(&mut Cursor::new(&input[..]), 16),
                    _ => {
                        let mut src = Chunked::new(input, self.chunks);
                        let mut ad = Guard { inner: ReadAdapter::new(&mut src), limit: 16 * input.len() + 200_000, tripped: &tripped };
                        read_all::<_, T>(&mut ad, 16)
                    },
                });
                if let Some(n) = tripped.get() {
                    return Err(Fail::new(
                        format!("{what}/{reader}/implausible-count"),
                        format!(
                            "decoding {} ({reader}, {} bytes) asked for {n} elements (a count that is nowhere in the encoding; Vec::with_capacity({n}) would abort the process)",
                            dbg(x),
                            input.len()
                        ),
                    ));
                }
                let ctxs = format!("{reader}, {} bytes{}", bytes.len(), if pass == 1 { " + 5 foreign bytes" } else { "" });
                let (v, more, rest) = r.map_err(|p| {
                    Fail::new(format!("{what}/{reader}/{}", p.key()), format!("decoding panicked ({ctxs}) for {}: {} at {}:{}", dbg(x), p.msg, p.file, p.line))
                })?;
                match v {
                    Err(e) => {
                        return Err(Fail::new(
                            format!("{what}/{reader}/err:{}", err_key(&e)),
                            format!("value {} does not decode ({ctxs}): {e:?}; encoding starts {}", dbg(x), vf_core::hex(&bytes[..bytes.len().min(32)])),
                        ))
                    },
                    Ok(y) => {
                        if y != *x {
                            return Err(Fail::new(format!("{what}/{reader}/value"), format!("decoded {} from the encoding of {} ({ctxs})", dbg(&y), dbg(x))));
                        }
                    },
                }
                if more != !tail.is_empty() || rest != tail {
                    return Err(Fail::new(
                        format!("{what}/{reader}/consumed"),
                        format!(
                            "after decoding {} ({ctxs}): has_more_bytes = {more}, remaining bytes {} (expected {})",
                            dbg(x),
                            vf_core::hex(&rest),
                            vf_core::hex(tail)
                        ),
                    ));
                }
            }
        }
        Ok(())
    }
}

// GENERIC SUB-CHECK
// ================================================================================================

pub trait Group: Sync + 'static {
    type Spec: Serialize + DeserializeOwned + Debug + Clone + Send;
    const NAME: &'static str;
    /// cap on the case count while every failure of the reader class is an open known finding
    /// (each failing case is shrunk, which is expensive for large values)
    const REDUCED_MAX: u64 = 3000;
    fn strategy(tier: Tier) -> BoxedStrategy<Self::Spec>;
    fn cases(tier: Tier) -> u64;
    fn rule() -> String;
    fn required_labels() -> Vec<String> {
        vec![]
    }
    fn check(spec: &Self::Spec, ctx: &Ctx, obs: &mut Obs) -> CheckResult;
}

#[derive(Serialize, Deserialize, Clone, Debug)]
#[serde(bound = "S: Serialize + DeserializeOwned")]
pub struct RtCase<S> {
    pub spec: S,
    /// chunk sizes of the source under ReadAdapter (ignored by the in-memory readers)
    pub chunks: Vec<u16>,
}

pub struct Rt<G> {
    pub rd: Rd,
    pub excl: Excl,
    /// the adapter class is an open known finding: run a reduced number of cases
    pub reduced: bool,
    _g: PhantomData<fn() -> G>,
}

impl<G> Rt<G> {
    pub fn new(rd: Rd, excl: Excl, reduced: bool) -> Self {
        Rt { rd, excl, reduced, _g: PhantomData }
    }
}

impl<G: Group> SubCheck for Rt<G> {
    type Case = RtCase<G::Spec>;
    fn name(&self) -> String {
        format!("{}/{}", if self.rd == Rd::Mem { "mem" } else { "adapter" }, G::NAME)
    }
    fn cases(&self, tier: Tier) -> u64 {
        let n = G::cases(tier);
        match self.rd {
            Rd::Mem => n,
            Rd::Adapter if self.reduced => (n / 100).min(G::REDUCED_MAX),
            Rd::Adapter => n / 2,
        }
    }
    fn watchdog_secs(&self) -> u64 {
        30
    }
    fn rule(&self) -> String {
        let r = match self.rd {
            Rd::Mem => "readers: SliceReader and std::io::Cursor".to_string(),
            Rd::Adapter => format!(
                "reader: ReadAdapter over a source chunked {{1-byte, <16, random, around 256, around 512, one big}}{}",
                if self.reduced { " (case count reduced to 1%: every failure of this reader class is an open known finding)" } else { "" }
            ),
        };
        format!("{}; {r}; each value decoded twice: from its exact encoding (no bytes may be left) and with 5 foreign bytes appended (exactly those must be left)", G::rule())
    }
    fn required_labels(&self, _tier: Tier) -> Vec<String> {
        if self.rd == Rd::Adapter && self.reduced {
            vec![]
        } else {
            G::required_labels()
        }
    }
    fn strategy(&self, tier: Tier) -> BoxedStrategy<Self::Case> {
        match self.rd {
            Rd::Mem => G::strategy(tier).prop_map(|spec| RtCase { spec, chunks: vec![] }).boxed(),
            Rd::Adapter => (G::strategy(tier), chunk_strategy()).prop_map(|(spec, chunks)| RtCase { spec, chunks }).boxed(),
        }
    }
    fn check(&self, c: &Self::Case, obs: &mut Obs) -> CheckResult {
        if self.rd == Rd::Adapter {
            obs.label(format!("chunking={}", chunk_class(&c.chunks)));
        }
        let ctx = Ctx { rd: self.rd, chunks: &c.chunks, excl: self.excl };
        G::check(&c.spec, &ctx, obs)
    }
}

// byte fills for large opaque payloads: a pure function of a generated seed
#[derive(Serialize, Deserialize, Clone, Debug)]
pub enum Fill {
    Zero,
    Ones,
    Pat(u64),
}

pub fn fill(f: &Fill, n: usize) -> Vec<u8> {
    match f {
        Fill::Zero => vec![0; n],
        Fill::Ones => vec![0xff; n],
        Fill::Pat(seed) => {
            let mut out = Vec::with_capacity(n + 8);
            let mut i = 0u64;
            while out.len() < n {
                let mut h = seed.wrapping_add(i.wrapping_mul(0x9e3779b97f4a7c15));
                h ^= h >> 30;
                h = h.wrapping_mul(0xbf58476d1ce4e5b9);
                h ^= h >> 27;
                h = h.wrapping_mul(0x94d049bb133111eb);
                h ^= h >> 31;
                out.extend_from_slice(&h.to_le_bytes());
                i += 1;
            }
            out.truncate(n);
            out
        },
    }
}

pub fn fill_strategy() -> BoxedStrategy<Fill> {
    prop_oneof![1 => Just(Fill::Zero), 1 => Just(Fill::Ones), 6 => any::<u64>().prop_map(Fill::Pat)].boxed()
}

pub fn run(run: &mut Run) {
    run.assume("equality of decoded and original value is the type's own PartialEq (field elements compare by residue)");
    let excl = Excl {
        width255: run.is_known("mem/trace-info/TraceInfo/slice/err:InvalidValue(full trace width"),
        aux_norand: run.is_known("mem/trace-info/TraceInfo/slice/err:InvalidValue(a non-empty trace segment"),
        ood_evals_big: run.is_known("mem/ood/OodFrame(evals>65535B)/"),
        len_over_31: run.is_known("mem/trace-info/TraceInfo/slice/err:InvalidValue(trace length cannot be greater than"),
    };
    let reduced = run.is_known("adapter/");
    if reduced {
        run.note(
            "reduced_known",
            serde_json::json!("adapter/* sub-checks run 1% of their case count (adapter/proof 16 cases, adapter/queries and adapter/fri none: their parts are inside adapter/proof) while the ReadAdapter finding is open, because the engine shrinks every failing case"),
        );
    }
    prim::run(run, excl, reduced);
    structs::run(run, excl, reduced);
}
