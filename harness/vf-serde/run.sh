#!/bin/bash
# vf-serde checks; C13 additionally runs the coverage-guided fuzzer (/verif/fuzz, target read_adapter, ASan)
set -u
ROOT="${VERIF_ROOT:-/verif}"
TGT="${CARGO_TARGET_DIR:-$ROOT/target}"
BIN="$TGT/vf/vf-serde"
if [ "${1:-}" = "--replay" ]; then
  FILE="$2"
  case "$FILE" in
    *.fuzz)
      cd "$ROOT/harness" && cargo +nightly fuzz run --fuzz-dir "$ROOT/fuzz" read_adapter "$FILE" -- -runs=1 >"$ROOT/work/fuzz/replay.log" 2>&1
      if [ $? -ne 0 ]; then
        grep -m1 "C13 VIOLATION" "$ROOT/work/fuzz/replay.log"
        echo "VIOLATION property=C13 replay=$FILE"; exit 1
      fi
      echo "replay: fuzz input passes"; exit 0 ;;
  esac
  exec "$BIN" --replay "$FILE"
fi
PROP="$1"; TIER="${2:-quick}"
if [ "$PROP" != "C13" ]; then
  exec "$BIN" "$PROP" "$TIER"
fi
"$BIN" C13 "$TIER"; RC=$?
[ $RC -eq 1 ] && exit 1
FZ="$ROOT/work/fuzz"; mkdir -p "$FZ/artifacts"
LOG="$FZ/build-read_adapter.log"
( cd "$ROOT/harness" && cargo +nightly fuzz build --fuzz-dir "$ROOT/fuzz" read_adapter >"$LOG" 2>&1 )
if [ $? -ne 0 ]; then echo "INCONCLUSIVE: fuzz target build failed (see $LOG)"; tail -5 "$LOG"; exit 2; fi
CORPUS="$FZ/corpus-read_adapter-$TIER"; rm -rf "$CORPUS"; mkdir -p "$CORPUS"
cp "$ROOT"/regress/C13/*.fuzz "$CORPUS"/ 2>/dev/null
# a few structured seeds: chunk sizes around the 256-byte buffer, mixed operations, 600 stream bytes
python3 - "$CORPUS" <<'PY'
import sys, os, struct
d = sys.argv[1]
def case(chunks, ops, stream):
    b = bytes([len(chunks)]) + b"".join(struct.pack("<H", c) for c in chunks) + bytes([len(ops)])
    for tag, arg in ops: b += bytes([tag]) + struct.pack("<H", arg)
    return b + stream
stream = bytes((i * 7 + 3) & 0xff for i in range(600))
seeds = [
    case([1], [(8, 3), (4, 0), (6, 0), (16, 0)], stream),
    case([255, 257], [(8, 300), (9, 5), (7, 0), (10, 20), (15, 100)], stream),
    case([3, 5, 2], [(8, 1), (6, 0), (13, 4), (14, 3), (1, 0), (0, 0)], stream),
    case([], [(9, 5), (8, 600), (16, 0)], stream),
    case([512, 1], [(12, 100), (5, 0), (8, 255), (3, 0), (15, 1)], stream),
]
for i, s in enumerate(seeds):
    open(os.path.join(d, f"seed-{i}.bin"), "wb").write(s)
PY
SEED=$(( ${VERIF_SEED:-0} + 1 ))
if [ "$TIER" = "thorough" ]; then ARGS="-max_total_time=600 -jobs=8 -workers=8"; else ARGS="-runs=400000"; fi
OUT="$FZ/run-read_adapter.log"; rm -f "$ROOT"/harness/fuzz-*.log
( cd "$ROOT/harness" && cargo +nightly fuzz run --fuzz-dir "$ROOT/fuzz" read_adapter "$CORPUS" -- $ARGS -seed=$SEED -len_control=0 -max_len=2400 -rss_limit_mb=4096 -malloc_limit_mb=1024 -timeout=30 -artifact_prefix="$FZ/artifacts/" -print_final_stats=1 >"$OUT" 2>&1 )
FRC=$?
RUNS=$(grep -h "stat::number_of_executed_units" "$OUT" "$ROOT"/harness/fuzz-*.log 2>/dev/null | awk '{s+=$2} END {print s+0}')
python3 - "$ROOT/evidence/C13.json" "$RUNS" "$FRC" <<'PY'
import json,sys
p,runs,frc=sys.argv[1],int(sys.argv[2]),int(sys.argv[3])
try:
    e=json.load(open(p))
    e["coverage"]["libfuzzer_read_adapter"]={"executions":runs,"exit_code":frc,"oracle":"in-target: the C13 step-by-step comparison of ReadAdapter with SliceReader and Cursor (vf_serde::c13); AddressSanitizer makes out-of-bounds reads in the adapter's unsafe copies visible","engine":"cargo-fuzz / libFuzzer with ASan, -len_control=0","seed_corpus":"5 structured seeds (chunkings around the 256-byte buffer) + committed regress/C13/*.fuzz"}
    e["coverage"]["evaluations"]+=runs
    json.dump(e,open(p,"w"),indent=1)
except Exception as ex:
    print("evidence merge failed:",ex)
PY

if [ $FRC -ne 0 ]; then
  ART=$(ls -t "$FZ"/artifacts/* 2>/dev/null | head -1)
  if [ -n "$ART" ]; then
    mkdir -p "$ROOT/work/replay"; DEST="$ROOT/work/replay/C13-libfuzzer-$(basename "$ART").fuzz"; cp "$ART" "$DEST"
    grep -h -m1 "C13 VIOLATION\|ERROR: AddressSanitizer" "$OUT" | head -1
    echo "VIOLATION property=C13 replay=$DEST"; exit 1
  fi
  echo "INCONCLUSIVE: fuzzer exited with $FRC without an artifact (see $OUT)"; exit 2
fi
echo "[C13] libFuzzer read_adapter: $RUNS executions, no crash"
exit $RC
